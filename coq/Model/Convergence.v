(* C05  Convergent capabilities and literal files: executable model.

   Mirrors
     immutable/upload.py   BaseUploadable.get_all_encoding_parameters (segment size),
                           FileHandle._get_encryption_key_convergent (the read loop: seek(0);
                           read(BLOCKSIZE) until an empty read; hasher.update(chunk) each),
                           FileHandle.get_encryption_key, EncryptAnUploadable._get_encryptor /
                           get_storage_index (storage_index_hash(key)),
                           Uploader.upload (size <= URI_LIT_SIZE_THRESHOLD -> LiteralUploader,
                           else CHK with read-cap CHKFileURI(key, ueb_hash, k, n, size)),
                           LiteralUploader.start (LiteralFileURI(b"".join(data)).to_string())
     util/hashutil.py      convergence_hasher / _convergence_hasher_tag / storage_index_hash
                           (Gen/Hashutil.v, regenerated from the source on every run)
     uri.py                LiteralFileURI.to_string / init_from_string ("URI:LIT:" + base32)
     util/base32.py        b2a (RFC 4648 lower case, no padding), a2b behind the regular
                           expression BASE32STR_anybytes (unused trailing bits must be zero)
     immutable/literal.py  LiteralFileNode.read (a slice of the embedded data, no servers)

   Not modelled here: the UEB hash field of the CHK cap (it is a function of the
   ciphertext and the erasure code: C01/C02), AES, share placement.  The random key
   (`os.urandom(16)`) is outside the model: the driver samples it.

   Python's `//` and `%` raise ZeroDivisionError for k = 0 where Coq's return 0 / n;
   the real code never gets k = 0 (`encoding_param_k or default`, and
   _convergence_hasher_tag rejects k < 1), so statements about segment sizes are for k >= 1.
   Bytes are `list N`; Python bytes are < 256, which the base32 round trip needs
   (cv_bytes_ok).  No proofs in this file. *)
From Coq Require Import List NArith Bool String.
From Verif Require Import Lib.Hex Lib.Decimal Lib.Netstring Lib.SHA256 Lib.HashPrim Gen.Hashutil Gen.ImmConsts.
Import ListNotations.
Local Open Scope N_scope.

(* ---- pyutil.mathutil, BaseUploadable.get_all_encoding_parameters ------------ *)
Definition cv_div_ceil (n d : N) : N := n / d + (if n mod d =? 0 then 0 else 1).
Definition cv_next_multiple (n k : N) : N := cv_div_ceil n k * k.
(* segsize = next_multiple(min(max_segsize, file_size), k) *)
Definition cv_upload_segsize (max_seg size k : N) : N := cv_next_multiple (N.min max_seg size) k.

(* ---- the convergent key ----------------------------------------------------- *)
(* the hasher fed with any sequence of chunks *)
Definition convergent_key_chunked (k n segsize : N) (secret : list N) (chunks : list (list N)) : list N :=
  hasher_digest (fold_left hasher_update chunks (convergence_hasher k n segsize secret)).

(* the hash of the whole plaintext (hashutil.convergence_hash) *)
Definition convergent_key (k n segsize : N) (secret data : list N) : list N :=
  convergence_hash k n segsize data secret.

(* The read loop of _get_encryption_key_convergent over a file object that may
   return short reads: `sched` lists, per call of f.read(BLOCKSIZE), the most
   bytes that call is willing to return (missing entries: no limit).  An empty
   read ends the loop (`if not data: break`), whether or not it is the end of
   the file.  Fuel: every non-final iteration consumes at least one byte. *)
Fixpoint read_chunks (fuel : nat) (blocksize : N) (sched : list N) (data : list N) : list (list N) :=
  match fuel with
  | O => []
  | S f =>
    let want := match sched with [] => blocksize | s :: _ => N.min blocksize s end in
    match firstn (N.to_nat want) data with
    | [] => []
    | chunk => chunk :: read_chunks f blocksize (tl sched) (skipn (N.to_nat want) data)
    end
  end.

Definition file_chunks (sched : list N) (data : list N) : list (list N) :=
  read_chunks (S (List.length data)) CONVERGENCE_READ_BLOCKSIZE sched data.

Definition convergent_key_read (k n segsize : N) (secret : list N) (sched : list N) (data : list N) : list N :=
  convergent_key_chunked k n segsize secret (file_chunks sched data).

(* FileHandle.get_encryption_key for convergence = Some secret, with the
   parameters the uploadable derives itself from (max_segment_size, k, n, size) *)
Definition uploadable_key (max_seg k n : N) (secret : list N) (sched : list N) (data : list N) : list N :=
  convergent_key_read k n (cv_upload_segsize max_seg (blen data) k) secret sched data.

Definition chk_storage_index (key : list N) : list N := storage_index_hash key.

(* ---- literal or CHK --------------------------------------------------------- *)
Inductive cap_kind := Literal | CHK.

Definition is_literal (size : N) : bool := size <=? URI_LIT_SIZE_THRESHOLD.
Definition upload_kind (size : N) : cap_kind := if is_literal size then Literal else CHK.

(* ---- base32 (RFC 4648 alphabet, lower case, no padding) ---------------------- *)
Definition B32_ALPHABET : list N := bytes_of_string "abcdefghijklmnopqrstuvwxyz234567".

Definition b32_chr (v : N) : N := nth (N.to_nat v) B32_ALPHABET 0.

Fixpoint b32_index (c : N) (l : list N) (i : N) : option N :=
  match l with
  | [] => None
  | x :: r => if x =? c then Some i else b32_index c r (i + 1)
  end.
Definition b32_val (c : N) : option N := b32_index c B32_ALPHABET 0.

(* five octets = forty bits = eight quintets, most significant first *)
Definition enc5 (a b c d e : N) : list N :=
  [ a / 8;
    (a mod 8) * 4 + b / 64;
    (b / 2) mod 32;
    (b mod 2) * 16 + c / 16;
    (c mod 16) * 2 + d / 128;
    (d / 4) mod 32;
    (d mod 4) * 8 + e / 32;
    e mod 32 ].

Definition dec8 (q1 q2 q3 q4 q5 q6 q7 q8 : N) : list N :=
  [ q1 * 8 + q2 / 4;
    (q2 mod 4) * 64 + q3 * 2 + q4 / 16;
    (q4 mod 16) * 16 + q5 / 2;
    (q5 mod 2) * 128 + q6 * 4 + q7 / 8;
    (q7 mod 8) * 32 + q8 ].

(* b32encode pads the last group with zero bits; rstrip("=") leaves
   ceil(8*n/5) characters for a tail of n octets: 2, 4, 5, 7 *)
Fixpoint b32_quintets (l : list N) : list N :=
  match l with
  | a :: b :: c :: d :: e :: r => enc5 a b c d e ++ b32_quintets r
  | [a; b; c; d] => firstn 7 (enc5 a b c d 0)
  | [a; b; c] => firstn 5 (enc5 a b c 0 0)
  | [a; b] => firstn 4 (enc5 a b 0 0 0)
  | [a] => firstn 2 (enc5 a 0 0 0 0)
  | [] => []
  end.

Definition b32_encode (data : list N) : list N := map b32_chr (b32_quintets data).

(* number of octets in a tail of nq characters; 1, 3, 6 cannot occur
   (BASE32STR_anybytes does not match, base32.s8 is empty for them) *)
Definition b32_tail_octets (nq : nat) : option nat :=
  match nq with
  | 0 => Some 0 | 2 => Some 1 | 4 => Some 2 | 5 => Some 3 | 7 => Some 4
  | _ => None
  end%nat.

(* the tail: the bits that belong to no octet must be zero (the last-character
   classes BASE32CHAR_{3,1,4,2}bits of the regular expression) *)
Definition b32_dec_tail (qs : list N) : option (list N) :=
  match b32_tail_octets (List.length qs) with
  | None => None
  | Some nb =>
    match qs ++ repeat 0 (8 - List.length qs) with
    | [q1; q2; q3; q4; q5; q6; q7; q8] =>
      let bs := dec8 q1 q2 q3 q4 q5 q6 q7 q8 in
      if forallb (N.eqb 0) (skipn nb bs) then Some (firstn nb bs) else None
    | _ => None
    end
  end.

Fixpoint b32_unquintets (qs : list N) : option (list N) :=
  match qs with
  | q1 :: q2 :: q3 :: q4 :: q5 :: q6 :: q7 :: q8 :: r =>
    match b32_unquintets r with
    | Some t => Some (dec8 q1 q2 q3 q4 q5 q6 q7 q8 ++ t)
    | None => None
    end
  | _ => b32_dec_tail qs
  end.

Fixpoint cv_map_opt {A B} (f : A -> option B) (l : list A) : option (list B) :=
  match l with
  | [] => Some []
  | x :: r => match f x, cv_map_opt f r with
              | Some y, Some r' => Some (y :: r')
              | _, _ => None
              end
  end.

(* None = the string is rejected (BadURIError from the regular expression) *)
Definition b32_decode (cs : list N) : option (list N) :=
  match cv_map_opt b32_val cs with
  | Some qs => b32_unquintets qs
  | None => None
  end.

Definition cv_bytes_ok (l : list N) : bool := forallb (fun b => b <? 256) l.

(* ---- literal caps ----------------------------------------------------------- *)
Definition LIT_PREFIX : list N := bytes_of_string "URI:LIT:".

(* LiteralFileURI(data).to_string() *)
Definition literal_cap (data : list N) : list N := LIT_PREFIX ++ b32_encode data.

Fixpoint strip_prefix (p l : list N) : option (list N) :=
  match p, l with
  | [], _ => Some l
  | x :: p', y :: l' => if x =? y then strip_prefix p' l' else None
  | _ :: _, [] => None
  end.

(* LiteralFileURI.init_from_string(cap).data; None = BadURIError *)
Definition literal_cap_data (cap : list N) : option (list N) :=
  match strip_prefix LIT_PREFIX cap with
  | Some cs => b32_decode cs
  | None => None
  end.

(* LiteralFileNode.read(consumer, offset, size): data[offset:offset+size] of the
   data embedded in the cap -- no storage server is involved *)
Definition literal_read (cap : list N) (offset size : N) : option (list N) :=
  match literal_cap_data cap with
  | Some d => Some (firstn (N.to_nat size) (skipn (N.to_nat offset) d))
  | None => None
  end.

(* ---- what Uploader.upload returns for a convergent upload -------------------- *)
(* the fields of the CHK read-cap that this property determines *)
Record chk_fields := { cf_key : list N; cf_k : N; cf_n : N; cf_size : N }.

Inductive upload_result :=
| ULiteral (cap : list N)
| UCHK (f : chk_fields).

Definition convergent_cap_fields (max_seg k n : N) (secret data : list N) : chk_fields :=
  let size := blen data in
  {| cf_key := convergent_key k n (cv_upload_segsize max_seg size k) secret data;
     cf_k := k; cf_n := n; cf_size := size |}.

Definition upload_convergent (max_seg k n : N) (secret data : list N) : upload_result :=
  match upload_kind (blen data) with
  | Literal => ULiteral (literal_cap data)
  | CHK => UCHK (convergent_cap_fields max_seg k n secret data)
  end.

(* the same upload through a file object with short reads *)
Definition upload_convergent_read (max_seg k n : N) (secret : list N) (sched : list N) (data : list N) : upload_result :=
  match upload_kind (blen data) with
  | Literal => ULiteral (literal_cap data)
  | CHK => UCHK {| cf_key := uploadable_key max_seg k n secret sched data;
                   cf_k := k; cf_n := n; cf_size := blen data |}
  end.

Definition convergent_storage_index (max_seg k n : N) (secret data : list N) : list N :=
  chk_storage_index (cf_key (convergent_cap_fields max_seg k n secret data)).

(* the byte strings SHA-256d is applied to *)
Definition key_message (k n segsize : N) (secret data : list N) : list N :=
  netstring (_convergence_hasher_tag k n segsize secret) ++ data.
Definition si_message (key : list N) : list N := netstring STORAGE_INDEX_TAG ++ key.

(* SHA-256d truncated to 128 bits, and what a collision of it is *)
Definition trunc16 (d : list N) : list N := firstn 16 d.
Definition trunc_collision (m m' : list N) : Prop :=
  m <> m' /\ trunc16 (sha256d m) = trunc16 (sha256d m').

(* helpers for generated case files *)
Definition chk_fields_eqb (f : chk_fields) (key : list N) (k n size : N) : bool :=
  list_N_eqb (cf_key f) key && (cf_k f =? k) && (cf_n f =? n) && (cf_size f =? size).

Definition upload_result_is (r : upload_result) (lit : option (list N)) (key : list N) (k n size : N) : bool :=
  match r, lit with
  | ULiteral c, Some c' => list_N_eqb c c'
  | UCHK f, None => chk_fields_eqb f key k n size
  | _, _ => false
  end.

Definition opt_bytes_eqb (a b : option (list N)) : bool :=
  match a, b with
  | Some x, Some y => list_N_eqb x y
  | None, None => true
  | _, _ => false
  end.
