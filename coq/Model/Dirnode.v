(* Executable model of src/allmydata/dirnode.py (pack/unpack of directory contents,
   the Adder/Deleter/MetadataSetter modifiers, update_metadata, move_child_to),
   src/allmydata/unknown.py (UnknownNode, strip_prefix_for_ro) and
   NodeMaker.create_from_cap (nodemaker.py).  Definitions only -- proofs are in
   Proofs/Dirnode*.v.

   External behaviour enters as Section variables:
     normalize      encodingutil.normalize (NFC) acting on the UTF-8 bytes of a name
     dumps / loads  JSON serialisation of a metadata dict
     enc / dec      AES-CTR (zero IV) as used by aes.create_encryptor(key)
     classify       what uri.from_string + NodeMaker._create_from_single_cap make of an
                    *unprefixed* cap string (caps are opaque byte strings here)
   Not modelled (stated where it matters): UTF-8 decoding errors of stored names,
   the non-canonical numerals int() accepts in split_netstring (C38), the
   NodeMaker node cache and blacklist, verify caps used as children
   (CiphertextFileNode has no get_write_uri: packing one raises AttributeError). *)
From Coq Require Import List NArith ZArith Bool String.
From Verif Require Import Lib.Hex Lib.Decimal Lib.Netstring Lib.SHA256 Lib.HashPrim Gen.Hashutil.
Import ListNotations.
Local Open Scope N_scope.
Local Open Scope bool_scope.

Definition bytes := list N.

(* ------------------------------------------------------------------ *)
(* 1. Byte strings                                                     *)

(* Lexicographic order = Python's order on bytes, and (UTF-8 preserves code
   point order) the order of sorted() on the str names. *)
Fixpoint bcmp (a b : bytes) : comparison :=
  match a, b with
  | [], [] => Eq
  | [], _ :: _ => Lt
  | _ :: _, [] => Gt
  | x :: a', y :: b' => match N.compare x y with Eq => bcmp a' b' | c => c end
  end.

Definition beqb (a b : bytes) : bool := match bcmp a b with Eq => true | _ => false end.

Fixpoint starts_with (p s : bytes) : bool :=
  match p, s with
  | [], _ => true
  | x :: p', y :: s' => (x =? y) && starts_with p' s'
  | _ :: _, [] => false
  end.

(* bytes.rstrip(b' ') *)
Fixpoint rstrip_sp (s : bytes) : bytes :=
  match s with
  | [] => []
  | b :: r => match rstrip_sp r with
              | [] => if b =? 32 then [] else [b]
              | r' => b :: r'
              end
  end.

(* `x or None` for a byte string *)
Definition nonempty (s : bytes) : option bytes := match s with [] => None | _ => Some s end.
(* `x or None` for an Optional[bytes] *)
Definition truthy (o : option bytes) : option bytes := match o with Some ((_ :: _) as s) => Some s | _ => None end.
(* `x if x is not None else b""` *)
Definition or_empty (o : option bytes) : bytes := match o with Some s => s | None => [] end.

Definition obeqb (a b : option bytes) : bool :=
  match a, b with
  | None, None => true
  | Some x, Some y => beqb x y
  | _, _ => false
  end.

(* ------------------------------------------------------------------ *)
(* 2. Finite maps with byte-string keys, kept sorted (a Python dict observed
      through sorted(d.keys()); the packer iterates in exactly this order). *)

Section SMap.
  Context {V : Type}.
  Definition smap := list (bytes * V).

  Fixpoint sm_get (k : bytes) (m : smap) : option V :=
    match m with
    | [] => None
    | (k', v) :: r => if beqb k k' then Some v else sm_get k r
    end.

  Fixpoint sm_set (k : bytes) (v : V) (m : smap) : smap :=
    match m with
    | [] => [(k, v)]
    | (k', v') :: r =>
      match bcmp k k' with
      | Eq => (k, v) :: r
      | Lt => (k, v) :: (k', v') :: r
      | Gt => (k', v') :: sm_set k v r
      end
    end.

  Fixpoint sm_del (k : bytes) (m : smap) : smap :=
    match m with
    | [] => []
    | (k', v') :: r => if beqb k k' then r else (k', v') :: sm_del k r
    end.

  Definition sm_mem (k : bytes) (m : smap) : bool := match sm_get k m with Some _ => true | None => false end.

  (* strictly increasing keys *)
  Fixpoint sm_sorted (m : smap) : bool :=
    match m with
    | [] => true
    | (k, _) :: r =>
      match r with
      | [] => true
      | (k', _) :: _ => match bcmp k k' with Lt => sm_sorted r | _ => false end
      end
    end.

  (* d = {}; for k, v in l: d[k] = v *)
  Definition sm_of_list (l : list (bytes * V)) : smap := fold_left (fun m kv => sm_set (fst kv) (snd kv) m) l [].
End SMap.
Arguments smap V : clear implicits.

(* ------------------------------------------------------------------ *)
(* 3. Netstrings: util/netstring.py split_netstring, strict numerals only *)

Fixpoint split_colon (l : bytes) : option (bytes * bytes) :=
  match l with
  | [] => None                                  (* data.index(b":") raises ValueError *)
  | b :: r => if b =? 58 then Some ([], r)
              else match split_colon r with
                   | Some (a, r') => Some (b :: a, r')
                   | None => None
                   end
  end.

(* one netstring at the head of l: (string, rest) *)
Definition parse_ns (l : bytes) : option (bytes * bytes) :=
  match split_colon l with
  | None => None
  | Some (d, r) =>
    match undec d with
    | None => None
    | Some n =>
      if blen r <? n then None                  (* assert len(string) == length *)
      else match skipn (N.to_nat n) r with
           | 44 :: r' => Some (firstn (N.to_nat n) r, r')
           | _ => None                          (* assert data[position] == b"," *)
           end
    end
  end.

(* split_netstring(l, k): exactly k netstrings, whatever follows is returned *)
Fixpoint parse_k (k : nat) (l : bytes) : option (list bytes * bytes) :=
  match k with
  | O => Some ([], l)
  | S k' => match parse_ns l with
            | None => None                      (* "ran out of netstrings" or malformed *)
            | Some (s, r) => match parse_k k' r with
                             | Some (ss, r') => Some (s :: ss, r')
                             | None => None
                             end
            end
  end.

(* while position < len(data): split_netstring(data, 1, position) *)
Fixpoint parse_all (fuel : nat) (l : bytes) : option (list bytes) :=
  match l with
  | [] => Some []
  | _ => match fuel with
         | O => None
         | S f => match parse_ns l with
                  | None => None
                  | Some (s, r) => match parse_all f r with
                                   | Some ss => Some (s :: ss)
                                   | None => None
                                   end
                  end
         end
  end.

(* ------------------------------------------------------------------ *)
(* 4. Caps and nodes                                                   *)

Definition RO_PREFIX : bytes := bytes_of_string "ro."%string.     (* uri.ALLEGED_READONLY_PREFIX *)
Definition IMM_PREFIX : bytes := bytes_of_string "imm."%string.   (* uri.ALLEGED_IMMUTABLE_PREFIX *)

(* Which constraint flag of uri.from_string guards a recognised cap prefix. *)
Inductive gate := GWrite | GMutable | GNone.

(* The verdict on an unprefixed cap string.  For well-formed known caps the
   constructor carries what the resulting node reports: its canonical string
   (to_string of the parsed cap) and, for write caps, the derived read cap. *)
Inductive capclass :=
| KWrite (isdir : bool) (canon ro : bytes)   (* URI:SSK: URI:MDMF: URI:DIR2: URI:DIR2-MDMF: *)
| KRead (isdir : bool) (canon : bytes)       (* URI:SSK-RO: URI:MDMF-RO: URI:DIR2-RO: URI:DIR2-MDMF-RO: *)
| KImm (isdir : bool) (canon : bytes)        (* URI:CHK: URI:LIT: URI:DIR2-CHK: URI:DIR2-LIT: *)
| KBad (g : gate)                            (* recognised prefix, malformed body: BadURIError *)
| KFutureW                                   (* x-tahoe-future-test-writeable: *)
| KFutureM                                   (* x-tahoe-future-test-mutable: *)
| KOther.                                    (* anything else, incl. verify caps without a node class *)

(* CapConstraintError subclasses *)
Inductive cerr := EBadURI | EMustBeDeepImmutable | EMustBeReadonly | EMustNotBeUnknownRW.

Definition cerr_eqb (a b : cerr) : bool :=
  match a, b with
  | EBadURI, EBadURI | EMustBeDeepImmutable, EMustBeDeepImmutable
  | EMustBeReadonly, EMustBeReadonly | EMustNotBeUnknownRW, EMustNotBeUnknownRW => true
  | _, _ => false
  end.

Inductive nkind := NFile | NDir | NUnknown.
Definition nkind_eqb (a b : nkind) : bool :=
  match a, b with NFile, NFile | NDir, NDir | NUnknown, NUnknown => true | _, _ => false end.

(* What dirnode.py observes of an IFilesystemNode. *)
Record node := {
  n_kind : nkind;              (* IFileNode / IDirectoryNode / UnknownNode *)
  n_rw : option bytes;         (* get_write_uri() *)
  n_ro : option bytes;         (* get_readonly_uri() *)
  n_mut : bool;                (* is_mutable() of a known node; false for unknown *)
  n_err : option cerr          (* UnknownNode.error (raise_error) *)
}.

Definition node_eqb (a b : node) : bool :=
  nkind_eqb (n_kind a) (n_kind b) && obeqb (n_rw a) (n_rw b) && obeqb (n_ro a) (n_ro b)
  && Bool.eqb (n_mut a) (n_mut b)
  && match n_err a, n_err b with None, None => true | Some x, Some y => cerr_eqb x y | _, _ => false end.

Definition is_dir (n : node) : bool := nkind_eqb (n_kind n) NDir.
Definition is_file (n : node) : bool := nkind_eqb (n_kind n) NFile.
Definition is_unknown (n : node) : bool := nkind_eqb (n_kind n) NUnknown.
Definition has_rw (n : node) : bool := match n_rw n with Some _ => true | None => false end.
(* is_readonly() of a known node *)
Definition is_readonly (n : node) : bool := negb (has_rw n).
(* is_allowed_in_immutable_directory() *)
Definition allowed_in_immutable (n : node) : bool :=
  if is_unknown n then (match n_err n with None => true | Some _ => false end) && negb (has_rw n)
  else negb (n_mut n).

Definition opaque_node (e : option cerr) : node :=
  {| n_kind := NUnknown; n_rw := None; n_ro := None; n_mut := false; n_err := e |}.

Inductive fs_result :=
| FKnown (n : node)          (* a cap class for which _create_from_single_cap builds a node *)
| FUnknown (e : option cerr). (* uri.UnknownURI(u, error=e) *)

Definition kind_of (isdir : bool) : nkind := if isdir then NDir else NFile.

Section Caps.
  Variable classify : bytes -> capclass.

  (* unknown.strip_prefix_for_ro *)
  Definition strip_prefix_for_ro (ro_uri : bytes) (deep_immutable : bool) : bytes :=
    if starts_with IMM_PREFIX ro_uri then
      (if deep_immutable then skipn 4 ro_uri else ro_uri)
    else if starts_with RO_PREFIX ro_uri then skipn 3 ro_uri
    else ro_uri.

  (* uri.from_string(u, deep_immutable) followed by the class dispatch of
     NodeMaker._create_from_single_cap *)
  Definition from_string (u : bytes) (deep_immutable : bool) : fs_result :=
    let '(can_be_mutable, can_be_writeable, s) :=
      (if starts_with IMM_PREFIX u then (false, false, skipn 4 u)
       else if starts_with RO_PREFIX u then (negb deep_immutable, false, skipn 3 u)
       else (negb deep_immutable, negb deep_immutable, u)) in
    let constraint := if can_be_mutable then EMustBeReadonly else EMustBeDeepImmutable in
    match classify s with
    | KWrite d c r =>
      if can_be_writeable
      then FKnown {| n_kind := kind_of d; n_rw := Some c; n_ro := Some r; n_mut := true; n_err := None |}
      else FUnknown (Some constraint)
    | KRead d c =>
      if can_be_mutable
      then FKnown {| n_kind := kind_of d; n_rw := None; n_ro := Some c; n_mut := true; n_err := None |}
      else FUnknown (Some constraint)
    | KImm d c => FKnown {| n_kind := kind_of d; n_rw := None; n_ro := Some c; n_mut := false; n_err := None |}
    | KBad GWrite => if can_be_writeable then FUnknown (Some EBadURI) else FUnknown (Some constraint)
    | KBad GMutable => if can_be_mutable then FUnknown (Some EBadURI) else FUnknown (Some constraint)
    | KBad GNone => FUnknown (Some EBadURI)
    | KFutureW => if can_be_writeable then FUnknown None else FUnknown (Some constraint)
    | KFutureM => if can_be_mutable then FUnknown None else FUnknown (Some constraint)
    | KOther => FUnknown None
    end.

  Definition prefixed (s : bytes) : bool := starts_with RO_PREFIX s || starts_with IMM_PREFIX s.

  (* unknown.UnknownNode.__init__(given_rw_uri, given_ro_uri, deep_immutable) *)
  Definition unknown_node (given_rw given_ro : option bytes) (deep_immutable : bool) : node :=
    let given_rw := truthy given_rw in
    let given_ro := truthy given_ro in
    (* first block: `if given_rw_uri:` -- yields an error, or the (rw, ro) pair to go on with *)
    let step1 : cerr + (option bytes * option bytes) :=
      match given_rw with
      | None => inr (given_rw, given_ro)
      | Some rw =>
        let imm_err : option cerr :=
          if deep_immutable then
            match given_ro with
            | None => if starts_with IMM_PREFIX rw then None else Some EMustNotBeUnknownRW
            | Some _ => Some EMustBeDeepImmutable
            end
          else None in
        match imm_err with
        | Some e => inl e
        | None =>
          match given_ro with
          | None => if prefixed rw then inr (None, Some rw) else inl EMustNotBeUnknownRW
          | Some ro => if starts_with IMM_PREFIX ro then inl EMustBeDeepImmutable else inr (given_rw, given_ro)
          end
        end
      end in
    match step1 with
    | inl e => opaque_node (Some e)
    | inr (rw, ro) =>
      let ro_err : option cerr :=
        match ro with
        | None => None
        | Some r => match from_string r deep_immutable with
                    | FUnknown (Some e) => Some e
                    | _ => None
                    end
        end in
      match ro_err with
      | Some e => opaque_node (Some e)
      | None =>
        if deep_immutable then
          {| n_kind := NUnknown; n_rw := None;
             n_ro := match ro with
                     | None => None
                     | Some r => if starts_with IMM_PREFIX r then Some r
                                 else if starts_with RO_PREFIX r then Some (IMM_PREFIX ++ skipn 3 r)
                                 else Some (IMM_PREFIX ++ r)
                     end;
             n_mut := false; n_err := None |}
        else
          {| n_kind := NUnknown; n_rw := rw;
             n_ro := match ro with
                     | None => None
                     | Some r => if prefixed r then Some r else Some (RO_PREFIX ++ r)
                     end;
             n_mut := false; n_err := None |}
      end
    end.

  (* NodeMaker.create_from_cap(writecap, readcap, deep_immutable) *)
  Definition create_from_cap (deep_immutable : bool) (writecap readcap : option bytes) : node :=
    match (match truthy writecap with Some w => Some w | None => truthy readcap end) with
    | None => opaque_node None                                  (* UnknownNode(None, None) *)
    | Some bigcap =>
      match from_string bigcap deep_immutable with
      | FKnown n => n
      | FUnknown _ => unknown_node writecap readcap deep_immutable
      end
    end.

  (* DirectoryNode._create_readonly_node (in a mutable directory); None = raise_error() raised *)
  Definition create_readonly_node (n : node) : cerr + node :=
    if negb (is_unknown n) && is_readonly n then inr n
    else let n' := create_from_cap false None (n_ro n) in
         match n_err n' with Some e => inl e | None => inr n' end.
End Caps.

(* ------------------------------------------------------------------ *)
(* 5. JSON values and update_metadata                                  *)

Inductive jval :=
| JNull
| JBool (b : bool)
| JNum (z : Z)
| JStr (s : bytes)
| JArr (l : list jval)
| JObj (l : list (bytes * jval)).

(* A Python dict with str keys, in insertion order. *)
Definition jobj := list (bytes * jval).

Fixpoint jget (k : bytes) (o : jobj) : option jval :=
  match o with
  | [] => None
  | (k', v) :: r => if beqb k k' then Some v else jget k r
  end.

(* d[k] = v : replaces in place, or appends *)
Fixpoint jset (k : bytes) (v : jval) (o : jobj) : jobj :=
  match o with
  | [] => [(k, v)]
  | (k', v') :: r => if beqb k k' then (k', v) :: r else (k', v') :: jset k v r
  end.

(* del d[k] (keys of a dict are unique; every binding of k goes) *)
Fixpoint jdel (k : bytes) (o : jobj) : jobj :=
  match o with
  | [] => []
  | (k', v') :: r => if beqb k k' then jdel k r else (k', v') :: jdel k r
  end.

(* bool(x) of a JSON value *)
Definition jtruthy (v : jval) : bool :=
  match v with
  | JNull => false
  | JBool b => b
  | JNum z => negb (Z.eqb z 0)
  | JStr s => match s with [] => false | _ => true end
  | JArr l => match l with [] => false | _ => true end
  | JObj l => match l with [] => false | _ => true end
  end.

Definition K_ctime : bytes := bytes_of_string "ctime"%string.
Definition K_tahoe : bytes := bytes_of_string "tahoe"%string.
Definition K_linkcrtime : bytes := bytes_of_string "linkcrtime"%string.
Definition K_linkmotime : bytes := bytes_of_string "linkmotime"%string.
Definition K_no_write : bytes := bytes_of_string "no-write"%string.

(* The 'tahoe' entry, when present, must be a dict: `'linkcrtime' not in sysmd`
   raises TypeError on a number.  md_ok states the inputs the model covers. *)
Definition md_ok (m : jobj) : bool :=
  match jget K_tahoe m with
  | None | Some (JObj _) => true
  | Some _ => false
  end.

(* dirnode.update_metadata(metadata, new_metadata, now) *)
Definition update_metadata (metadata : option jobj) (new_metadata : option jobj) (now : jval) : jobj :=
  let metadata := match metadata with Some m => m | None => [] end in
  let old_ctime := jget K_ctime metadata in
  let metadata :=
    match new_metadata with
    | None => metadata
    | Some nm =>
      let newmd := jdel K_tahoe nm in
      match jget K_tahoe metadata with
      | Some t => jset K_tahoe t newmd
      | None => newmd
      end
    end in
  let sysmd := match jget K_tahoe metadata with Some (JObj s) => s | _ => [] end in
  let sysmd :=
    match jget K_linkcrtime sysmd with
    | Some _ => sysmd
    | None => match old_ctime with
              | Some c => jset K_linkcrtime c sysmd
              | None => jset K_linkcrtime now sysmd
              end
    end in
  let sysmd := jset K_linkmotime now sysmd in
  jset K_tahoe (JObj sysmd) metadata.

Definition no_write (m : jobj) : bool :=
  match jget K_no_write m with Some v => jtruthy v | None => false end.

(* ------------------------------------------------------------------ *)
(* 6. Packing and unpacking                                            *)

(* What makes a packing or an edit fail (exception class). *)
Inductive derr :=
| ECap (e : cerr)             (* child.raise_error() *)
| EDeepImmutable              (* MustBeDeepImmutableError raised by the packer *)
| EExists                     (* ExistingChildError *)
| ENoSuchChild                (* NoSuchChildError *)
| EWrongType                  (* ChildOfWrongTypeError *)
| ENotWriteable               (* NotWriteableError *)
| EMalformed.                 (* ValueError / AssertionError / JSON error while unpacking *)

Definition derr_eqb (a b : derr) : bool :=
  match a, b with
  | ECap x, ECap y => cerr_eqb x y
  | EDeepImmutable, EDeepImmutable | EExists, EExists | ENoSuchChild, ENoSuchChild
  | EWrongType, EWrongType | ENotWriteable, ENotWriteable | EMalformed, EMalformed => true
  | _, _ => false
  end.

Section Pack.
  Variable classify : bytes -> capclass.
  Variable normalize : bytes -> bytes.
  Variable MD : Type.
  Variable dumps : MD -> bytes.
  Variable loads : bytes -> option MD.
  Variable enc dec : bytes -> bytes -> bytes.       (* key, data *)

  (* dirnode._encrypt_rw_uri *)
  Definition encrypt_rw_uri (writekey rw_uri : bytes) : bytes :=
    let salt := mutable_rwcap_salt_hash rw_uri in
    let key := mutable_rwcap_key_hash salt writekey in
    let crypttext := enc key rw_uri in
    salt ++ crypttext ++ hmac key (salt ++ crypttext).

  (* DirectoryNode._decrypt_rwcapdata:  encwrcap[:16], encwrcap[16:-32] *)
  Definition decrypt_rwcapdata (writekey encwrcap : bytes) : bytes :=
    let salt := firstn 16 encwrcap in
    let crypttext := firstn (List.length encwrcap - 32 - 16) (skipn 16 encwrcap) in
    dec (mutable_rwcap_key_hash salt writekey) crypttext.

  (* A child as held in the AuxValueDict: node, metadata, cached packed entry. *)
  Definition child : Type := node * MD * option bytes.
  Definition c_node (c : child) : node := fst (fst c).
  Definition c_md (c : child) : MD := snd (fst c).
  Definition c_aux (c : child) : option bytes := snd c.

  (* the four netstrings of one entry, freshly packed *)
  Definition pack_entry (writekey : option bytes) (deep_immutable : bool) (name : bytes) (n : node) (m : MD) : bytes :=
    netstring name
    ++ netstring (strip_prefix_for_ro (or_empty (n_ro n)) deep_immutable)
    ++ match writekey with
       | Some wk => netstring (encrypt_rw_uri wk (or_empty (n_rw n)))
       | None => netstring []
       end
    ++ netstring (dumps m).

  (* dirnode._pack_normalized_children: children iterated in sorted order *)
  Fixpoint pack_normalized (children : smap child) (writekey : option bytes) (deep_immutable : bool) : derr + bytes :=
    match children with
    | [] => inr []
    | (name, c) :: rest =>
      match n_err (c_node c) with
      | Some e => inl (ECap e)
      | None =>
        if deep_immutable && negb (allowed_in_immutable (c_node c)) then inl EDeepImmutable
        else
          let entry := match c_aux c with
                       | Some ((_ :: _) as e) => e
                       | _ => pack_entry writekey deep_immutable name (c_node c) (c_md c)
                       end in
          match pack_normalized rest writekey deep_immutable with
          | inl e => inl e
          | inr tl => inr (netstring entry ++ tl)
          end
      end
    end.

  (* dirnode.pack_children: names normalised into a fresh dict first *)
  Definition pack_children (childrenx : list (bytes * (node * MD))) (writekey : option bytes) (deep_immutable : bool) : derr + bytes :=
    pack_normalized
      (sm_of_list (map (fun kv => (normalize (fst kv), (fst (snd kv), snd (snd kv), @None bytes))) childrenx))
      writekey deep_immutable.

  (* one entry of DirectoryNode._unpack_contents; inr None = child dropped (logged) *)
  Definition unpack_entry (writeable mutable : bool) (writekey : bytes) (entry : bytes) : derr + option (bytes * child) :=
    match parse_k 4 entry with
    | Some ([namex; ro_uri; rwcapdata; metadata_s], _) =>
      if negb mutable && negb (match rwcapdata with [] => true | _ => false end) then inl EMalformed
      else
        let name := normalize namex in
        let rw_uri := if writeable then decrypt_rwcapdata writekey rwcapdata else [] in
        let rw := nonempty (rstrip_sp rw_uri) in
        let ro := nonempty (rstrip_sp ro_uri) in
        let n := create_from_cap classify (negb mutable) rw ro in
        match n_err n with
        | Some _ => inr None                                   (* except CapConstraintError: logged, skipped *)
        | None =>
          if mutable || allowed_in_immutable n then
            match loads metadata_s with
            | Some m => inr (Some (name, (n, m, Some entry)))
            | None => inl EMalformed
            end
          else inr None
        end
    | _ => inl EMalformed
    end.

  Fixpoint unpack_entries (writeable mutable : bool) (writekey : bytes) (entries : list bytes) (acc : smap child) : derr + smap child :=
    match entries with
    | [] => inr acc
    | e :: r =>
      match unpack_entry writeable mutable writekey e with
      | inl x => inl x
      | inr None => unpack_entries writeable mutable writekey r acc
      | inr (Some (name, c)) => unpack_entries writeable mutable writekey r (sm_set name c acc)
      end
    end.

  (* DirectoryNode._unpack_contents.  writekey is only used when writeable. *)
  Definition unpack_contents (writeable mutable : bool) (writekey : bytes) (data : bytes) : derr + smap child :=
    match parse_all (S (List.length data)) data with
    | None => inl EMalformed
    | Some entries => unpack_entries writeable mutable writekey entries []
    end.

  (* children as the public API shows them: list() *)
  Definition view (m : smap child) : smap (node * MD) := map (fun kc => (fst kc, (c_node (snd kc), c_md (snd kc)))) m.
  Definition fresh (m : smap (node * MD)) : smap child := map (fun kc => (fst kc, (fst (snd kc), snd (snd kc), @None bytes))) m.
End Pack.

(* ------------------------------------------------------------------ *)
(* 7. Edits: the modifiers applied to packed bytes, and the same edits on a map *)

Inductive overwrite := OvTrue | OvFalse | OvOnlyFiles.      (* True / False / ONLY_FILES *)

(* One directory operation.  Directories are numbered; they are mutable and
   opened through their write caps.  `now` is what time.time() returns while
   the operation's modifier runs. *)
Inductive op :=
| OAdd (d : nat) (entries : list (bytes * node * option jobj)) (ov : overwrite)   (* set_node / set_nodes / set_children / set_uri *)
| ODelete (d : nat) (namex : bytes) (must_exist must_be_directory must_be_file : bool)
| OSetMd (d : nat) (namex : bytes) (metadata : jobj)                                (* set_metadata_for *)
| OMove (src : nat) (namex : bytes) (dst : nat) (new_namex : option bytes) (ov : overwrite).  (* move_child_to *)

(* What the caller observes of one operation. *)
Inductive outcome :=
| Done                        (* Deferred fired *)
| Redundant                   (* move_child_to: "redundant rename/relink" *)
| Failed (e : derr).

Definition derr_of {A} (x : derr + A) : option derr := match x with inl e => Some e | inr _ => None end.

Section Edits.
  Variable classify : bytes -> capclass.
  Variable normalize : bytes -> bytes.

  (* --- on any map  name -> (child, metadata [, aux]) : shared shape of the three modifiers --- *)
  Section Generic.
    Variable C : Type.                              (* entry type held in the dict *)
    Variable c_of : node -> jobj -> C.              (* children[name] = (child, metadata) *)
    Variable nd : C -> node.
    Variable mdof : C -> jobj.

    (* the loop body of Adder.modify *)
    Definition adder_step (ov : overwrite) (now : jval) (children : smap C) (e : bytes * node * option jobj) : derr + smap C :=
      let '(namex, chld, new_metadata) := e in
      let name := normalize namex in
      match n_err chld with
      | Some x => inl (ECap x)                                          (* child.raise_error() *)
      | None =>
        let existing := sm_get name children in
        let clash : option derr :=
          match existing with
          | None => None
          | Some c =>
            match ov with
            | OvFalse => Some EExists
            | OvOnlyFiles => if is_dir (nd c) then Some EExists else None
            | OvTrue => None
            end
          end in
        match clash with
        | Some x => inl x
        | None =>
          let metadata := update_metadata (option_map mdof existing) new_metadata now in
          if no_write metadata then
            match create_readonly_node classify chld with
            | inl x => inl (ECap x)
            | inr chld' => inr (sm_set name (c_of chld' metadata) children)
            end
          else inr (sm_set name (c_of chld metadata) children)
        end
      end.

    Fixpoint adder_loop (ov : overwrite) (now : jval) (children : smap C) (entries : list (bytes * node * option jobj)) : derr + smap C :=
      match entries with
      | [] => inr children
      | e :: r => match adder_step ov now children e with
                  | inl x => inl x
                  | inr children' => adder_loop ov now children' r
                  end
      end.

    (* Deleter.modify (first_time = True); inr None = "return None": contents unchanged *)
    Definition deleter_core (namex : bytes) (must_exist must_be_directory must_be_file : bool) (children : smap C) : derr + option (smap C) :=
      let name := normalize namex in
      match sm_get name children with
      | None => if must_exist then inl ENoSuchChild else inr None
      | Some c =>
        if must_be_directory && is_file (nd c) then inl EWrongType
        else if must_be_file && is_dir (nd c) then inl EWrongType
        else inr (Some (sm_del name children))
      end.

    (* MetadataSetter.modify *)
    Definition setmd_core (namex : bytes) (metadata : jobj) (now : jval) (children : smap C) : derr + smap C :=
      let name := normalize namex in
      match sm_get name children with
      | None => inl ENoSuchChild
      | Some c =>
        let md' := update_metadata (Some (mdof c)) (Some metadata) now in
        if no_write md' then
          match create_readonly_node classify (nd c) with
          | inl x => inl (ECap x)
          | inr chld' => inr (sm_set name (c_of chld' md') children)
          end
        else inr (sm_set name (c_of (nd c) md') children)
      end.
  End Generic.

  (* --- the abstract side: a directory is a map name -> (child, metadata) --- *)
  Definition amap := smap (node * jobj).
  Definition a_adder := adder_loop (node * jobj) (fun n m => (n, m)) fst snd.
  Definition a_deleter := deleter_core (node * jobj) fst.
  Definition a_setmd := setmd_core (node * jobj) (fun n m => (n, m)) fst snd.

  Fixpoint set_nth {A} (i : nat) (x : A) (l : list A) : list A :=
    match l, i with
    | [], _ => []
    | _ :: r, O => x :: r
    | y :: r, S i' => y :: set_nth i' x r
    end.

  Definition a_add (dirs : list amap) (d : nat) entries ov now : outcome * list amap :=
    match nth_error dirs d with
    | None => (Failed EMalformed, dirs)
    | Some m => match a_adder ov now m entries with
                | inl x => (Failed x, dirs)
                | inr m' => (Done, set_nth d m' dirs)
                end
    end.

  Definition a_delete (dirs : list amap) (d : nat) namex me mbd mbf : outcome * list amap :=
    match nth_error dirs d with
    | None => (Failed EMalformed, dirs)
    | Some m => match a_deleter namex me mbd mbf m with
                | inl x => (Failed x, dirs)
                | inr None => (Done, dirs)
                | inr (Some m') => (Done, set_nth d m' dirs)
                end
    end.

  Definition a_step (dirs : list amap) (o : op) (now : jval) : outcome * list amap :=
    match o with
    | OAdd d entries ov => a_add dirs d entries ov now
    | ODelete d namex me mbd mbf => a_delete dirs d namex me mbd mbf
    | OSetMd d namex md =>
      match nth_error dirs d with
      | None => (Failed EMalformed, dirs)
      | Some m => match a_setmd namex md now m with
                  | inl x => (Failed x, dirs)
                  | inr m' => (Done, set_nth d m' dirs)
                  end
      end
    | OMove src namex dst new_namex ov =>
      let cur := normalize namex in
      let new := match new_namex with Some x => normalize x | None => cur end in
      if Nat.eqb src dst && beqb new cur then (Redundant, dirs)
      else
        match nth_error dirs src with
        | None => (Failed EMalformed, dirs)
        | Some m =>
          match sm_get cur m with
          | None => (Failed ENoSuchChild, dirs)
          | Some (chld, md) =>
            (* new_parent.set_node(new_child_name, child, metadata, overwrite) *)
            match a_add dirs dst [(new, chld, Some md)] ov now with
            | (Done, dirs') =>
              (* then self.delete(current_child_name) *)
              a_delete dirs' src cur true false false
            | r => r
            end
          end
        end
    end.

  Fixpoint a_run (dirs : list amap) (ops : list (op * jval)) : list outcome * list amap :=
    match ops with
    | [] => ([], dirs)
    | (o, now) :: r =>
      let '(out, dirs') := a_step dirs o now in
      let '(outs, dirs'') := a_run dirs' r in
      (out :: outs, dirs'')
    end.

  (* --- the concrete side: a directory is (writekey, packed bytes) --- *)
  Variable dumps : jobj -> bytes.
  Variable loads : bytes -> option jobj.
  Variable enc dec : bytes -> bytes -> bytes.

  Definition bchild := child jobj.
  Definition b_unpack (wk data : bytes) := unpack_contents classify normalize jobj loads dec true true wk data.
  Definition b_pack (wk : bytes) (children : smap bchild) := pack_normalized jobj dumps enc children (Some wk) false.
  Definition b_c_of (n : node) (m : jobj) : bchild := (n, m, None).     (* children[name] = ... clears the aux value *)

  (* MutableFileNode.modify(modifier): the modifier maps old contents to new
     contents, None (no change) or raises; nothing is written when it raises. *)
  Definition adder_modify (wk : bytes) entries ov now (old : bytes) : derr + bytes :=
    match b_unpack wk old with
    | inl x => inl x
    | inr children =>
      match adder_loop bchild b_c_of (c_node jobj) (c_md jobj) ov now children entries with
      | inl x => inl x
      | inr children' => b_pack wk children'
      end
    end.

  Definition deleter_modify (wk : bytes) namex me mbd mbf (old : bytes) : derr + option bytes :=
    match b_unpack wk old with
    | inl x => inl x
    | inr children =>
      match deleter_core bchild (c_node jobj) namex me mbd mbf children with
      | inl x => inl x
      | inr None => inr None
      | inr (Some children') => match b_pack wk children' with inl x => inl x | inr b => inr (Some b) end
      end
    end.

  Definition setmd_modify (wk : bytes) namex md now (old : bytes) : derr + bytes :=
    match b_unpack wk old with
    | inl x => inl x
    | inr children =>
      match setmd_core bchild b_c_of (c_node jobj) (c_md jobj) namex md now children with
      | inl x => inl x
      | inr children' => b_pack wk children'
      end
    end.

  Definition bdir := (bytes * bytes)%type.          (* writekey, contents *)

  Definition b_add (dirs : list bdir) (d : nat) entries ov now : outcome * list bdir :=
    match nth_error dirs d with
    | None => (Failed EMalformed, dirs)
    | Some (wk, data) => match adder_modify wk entries ov now data with
                         | inl x => (Failed x, dirs)
                         | inr data' => (Done, set_nth d (wk, data') dirs)
                         end
    end.

  Definition b_delete (dirs : list bdir) (d : nat) namex me mbd mbf : outcome * list bdir :=
    match nth_error dirs d with
    | None => (Failed EMalformed, dirs)
    | Some (wk, data) => match deleter_modify wk namex me mbd mbf data with
                         | inl x => (Failed x, dirs)
                         | inr None => (Done, dirs)
                         | inr (Some data') => (Done, set_nth d (wk, data') dirs)
                         end
    end.

  Definition b_step (dirs : list bdir) (o : op) (now : jval) : outcome * list bdir :=
    match o with
    | OAdd d entries ov => b_add dirs d entries ov now
    | ODelete d namex me mbd mbf => b_delete dirs d namex me mbd mbf
    | OSetMd d namex md =>
      match nth_error dirs d with
      | None => (Failed EMalformed, dirs)
      | Some (wk, data) => match setmd_modify wk namex md now data with
                           | inl x => (Failed x, dirs)
                           | inr data' => (Done, set_nth d (wk, data') dirs)
                           end
      end
    | OMove src namex dst new_namex ov =>
      let cur := normalize namex in
      let new := match new_namex with Some x => normalize x | None => cur end in
      if Nat.eqb src dst && beqb new cur then (Redundant, dirs)
      else
        match nth_error dirs src with
        | None => (Failed EMalformed, dirs)
        | Some (wk, data) =>
          (* self.get_child_and_metadata(current_child_name): _read + _get_with_metadata *)
          match b_unpack wk data with
          | inl x => (Failed x, dirs)
          | inr children =>
            match sm_get cur children with
            | None => (Failed ENoSuchChild, dirs)
            | Some c =>
              match b_add dirs dst [(new, c_node jobj c, Some (c_md jobj c))] ov now with
              | (Done, dirs') => b_delete dirs' src cur true false false
              | r => r
              end
            end
          end
        end
    end.

  Fixpoint b_run (dirs : list bdir) (ops : list (op * jval)) : list outcome * list bdir :=
    match ops with
    | [] => ([], dirs)
    | (o, now) :: r =>
      let '(out, dirs') := b_step dirs o now in
      let '(outs, dirs'') := b_run dirs' r in
      (out :: outs, dirs'')
    end.

  (* the packed form of an abstract directory; None when the packer raises *)
  Definition pack_amap (wk : bytes) (m : amap) : derr + bytes :=
    pack_normalized jobj dumps enc (fresh jobj m) (Some wk) false.
End Edits.

(* ------------------------------------------------------------------ *)
(* 8. Trees of directories (C18)                                       *)

Section Tree.
  Variable classify : bytes -> capclass.
  Variable normalize : bytes -> bytes.
  Variable MD : Type.
  Variable loads : bytes -> option MD.
  Variable dec : bytes -> bytes -> bytes.
  (* the grid: contents of the (mutable or immutable) file behind a directory,
     found from the directory's read cap *)
  Variable contents : bytes -> option bytes.
  (* the writekey carried by a directory write cap (cap.writekey) *)
  Variable writekey_of : bytes -> bytes.

  (* DirectoryNode.list() on the directory node n *)
  Definition list_dir (n : node) : option (derr + smap (child MD)) :=
    if is_dir n then
      match n_ro n with
      | None => None
      | Some r =>
        match contents r with
        | None => None
        | Some data =>
          Some (unpack_contents classify normalize MD loads dec (has_rw n) (n_mut n)
                                (match n_rw n with Some w => writekey_of w | None => [] end) data)
        end
      end
    else None.

  (* get_child_at_path *)
  Fixpoint walk (n : node) (path : list bytes) : option node :=
    match path with
    | [] => Some n
    | namex :: rest =>
      match list_dir n with
      | Some (inr children) =>
        match sm_get (normalize namex) children with
        | Some c => walk (c_node MD c) rest
        | None => None
        end
      | _ => None
      end
    end.
End Tree.

(* ------------------------------------------------------------------ *)
(* 9. Executable instances used by the harness                         *)

Fixpoint assoc_bytes {A} (k : bytes) (l : list (bytes * A)) : option A :=
  match l with
  | [] => None
  | (k', v) :: r => if list_N_eqb k k' then Some v else assoc_bytes k r
  end.

(* classify from a table computed by the driver (prefix + well-formedness of each cap string) *)
Definition classify_tbl (tbl : list (bytes * capclass)) (s : bytes) : capclass :=
  match assoc_bytes s tbl with Some c => c | None => KOther end.

(* names: the driver applies NFC itself; on the already-normalised bytes it feeds the model
   normalisation is the identity, except for the explicit pairs (un-normalised, normalised) it lists *)
Definition normalize_tbl (tbl : list (bytes * bytes)) (s : bytes) : bytes :=
  match assoc_bytes s tbl with Some c => c | None => s end.

(* AES-CTR with a zero IV = XOR with a keystream that depends on the key only;
   the driver supplies the keystream prefix for every key that occurs *)
Fixpoint xor_stream (d ks : bytes) : bytes :=
  match d, ks with
  | [], _ => []
  | x :: d', k :: ks' => N.lxor x k :: xor_stream d' ks'
  | x :: d', [] => x :: xor_stream d' []
  end.
Definition aes_tbl (tbl : list (bytes * bytes)) (key data : bytes) : bytes :=
  xor_stream data (match assoc_bytes key tbl with Some ks => ks | None => [] end).

(* opaque metadata: carried as its serialised text *)
Definition dumps_raw (m : bytes) : bytes := m.
Definition loads_raw (s : bytes) : option bytes := Some s.

(* equality of JSON values up to nothing (keys compared in order); the driver sorts keys *)
Fixpoint jval_eqb (a b : jval) : bool :=
  match a, b with
  | JNull, JNull => true
  | JBool x, JBool y => Bool.eqb x y
  | JNum x, JNum y => Z.eqb x y
  | JStr x, JStr y => list_N_eqb x y
  | JArr x, JArr y =>
    (fix go (x y : list jval) : bool :=
       match x, y with
       | [], [] => true
       | p :: x', q :: y' => jval_eqb p q && go x' y'
       | _, _ => false
       end) x y
  | JObj x, JObj y =>
    (fix go (x y : list (bytes * jval)) : bool :=
       match x, y with
       | [], [] => true
       | (k, p) :: x', (k', q) :: y' => list_N_eqb k k' && jval_eqb p q && go x' y'
       | _, _ => false
       end) x y
  | _, _ => false
  end.

(* sort the keys of every object (insertion into a sorted map) so that dict order is not compared *)
Fixpoint jcanon (v : jval) : jval :=
  match v with
  | JArr l => JArr (map jcanon l)
  | JObj l => JObj ((fix go (l : list (bytes * jval)) : smap jval :=
                       match l with
                       | [] => []
                       | (k, x) :: r => sm_set k (jcanon x) (go r)
                       end) l)
  | _ => v
  end.

Definition outcome_eqb (a b : outcome) : bool :=
  match a, b with
  | Done, Done | Redundant, Redundant => true
  | Failed x, Failed y => derr_eqb x y
  | _, _ => false
  end.

(* ------------------------------------------------------------------ *)
(* 10. Well-formedness predicates used in the theorem statements (all computable) *)

Section WF.
  Variable classify : bytes -> capclass.

  (* the read-cap field the packer writes for n *)
  Definition stored_ro (deep_immutable : bool) (n : node) : bytes :=
    strip_prefix_for_ro (or_empty (n_ro n)) deep_immutable.

  (* the node _unpack_contents rebuilds from the two cap fields written for n:
     through a writeable mutable directory, and through a read-only one *)
  Definition reread (n : node) : node :=
    create_from_cap classify false (nonempty (rstrip_sp (or_empty (n_rw n)))) (nonempty (rstrip_sp (stored_ro false n))).
  Definition reread_ro (n : node) : node :=
    create_from_cap classify false None (nonempty (rstrip_sp (stored_ro false n))).
  (* ... and from an immutable directory *)
  Definition reread_imm (n : node) : node :=
    create_from_cap classify true None (nonempty (rstrip_sp (stored_ro true n))).

  (* n is a node the node maker reproduces from its own caps (no error recorded) *)
  Definition stableb (n : node) : bool :=
    match n_err n with
    | None => node_eqb (reread n) n
    | Some _ => false
    end.

  (* the defect class excluded in C18: an unknown child that has a write cap AND
     whose read-cap slot, read on its own, is a known *write* cap *)
  Definition ro_slot_okb (n : node) : bool :=
    if is_unknown n && has_rw n then negb (has_rw (reread_ro n)) else true.

  (* diminishing (metadata 'no-write') keeps a node reproducible *)
  Definition diminish_okb (n : node) : bool :=
    match create_readonly_node classify n with
    | inl _ => true
    | inr n' => stableb n' &&
                match create_readonly_node classify n' with
                | inr n'' => node_eqb n'' n'
                | inl _ => false
                end
    end.

  Definition goodb (n : node) : bool := stableb n && diminish_okb n.

  (* a byte string without trailing spaces that is not empty *)
  Definition tidyb (c : bytes) : bool := obeqb (nonempty (rstrip_sp c)) (Some c) && negb (prefixed c).
End WF.
