(* C47: bookkeeping of allmydata.mutable.publish.Publish that decides success.

   self.writers : DictOfSets shnum -> {writer}; a writer = (shnum, server).
   After the last segment, finish_publishing() sends every writer's queued test-and-set
   write; each answer goes through _connection_problem (on error: the writer is
   discarded) and _got_write_answer:
     - answer None (after an error): nothing
     - (wrote, read_data): surprise shares = shares the server reported, other than
       this writer's and other than those we are writing to that server; if one of them
       carries a checkstring DIFFERENT from our new one (another version) -> surprised
       (one equal to ours is tolerated: an earlier write of ours, or a convergent
       writer); if not wrote (test vector failed)
       -> surprised, server marked bad; else the share is recorded as placed.
   Then _push() runs in DONE_STATE: fewer than k distinct share numbers still have a
   writer, or surprised -> _failure (UncoordinatedWriteError if surprised, else
   NotEnoughServersError); otherwise _done (success). *)
From Coq Require Import List NArith Bool.
Import ListNotations.
Local Open Scope N_scope.

Record writer := { w_shnum : N; w_server : N }.

Definition writer_eqb (a b : writer) : bool := (w_shnum a =? w_shnum b) && (w_server a =? w_server b).

(* what a server reported for one share in read_data: does its checkstring equal ours? *)
Record reported := { r_shnum : N; r_is_our_checkstring : bool }.

Inductive answer :=
| ConnError                                   (* errback -> _connection_problem *)
| Answered (wrote : bool) (read_data : list reported).

Record pstate := {
  writers : list writer;          (* all (shnum, writer) pairs still in self.writers *)
  surprised : bool;
  placed : list writer
}.

Fixpoint mem_N (x : N) (l : list N) : bool :=
  match l with [] => false | y :: r => (x =? y) || mem_N x r end.
Fixpoint dedup_N (l : list N) : list N :=
  match l with [] => [] | x :: r => if mem_N x r then dedup_N r else x :: dedup_N r end.

Definition distinct_shnums (ws : list writer) : N := N.of_nat (length (dedup_N (map w_shnum ws))).

(* shnums we are writing to this server (known_shnums in _got_write_answer) *)
Definition known_on_server (ws : list writer) (srv : N) : list N :=
  map w_shnum (filter (fun w => w_server w =? srv) ws).

Definition handle_answer (s : pstate) (w : writer) (a : answer) : pstate :=
  match a with
  | ConnError =>
      {| writers := filter (fun x => negb (writer_eqb x w)) (writers s);
         surprised := surprised s; placed := placed s |}
  | Answered wrote rd =>
      let known := known_on_server (writers s) (w_server w) in
      let surprise := existsb (fun r => negb (r_shnum r =? w_shnum w) && negb (mem_N (r_shnum r) known)
                                        && negb (r_is_our_checkstring r)) rd in
      let s1 := if surprise then true else surprised s in
      if wrote
      then {| writers := writers s; surprised := s1; placed := w :: placed s |}
      else {| writers := writers s; surprised := true; placed := placed s |}
  end.

Definition handle_all (s : pstate) (answers : list (writer * answer)) : pstate :=
  fold_left (fun st wa => handle_answer st (fst wa) (snd wa)) answers s.

Inductive outcome := Success | NotEnoughServers | UncoordinatedWrite.

Definition decide (k : N) (s : pstate) : outcome :=
  if (distinct_shnums (writers s) <? k) || surprised s
  then (if surprised s then UncoordinatedWrite else NotEnoughServers)
  else Success.

Definition start (ws : list writer) : pstate := {| writers := ws; surprised := false; placed := [] |}.

(* one publish: every writer in ws receives exactly one answer, in any order *)
Definition publish_outcome (k : N) (ws : list writer) (answers : list (writer * answer)) : outcome :=
  decide k (handle_all (start ws) answers).

Definition outcome_eqb (a b : outcome) : bool :=
  match a, b with
  | Success, Success => true | NotEnoughServers, NotEnoughServers => true
  | UncoordinatedWrite, UncoordinatedWrite => true | _, _ => false
  end.
