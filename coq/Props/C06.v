(* C06  A successful immutable upload meets servers-of-happiness.
   Statements only; proofs are in Proofs/UploadSel*.v.  Model: Model/UploadSel.v (Tahoe2ServerSelector.get_shareholders
   with its bookkeeping and allocation rounds, CHKUploader.set_shareholders / _encrypted_done, Encoder._remove_shareholder /
   err / done, the requests sent to bucket writers) on top of Model/Matching.v (servers_of_happiness, C08).

   `upload_run c x` runs the model on a script x of server answers: get_buckets answers, then per allocation round the
   placement plan (any plan: C07 is about the plan) and the allocate_buckets answers, then the answers to every write
   round and to close, each list in arrival order.  Everything below holds for EVERY configuration and EVERY script:
   any mix of full / read-only / failing servers, any pre-existing shares, failures on any call, any order of answers.

   found x p s       server p listed share s in its get_buckets answer
   allocated x p s   server p returned a bucket writer for share s in an allocate_buckets answer
   write_failed x s  the writer of share s answered some write round with an error
   r_placed          the sharemap of the UploadResults (share -> server)
   r_servermap       Encoder.servermap at the end (what the last happiness test saw)
   r_log             the requests sent to bucket writers, per bucket in connection order
   final_state       the storage server's bucket life cycle (C22: visible iff closed; abort of an open writer
                     deletes it, abort after close does nothing) run over that log. *)
From Coq Require Import List NArith ZArith Bool.
From Verif Require Import Model.Matching Model.UploadSel Proofs.UploadSelBase Proofs.UploadSelSelector Proofs.UploadSelEncoder
  Proofs.UploadSel Proofs.UploadSelMatching Proofs.UploadSelNoDup.
Import ListNotations.
Local Open Scope N_scope.

(* ---- success implies happiness ---------------------------------------------------------------------------- *)

(* the selector: it fails exactly when the happiness of (shares found + buckets allocated) is below the threshold *)
Theorem selector_verdict_is_happiness_test :
  forall c x,
    let r := upload_run c x in
    (r_verdict r = VUnhappySel -> exists eff, happiness (r_sel r) = Some eff /\ (eff < c_happy c)%Z) /\
    (r_verdict r = VSuccess \/ r_verdict r = VUnhappyEnc \/ r_verdict r = VAssert ->
       exists eff, happiness (r_sel r) = Some eff /\ (c_happy c <= eff)%Z).
Proof. exact selector_verdict_is_happiness_test_full. Qed.
Print Assumptions selector_verdict_is_happiness_test.

(* the whole upload: at the end the map the encoder kept (found shares + writers still alive) is happy enough *)
Theorem success_implies_happy :
  forall c x, r_verdict (upload_run c x) = VSuccess ->
    exists h, servers_of_happiness (r_servermap (upload_run c x)) = Some h /\ (c_happy c <= h)%Z.
Proof. exact success_implies_happy_full. Qed.
Print Assumptions success_implies_happy.

(* ... and every edge of that map is a share a server reported or a share the results name *)
Theorem servermap_edges_found_or_placed :
  forall c x s p, r_verdict (upload_run c x) = VSuccess ->
    dm_in (r_servermap (upload_run c x)) s p -> found x p s \/ In (s, p) (r_placed (upload_run c x)).
Proof. exact servermap_edges_found_or_placed_full. Qed.
Print Assumptions servermap_edges_found_or_placed.

(* hence (C08): at least `happy` distinct servers hold pairwise distinct shares, each found or placed *)
Theorem success_has_matching :
  forall c x, r_verdict (upload_run c x) = VSuccess ->
    exists M : list (N * N),
      NoDup (map fst M) /\ NoDup (map snd M) /\ (c_happy c <= Z.of_nat (length M))%Z /\
      forall p s, In (p, s) M -> found x p s \/ In (s, p) (r_placed (upload_run c x)).
Proof. exact success_has_matching_full. Qed.
Print Assumptions success_has_matching.

Theorem selector_success_has_matching :
  forall c x,
    (r_verdict (upload_run c x) = VSuccess \/ r_verdict (upload_run c x) = VUnhappyEnc \/ r_verdict (upload_run c x) = VAssert) ->
    exists M : list (N * N),
      NoDup (map fst M) /\ NoDup (map snd M) /\ (c_happy c <= Z.of_nat (length M))%Z /\
      forall p s, In (p, s) M -> found x p s \/ allocated x p s.
Proof. exact selector_success_has_matching_full. Qed.
Print Assumptions selector_success_has_matching.

(* ---- the shares reported as placed ------------------------------------------------------------------------ *)

(* exactly the buckets the selector obtained whose every write and whose close were acknowledged *)
Theorem placed_shares_closed :
  forall c x s p, r_verdict (upload_run c x) = VSuccess ->
    (In (s, p) (r_placed (upload_run c x)) <->
     In (p, s) (sel_buckets (r_sel (upload_run c x))) /\ ~ write_failed x s /\ lookup_c s (x_close x) = Some COk).
Proof. exact placed_shares_closed_full. Qed.
Print Assumptions placed_shares_closed.

Theorem buckets_were_allocated :
  forall c x p s, r_verdict (upload_run c x) <> VPending ->
    In (p, s) (sel_buckets (r_sel (upload_run c x))) -> allocated x p s.
Proof. exact buckets_were_allocated_full. Qed.
Print Assumptions buckets_were_allocated.

(* on the server such a bucket is closed, i.e. visible to readers *)
Theorem placed_are_closed_on_server :
  forall c x s p, r_verdict (upload_run c x) = VSuccess -> In (s, p) (r_placed (upload_run c x)) ->
    final_state (r_log (upload_run c x)) (p, s) = BClosed.
Proof. exact placed_are_closed_on_server_full. Qed.
Print Assumptions placed_are_closed_on_server.

(* ---- failure ---------------------------------------------------------------------------------------------- *)

(* UploadUnhappinessError from the selector or from the encoder: every bucket the selector obtained is sent abort *)
Theorem failure_aborts_all :
  forall c x b, failed_unhappy (r_verdict (upload_run c x)) ->
    In b (sel_buckets (r_sel (upload_run c x))) -> In (b, OpAbort) (r_log (upload_run c x)).
Proof. exact failure_aborts_all_full. Qed.
Print Assumptions failure_aborts_all.

(* so none of them stays open (in incoming/): each is aborted, or was closed before the abort arrived *)
Theorem failure_leaves_no_open_bucket :
  forall c x b, failed_unhappy (r_verdict (upload_run c x)) ->
    In b (sel_buckets (r_sel (upload_run c x))) -> final_state (r_log (upload_run c x)) b <> BOpen.
Proof. exact failure_leaves_no_open_bucket_full. Qed.
Print Assumptions failure_leaves_no_open_bucket.

(* whatever the verdict: a bucket that ends closed (visible) had every write acknowledged before close was sent,
   so no partial share is ever visible *)
Theorem visible_share_complete :
  forall c x p s, final_state (r_log (upload_run c x)) (p, s) = BClosed ->
    In (p, s) (sel_buckets (r_sel (upload_run c x))) /\ ~ write_failed x s /\
    exists r, lookup_c s (x_close x) = Some r /\ r <> CFlushErr.
Proof. exact visible_share_complete_full. Qed.
Print Assumptions visible_share_complete.

(* ---- the assertion of set_shareholders ---------------------------------------------------------------------- *)

(* When every plan is a function of the share number (it is a dict) and every server allocates only share numbers
   its query asked for, no two trackers ever hold a bucket for the same share, so set_shareholders' assertion
   holds and the upload ends with success or an unhappiness error (or waits for an answer).  Before /repo 111e37b
   a re-planned share got a second bucket and the upload died with AssertionError, nothing aborted. *)
Theorem honest_upload_never_asserts :
  forall c x, plans_functional x -> honest_run c x -> r_verdict (upload_run c x) <> VAssert.
Proof. exact honest_upload_never_asserts_full. Qed.
Print Assumptions honest_upload_never_asserts.

Theorem honest_run_checker_sound :
  forall c x, honest_runb c x = true -> plans_functional x /\ honest_run c x.
Proof. exact honest_runb_sound. Qed.
Print Assumptions honest_run_checker_sound.

(* ---- non-vacuity ------------------------------------------------------------------------------------------ *)
(* 4 servers (0,1,2 writable, 3 announced read-only and holding share 0), 3 shares, happy = 3.  Server 2 is full in
   the first round (allocates nothing), the second round has nowhere else to go: happiness 2 < 3, the buckets on
   servers 0 and 1 are aborted. *)
Definition ex_cfg : config := {| c_happy := 3%Z; c_total := 3; c_ro := [3]; c_rw := [0; 1; 2] |}.
Definition ex_plan : list (N * option N) := [(0, Some 0); (1, Some 1); (2, Some 2)].
Definition ex_unhappy : script :=
  {| x_existing := [(3, ExOk [0]); (0, ExOk []); (1, ExOk []); (2, ExOk [])];
     x_rounds := [ {| r_plan := ex_plan; r_resps := [(3, AlOk [0] []); (0, AlOk [] [0]); (2, AlOk [] []); (1, AlOk [] [1])] |};
                   {| r_plan := ex_plan; r_resps := [(2, AlOk [] []); (3, AlOk [0] [])] |} ];
     x_writes := []; x_close := [] |}.

Example ex_unhappy_nonvacuous :
  let r := upload_run ex_cfg ex_unhappy in
  verdict_eqb (r_verdict r) VUnhappySel = true /\ happiness (r_sel r) = Some 2%Z /\
  pairs_eqb (aborted_buckets (r_log r)) [(0, 0); (1, 1)] = true /\
  final_state (r_log r) (0, 0) = BAborted /\ final_state (r_log r) (1, 1) = BAborted.
Proof. vm_compute. repeat split; reflexivity. Qed.

(* the same grid with server 2 accepting share 2: success; one write round and the close round *)
Definition ex_ok : script :=
  {| x_existing := [(3, ExOk [0]); (0, ExOk []); (1, ExOk []); (2, ExOk [])];
     x_rounds := [ {| r_plan := ex_plan; r_resps := [(3, AlOk [0] []); (0, AlOk [] [0]); (2, AlOk [] [2]); (1, AlOk [] [1])] |} ];
     x_writes := [[(0, WOk); (1, WOk); (2, WOk)]]; x_close := [(2, COk); (0, COk); (1, COk)] |}.

Example ex_ok_nonvacuous :
  let r := upload_run ex_cfg ex_ok in
  verdict_eqb (r_verdict r) VSuccess = true /\ servers_of_happiness (r_servermap r) = Some 3%Z /\
  pairs_eqb (r_placed r) [(0, 0); (1, 1); (2, 2)] = true /\
  final_state (r_log r) (2, 2) = BClosed /\ aborted_buckets (r_log r) = [].
Proof. vm_compute. repeat split; reflexivity. Qed.

(* share 1's writer fails a write: happy = 3 is lost (servers 0/3 share 0, server 2 share 2), the encoder raises, the
   remaining writers are aborted; with happy = 2 the same answers give success without share 1 *)
Definition ex_write_fails : script :=
  {| x_existing := x_existing ex_ok; x_rounds := x_rounds ex_ok;
     x_writes := [[(0, WOk); (1, WErr); (2, WOk)]]; x_close := [(2, COk); (0, COk); (1, COk)] |}.

Example ex_write_fails_nonvacuous :
  let r := upload_run ex_cfg ex_write_fails in
  verdict_eqb (r_verdict r) VUnhappyEnc = true /\
  pairs_eqb (aborted_buckets (r_log r)) [(0, 0); (1, 1); (2, 2)] = true /\ closed_buckets (r_log r) = [] /\
  let r2 := upload_run {| c_happy := 2%Z; c_total := 3; c_ro := [3]; c_rw := [0; 1; 2] |} ex_write_fails in
  verdict_eqb (r_verdict r2) VSuccess = true /\ pairs_eqb (r_placed r2) [(0, 0); (2, 2)] = true /\
  final_state (r_log r2) (1, 1) = BAborted.
Proof. vm_compute. repeat split; reflexivity. Qed.

(* close answered with an error after the server executed it: the share is complete and visible but not reported,
   and the upload fails (happy = 3): visible_share_complete covers it, failure_leaves_no_open_bucket too *)
Definition ex_close_error_after : script :=
  {| x_existing := x_existing ex_ok; x_rounds := x_rounds ex_ok;
     x_writes := [[(0, WOk); (1, WOk); (2, WOk)]]; x_close := [(1, CErr true); (0, COk); (2, COk)] |}.

Example ex_close_error_after_nonvacuous :
  let r := upload_run ex_cfg ex_close_error_after in
  verdict_eqb (r_verdict r) VUnhappyEnc = true /\ final_state (r_log r) (1, 1) = BClosed /\
  final_state (r_log r) (0, 0) = BClosed /\ pairs_eqb (aborted_buckets (r_log r)) [(0, 0); (1, 1); (2, 2)] = true.
Proof. vm_compute. repeat split; reflexivity. Qed.

(* server 2 fails in the first round; the second plan moves share 0 from server 0 (which holds a writer for it) to
   server 1: since /repo 111e37b the selector asks server 1 for share 1 only (before, both servers held a writer for
   share 0 and set_shareholders raised AssertionError) *)
Definition ex_replan : script :=
  {| x_existing := [(0, ExOk []); (1, ExOk []); (2, ExOk [])];
     x_rounds := [ {| r_plan := [(0, Some 0); (1, Some 2)]; r_resps := [(0, AlOk [] [0]); (2, AlErr)] |};
                   {| r_plan := [(0, Some 1); (1, Some 1)]; r_resps := [(1, AlOk [] [1]); (2, AlOk [] []); (0, AlOk [] [])] |} ];
     x_writes := []; x_close := [(0, COk); (1, COk)] |}.

Example ex_replan_nonvacuous :
  let r := upload_run {| c_happy := 2%Z; c_total := 2; c_ro := []; c_rw := [0; 1; 2] |} ex_replan in
  verdict_eqb (r_verdict r) VSuccess = true /\ pairs_eqb (r_placed r) [(0, 0); (1, 1)] = true /\
  all_queries_eqb (r_queries r) [[(0, [0]); (2, [1])]; [(0, []); (1, [1]); (2, [])]] = true.
Proof. vm_compute. repeat split; reflexivity. Qed.

(* the hypotheses of honest_upload_never_asserts hold on the examples above ... *)
Example ex_honest_nonvacuous :
  honest_runb ex_cfg ex_ok = true /\ honest_runb ex_cfg ex_unhappy = true /\
  honest_runb {| c_happy := 2%Z; c_total := 2; c_ro := []; c_rw := [0; 1; 2] |} ex_replan = true.
Proof. vm_compute. repeat split; reflexivity. Qed.

(* ... and cannot be dropped: a server that returns a writer for a share it was not asked for (server 1, share 0,
   which server 0 also holds) makes the assertion fail; nothing is aborted then *)
Definition ex_lying : script :=
  {| x_existing := [(0, ExOk []); (1, ExOk [])];
     x_rounds := [ {| r_plan := [(0, Some 0); (1, Some 1)]; r_resps := [(0, AlOk [] [0]); (1, AlOk [] [0; 1])] |} ];
     x_writes := []; x_close := [] |}.

Example ex_lying_nonvacuous :
  let c := {| c_happy := 2%Z; c_total := 2; c_ro := []; c_rw := [0; 1] |} in
  verdict_eqb (r_verdict (upload_run c ex_lying)) VAssert = true /\ honest_runb c ex_lying = false /\
  r_log (upload_run c ex_lying) = [].
Proof. vm_compute. repeat split; reflexivity. Qed.
