(* C33  Grid-manager certificates grant permission only when valid.
   Statements only; proofs are in Proofs/GridManager.v.  The model
   (Model/GridManager.v) mirrors grid_manager.py validate_grid_manager_certificate /
   create_grid_manager_verifier and storage_client.py *.upload_permitted.  The
   signature scheme and the JSON/ISO-8601 decoding are universally quantified. *)
From Coq Require Import List NArith ZArith Bool.
From Verif Require Import Lib.Sig Model.GridManager Proofs.GridManager.
Import ListNotations.
Local Open Scope Z_scope.

(* With at least one configured key, and certificates that (when they verify
   under a configured key) decode to a server key and a zone-aware expiry -- the
   inputs on which the real predicate does not raise -- the predicate never
   raises and returns True EXACTLY when some certificate is signed by some
   configured key, names this server's public key and `now < expires`. *)
Theorem permitted_iff :
  forall (pubkey msg sig : Type) (verify : pubkey -> msg -> sig -> bool)
         (spk : Type) (spk_eqb : spk -> spk -> bool)
         (decode : msg -> option (cert_json spk))
         (keys : list pubkey) (certs : list (signed_cert msg sig)) (public_key : spk) (now : Z),
    keys <> [] ->
    certs_wellformed verify decode keys certs ->
    permitted verify spk_eqb decode keys certs public_key now <> Raise /\
    (permitted verify spk_eqb decode keys certs public_key now = Permit <->
     exists c k, In c certs /\ In k keys /\
       verify k (sc_cert c) (sc_sig c) = true /\
       exists f e, decode (sc_cert c) = Some (JFields f) /\ spk_eqb (cf_pk f) public_key = true /\
                   cf_exp f = ExpAware e /\ now < e).
Proof. exact permitted_iff_ok. Qed.
Print Assumptions permitted_iff.

(* The "only if" direction needs no side condition at all: whatever the
   certificates contain (including ones on which the real code raises),
   True is returned only if a valid certificate exists. *)
Theorem permit_only_with_valid_certificate :
  forall (pubkey msg sig : Type) (verify : pubkey -> msg -> sig -> bool)
         (spk : Type) (spk_eqb : spk -> spk -> bool)
         (decode : msg -> option (cert_json spk))
         (keys : list pubkey) (certs : list (signed_cert msg sig)) (public_key : spk) (now : Z),
    keys <> [] ->
    permitted verify spk_eqb decode keys certs public_key now = Permit ->
    exists c k, In c certs /\ In k keys /\ cert_grants verify spk_eqb decode k c public_key now.
Proof. exact permit_only_with_valid_certificate_ok. Qed.
Print Assumptions permit_only_with_valid_certificate.

Theorem no_keys_all_permitted :
  forall (pubkey msg sig : Type) (verify : pubkey -> msg -> sig -> bool)
         (spk : Type) (spk_eqb : spk -> spk -> bool)
         (decode : msg -> option (cert_json spk))
         (certs : list (signed_cert msg sig)) (public_key : spk) (now : Z),
    permitted verify spk_eqb decode [] certs public_key now = Permit
    /\ upload_permitted spk_eqb None public_key now = Permit.
Proof. exact no_keys_all_permitted_full. Qed.
Print Assumptions no_keys_all_permitted.

(* If verification succeeds only for genuinely signed messages, a set of
   certificates none of whose bytes was signed by a configured key never grants. *)
Theorem tampered_never_grants :
  forall (pubkey msg sig : Type) (verify : pubkey -> msg -> sig -> bool)
         (spk : Type) (spk_eqb : spk -> spk -> bool)
         (decode : msg -> option (cert_json spk))
         (signed : pubkey -> msg -> Prop)
         (keys : list pubkey) (certs : list (signed_cert msg sig)) (public_key : spk) (now : Z),
    sig_sound verify signed ->
    keys <> [] ->
    (forall c k, In c certs -> In k keys -> ~ signed k (sc_cert c)) ->
    permitted verify spk_eqb decode keys certs public_key now <> Permit.
Proof. exact tampered_never_grants_ok. Qed.
Print Assumptions tampered_never_grants.

(* Tampered signature / wrong key, unreadable, other-server, zone-less and
   expired certificates (expiry instant included: e <= now) never grant. *)
Theorem invalid_never_grants :
  forall (pubkey msg sig : Type) (verify : pubkey -> msg -> sig -> bool)
         (spk : Type) (spk_eqb : spk -> spk -> bool)
         (decode : msg -> option (cert_json spk))
         (keys : list pubkey) (certs : list (signed_cert msg sig)) (public_key : spk) (now : Z),
    keys <> [] ->
    (forall c k, In c certs -> In k keys ->
       verify k (sc_cert c) (sc_sig c) = false
       \/ decode (sc_cert c) = None \/ decode (sc_cert c) = Some JNull \/ decode (sc_cert c) = Some JUnreadable
       \/ (exists f, decode (sc_cert c) = Some (JFields f) /\
             (spk_eqb (cf_pk f) public_key = false
              \/ cf_exp f = ExpNaive
              \/ exists e, cf_exp f = ExpAware e /\ e <= now))) ->
    permitted verify spk_eqb decode keys certs public_key now <> Permit.
Proof. exact invalid_never_grants_ok. Qed.
Print Assumptions invalid_never_grants.

(* A long-running client: after any history of announcements, the answer for a server is the
   certificate rule applied to the certificate list of the LATEST announcement of that server
   (renewed, added or withdrawn certificates take effect); other servers are unaffected. *)
Theorem verifier_follows_latest_announcement :
  forall (pubkey msg sig : Type) (verify : pubkey -> msg -> sig -> bool)
         (spk : Type) (spk_eqb : spk -> spk -> bool) (decode : msg -> option (cert_json spk))
         (keys : list pubkey) (h : ann_history msg sig) (id : N) (cs : list (signed_cert msg sig))
         (public_key : spk) (now : Z),
    broker_permitted verify spk_eqb decode keys (h ++ [(id, cs)]) id public_key now
      = Some (permitted verify spk_eqb decode keys cs public_key now) /\
    (forall id', id <> id' ->
       broker_permitted verify spk_eqb decode keys (h ++ [(id, cs)]) id' public_key now
       = broker_permitted verify spk_eqb decode keys h id' public_key now).
Proof. exact verifier_follows_latest_announcement_full. Qed.
Print Assumptions verifier_follows_latest_announcement.

(* ---- the hypotheses are satisfiable; the boundary behaves as stated ----
   symbolic scheme: grid-manager keys 1 and 2; server keys 10, 11;
   message 100 = {public_key: 10, expires: 5000}, 101 = {public_key: 11, expires: 5000},
   102 = not JSON, 103 = JSON without the members, 104 = {public_key: 10, expires without zone},
   105 = the JSON value null *)
Definition ex_tbl : sym_table :=
  [ (100%N, sym_f 10%N (ExpAware 5000)); (101%N, sym_f 11%N (ExpAware 5000));
    (102%N, None); (103%N, Some JUnreadable); (104%N, sym_f 10%N ExpNaive); (105%N, Some JNull) ].

Example ex_valid_before_expiry :
  sym_permitted ex_tbl [1%N; 2%N] [sym_cert 100 (sym_sign 2 100)] 10%N 4999 = Permit.
Proof. vm_compute. reflexivity. Qed.
Example ex_at_expiry_instant :
  sym_permitted ex_tbl [1%N; 2%N] [sym_cert 100 (sym_sign 2 100)] 10%N 5000 = Deny.
Proof. vm_compute. reflexivity. Qed.
Example ex_other_server :
  sym_permitted ex_tbl [1%N] [sym_cert 101 (sym_sign 1 101)] 10%N 0 = Deny.
Proof. vm_compute. reflexivity. Qed.
Example ex_unconfigured_signer :
  sym_permitted ex_tbl [1%N] [sym_cert 100 (sym_sign 2 100)] 10%N 0 = Deny.
Proof. vm_compute. reflexivity. Qed.
Example ex_tampered_bytes :
  sym_permitted ex_tbl [1%N] [sym_cert 100 (sym_sign 1 101)] 10%N 0 = Deny.
Proof. vm_compute. reflexivity. Qed.
Example ex_second_certificate_counts :
  sym_permitted ex_tbl [1%N] [sym_cert 101 (sym_sign 1 101); sym_cert 100 (SigJunk 7); sym_cert 100 (sym_sign 1 100)] 10%N 0 = Permit.
Proof. vm_compute. reflexivity. Qed.
Example ex_no_keys :
  sym_permitted ex_tbl [] [sym_cert 102 (SigJunk 0)] 10%N 99999 = Permit.
Proof. vm_compute. reflexivity. Qed.
(* inputs excluded by certs_wellformed: the real code raises *)
Example ex_signed_garbage_raises :
  sym_permitted ex_tbl [1%N] [sym_cert 102 (sym_sign 1 102); sym_cert 100 (sym_sign 1 100)] 10%N 0 = Raise.
Proof. vm_compute. reflexivity. Qed.
Example ex_signed_missing_members_raises :
  sym_permitted ex_tbl [1%N] [sym_cert 103 (sym_sign 1 103); sym_cert 100 (sym_sign 1 100)] 10%N 0 = Raise.
Proof. vm_compute. reflexivity. Qed.
Example ex_signed_null_is_skipped :
  sym_permitted ex_tbl [1%N] [sym_cert 105 (sym_sign 1 105); sym_cert 100 (sym_sign 1 100)] 10%N 0 = Permit.
Proof. vm_compute. reflexivity. Qed.
Example ex_zoneless_expiry_raises :
  sym_permitted ex_tbl [1%N] [sym_cert 104 (sym_sign 1 104)] 10%N 0 = Raise.
Proof. vm_compute. reflexivity. Qed.

Example ex_renewed_certificate_takes_effect :
  sym_broker_permitted ex_tbl [1%N] [(5%N, []); (6%N, [sym_cert 100 (sym_sign 1 100)]); (5%N, [sym_cert 100 (sym_sign 1 100)]); (6%N, [])]
                       5%N 10%N [0; 5000]
  = [Some Permit; Some Deny]
  /\ sym_broker_permitted ex_tbl [1%N] [(5%N, []); (6%N, [sym_cert 100 (sym_sign 1 100)]); (6%N, [])] 6%N 10%N [0] = [Some Deny].
Proof. vm_compute. split; reflexivity. Qed.

Example permitted_iff_nonvacuous :
  [1%N; 2%N] <> [] /\
  certs_wellformed sym_verify (sym_decode ex_tbl) [1%N; 2%N]
    [sym_cert 100 (sym_sign 2 100); sym_cert 101 (sym_sign 1 101); sym_cert 102 (SigJunk 3)].
Proof.
  split; [discriminate|].
  intros c k [<-|[<-|[<-|[]]]] [<-|[<-|[]]] V; vm_compute in V; try discriminate;
    vm_compute; eexists; eexists; split; reflexivity.
Qed.

(* a scheme in which only key 1 ever signed, and only message 100 *)
Definition ex_verify (k m : N) (s : sym_sig) : bool := sym_verify k m s && (k =? 1)%N && (m =? 100)%N.
Example tampered_never_grants_nonvacuous :
  sig_sound ex_verify (fun k m => k = 1%N /\ m = 100%N) /\
  [1%N] <> [] /\
  (forall c k, In c [sym_cert 101 (sym_sign 1 100)] -> In k [1%N] -> ~ (k = 1%N /\ sc_cert c = 100%N)).
Proof.
  split; [|split; [discriminate|]].
  - intros k m s H. unfold ex_verify in H. rewrite !andb_true_iff, !N.eqb_eq in H. tauto.
  - intros c k [<-|[]] _ [_ E]. discriminate.
Qed.
