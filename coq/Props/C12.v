(* C12  Concurrent writers are detected, never silently clobbered.
   Model/TestAndSet.v: cells (one per share number on a common placement) holding version
   ids, writers that survey and then send guarded writes, any interleaving of events. *)
From Coq Require Import List NArith Bool.
From Verif Require Import Model.Publish Model.SlotAnswer Proofs.SlotAnswer.
From Verif Require Import Model.TestAndSet Proofs.TestAndSet Proofs.TestAndSetTrace Proofs.TestAndSetRace Proofs.TestAndSetHist.
Import ListNotations.
Local Open Scope N_scope.

(* each server write succeeds iff the share still holds the version the publisher saw;
   a refused write changes nothing on the server and marks the publisher surprised *)
Theorem write_applies_iff_test_holds :
  forall s j i w snap cur seen,
    nth_error (ws s) j = Some w -> snapshot w = Some snap ->
    nth_error (cells s) i = Some cur -> nth_error snap i = Some seen ->
    (cur = seen ->
       nth_error (cells (step s (Write j i))) i = Some (new_version j) /\
       (forall w', nth_error (ws (step s (Write j i))) j = Some w' -> w_surprised w' = w_surprised w /\ acked w' = i :: acked w)) /\
    (cur <> seen ->
       cells (step s (Write j i)) = cells s /\
       (forall w', nth_error (ws (step s (Write j i))) j = Some w' -> w_surprised w' = true /\ acked w' = acked w)).
Proof. exact write_applies_iff_test_holds_ok. Qed.
Print Assumptions write_applies_iff_test_holds.

(* no silent clobber: a share that differs from what the publisher surveyed is not
   overwritten, and the publisher notices *)
Theorem no_silent_clobber :
  forall s j i w snap cur seen,
    nth_error (ws s) j = Some w -> snapshot w = Some snap ->
    nth_error (cells s) i = Some cur -> nth_error snap i = Some seen ->
    cur <> seen ->
    let s' := step s (Write j i) in
    cells s' = cells s /\ exists w', nth_error (ws s') j = Some w' /\ w_surprised w' = true.
Proof. exact changed_cell_refuses_ok. Qed.
Print Assumptions no_silent_clobber.

(* the surprise is never forgotten (it becomes the UncoordinatedWriteError of C47) *)
Theorem ucwe_reported :
  forall e s j w, nth_error (ws s) j = Some w -> w_surprised w = true ->
    exists w', nth_error (ws (step s e)) j = Some w' /\ w_surprised w' = true.
Proof. exact surprised_sticky_ok. Qed.
Print Assumptions ucwe_reported.

(* for ALL interleavings: with W writers on N cells and (W+1) * k <= N, some version
   (old or new) occupies at least k distinct share numbers in every reachable state *)
Theorem some_version_survives :
  forall ncells nwriters k evs,
    (1 <= k)%nat -> (S nwriters * k <= ncells)%nat ->
    exists v, In v (all_versions nwriters) /\ (k <= count_v v (cells (run ncells nwriters evs)))%nat.
Proof. exact some_version_survives_ok. Qed.
Print Assumptions some_version_survives.

(* non-vacuity: two writers race on 6 cells, k = 2; both end surprised, yet a version keeps 2 cells;
   and on the other side of the bound (k = 3, 6 cells, 2 writers) a 2/2/2 split is reachable *)
Example ex_race :
  let s := run 6 2 [Survey 0; Survey 1; Write 0 0; Write 1 1; Write 0 1; Write 1 0; Write 0 2; Write 1 3;
                    Write 0 3; Write 1 2] in
  cells s = [1; 2; 1; 2; 0; 0] /\ map w_surprised (ws s) = [true; true] /\
  count_v 1 (cells s) = 2%nat /\ count_v 2 (cells s) = 2%nat /\ count_v 0 (cells s) = 2%nat.
Proof. vm_compute. repeat split. Qed.

(* trace level, for ALL interleavings of any number of writers that each survey once per
   publish (single_survey): `dirty g j` is the ghost set of cells that some OTHER writer's
   applied write has touched since j's last survey.  An applied write of j never lands on
   such a cell -- versions are fresh, so "cell holds what j saw" implies "nobody wrote it". *)
Theorem applied_write_on_untouched_cell :
  forall ncells n evs j i,
    single_survey ncells n evs ->
    applied (gs (grun ncells n evs)) (Write j i) = true ->
    ~ In i (dirty (grun ncells n evs) j).
Proof. exact applied_write_on_untouched_cell_ok. Qed.
Print Assumptions applied_write_on_untouched_cell.

(* and the converse reading: a write aimed at a touched cell is refused and changes nothing *)
Theorem touched_cell_write_refused :
  forall ncells n evs j i,
    single_survey ncells n evs ->
    In i (dirty (grun ncells n evs) j) ->
    applied (gs (grun ncells n evs)) (Write j i) = false /\
    cells (step (run ncells n evs) (Write j i)) = cells (run ncells n evs).
Proof. exact touched_cell_write_refused_ok. Qed.
Print Assumptions touched_cell_write_refused.

(* the ghost state is only an annotation: its system component is exactly the model's run *)
Theorem ghost_run_is_run : forall ncells n evs, gs (grun ncells n evs) = run ncells n evs.
Proof. exact grun_gs. Qed.
Print Assumptions ghost_run_is_run.

(* non-vacuity: the race above satisfies single_survey, writer 0's dirty set is {1,3} there,
   and its write to cell 4 would still be applied while a write to cell 1 would be refused *)
Example ex_trace :
  let evs := [Survey 0; Survey 1; Write 0 0; Write 1 1; Write 0 1; Write 1 0; Write 0 2; Write 1 3]%nat in
  let g := grun 6 2 evs in
  dirty g 0%nat = [3; 1]%nat /\ dirty g 1%nat = [2; 0]%nat /\
  applied (gs g) (Write 0 4) = true /\ applied (gs g) (Write 0 1) = false.
Proof. vm_compute. repeat split. Qed.
Example ex_trace_single_survey :
  single_survey 6 2 [Survey 0; Survey 1; Write 0 0; Write 1 1; Write 0 1; Write 1 0; Write 0 2; Write 1 3]%nat.
Proof. unfold single_survey. cbn. repeat split; intros w H; inversion H; reflexivity. Qed.

(* CONCURRENT WRITERS ARE DETECTED, for every interleaving: if writers j and o have both
   surveyed (pre), and both later send a guarded write for the same existing share i
   (j's first, anything in between and after), then in the final state at least one of the
   two is surprised -- both can never complete believing they were alone. *)
Theorem overlapping_publishes_detected :
  forall ncells n pre mid post j o i,
    single_survey ncells n (pre ++ Write j i :: mid ++ Write o i :: post) ->
    j <> o -> (i < ncells)%nat ->
    surveyed (run ncells n pre) j -> surveyed (run ncells n pre) o ->
    let s := run ncells n (pre ++ Write j i :: mid ++ Write o i :: post) in
    surprised s j \/ surprised s o.
Proof. exact overlapping_publishes_detected_ok. Qed.
Print Assumptions overlapping_publishes_detected.

(* non-vacuity: a three-writer trace that meets every hypothesis (writers 0 and 2 overlap on cell 1);
   and without the overlap (writer 1 surveys after writer 0 finished) nobody is surprised *)
Example ex_overlap_hyps :
  let pre := [Survey 0; Survey 2; Write 0 0]%nat in
  single_survey 3 3 (pre ++ Write 0 1 :: [Survey 1; Write 1 2]%nat ++ Write 2 1 :: [Write 2 0]%nat) /\
  surveyed (run 3 3 pre) 0 /\ surveyed (run 3 3 pre) 2 /\
  map w_surprised (ws (run 3 3 (pre ++ Write 0 1 :: [Survey 1; Write 1 2]%nat ++ Write 2 1 :: [Write 2 0]%nat))) = [false; false; true].
Proof.
  cbn. repeat split; try (intros w H; inversion H; reflexivity);
    eexists; eexists; split; reflexivity.
Qed.
Example ex_sequential_no_surprise :
  map w_surprised (ws (run 2 2 [Survey 0; Write 0 0; Write 0 1; Survey 1; Write 1 0; Write 1 1]%nat)) = [false; false].
Proof. reflexivity. Qed.

(* "A PUBLISHER THAT MEETS A DIFFERENT VERSION REPORTS AN UNCOORDINATED-WRITE ERROR", also when its
   own write is applied: the server's answer to a test-and-set request reports every share it
   holds for the slot (server_read_data ignores which shares the request names -- compared with
   the real StorageServer on every run); composed with the publisher's bookkeeping (Model/Publish,
   C47) a share of another version that the publisher is not itself writing to that server makes
   the whole publish end in UncoordinatedWriteError, whatever else is answered, in any order. *)
Theorem foreign_share_gives_ucwe :
  forall k ws pre post w wrote held named mine c v,
    In (c, v) held -> c <> w_shnum w ->
    mem_N c (known_on_server ws (w_server w)) = false -> v <> mine ->
    publish_outcome k ws (pre ++ (w, answer_of mine wrote held named) :: post) = UncoordinatedWrite.
Proof. exact foreign_share_gives_ucwe_ok. Qed.
Print Assumptions foreign_share_gives_ucwe.

Theorem own_version_tolerated :
  forall s w held named mine,
    (forall c v, In (c, v) held -> v = mine) ->
    Publish.surprised (handle_answer s w (answer_of mine true held named)) = Publish.surprised s.
Proof. exact own_version_tolerated_ok. Qed.
Print Assumptions own_version_tolerated.

(* non-vacuity: writer A (version 7) writes share 0 on server 5 and share 4 elsewhere; meanwhile B
   created share 4 (version 9) on server 5: A's write of share 0 is applied, yet A ends with UCWE *)
Example ex_foreign_share :
  publish_outcome 1 [ {| w_shnum := 0; w_server := 5 |}; {| w_shnum := 4; w_server := 6 |} ]
    [ ({| w_shnum := 4; w_server := 6 |}, answer_of 7 true [(4, 7)] [4]);
      ({| w_shnum := 0; w_server := 5 |}, answer_of 7 true [(0, 3); (4, 9)] [0]) ] = UncoordinatedWrite /\
  publish_outcome 1 [ {| w_shnum := 0; w_server := 5 |}; {| w_shnum := 4; w_server := 6 |} ]
    [ ({| w_shnum := 4; w_server := 6 |}, answer_of 7 true [(4, 7)] [4]);
      ({| w_shnum := 0; w_server := 5 |}, answer_of 7 true [(0, 3)] [0]) ] = Success.
Proof. vm_compute. split; reflexivity. Qed.

(* WHAT BECOMES OF AN APPLIED WRITE, for every interleaving: a share that writer j's write was
   applied to still holds j's version, or was replaced by a writer whose own survey had seen j's
   version on that very share -- an informed successor, never someone who did not know about j. *)
Theorem applied_write_survives_or_informed_successor :
  forall ncells n evs j w i,
    single_survey ncells n evs ->
    nth_error (ws (run ncells n evs)) j = Some w -> In i (acked w) ->
    nth_error (cells (run ncells n evs)) i = Some (new_version j) \/ informed_successor (run ncells n evs) j i.
Proof. exact applied_write_survives_or_informed_successor_ok. Qed.
Print Assumptions applied_write_survives_or_informed_successor.

(* non-vacuity: writer 0 publishes, writer 1 surveys afterwards and overwrites cell 0: an informed successor *)
Example ex_informed_successor :
  let s := run 2 2 [Survey 0; Write 0 0; Write 0 1; Survey 1; Write 1 0]%nat in
  cells s = [2; 1] /\ informed_successor s 0 0 /\ nth_error (cells s) 1 = Some (new_version 0).
Proof.
  cbn. split; [reflexivity|]. split; [|reflexivity].
  exists 1%nat. eexists. eexists. split; [discriminate|]. split; [reflexivity|]. cbn. auto.
Qed.

From Verif Require Import Gen.MutPins.
From Coq Require Import String.
(* Fingerprints (AST, comments and docstrings excluded) of the source functions this model
   transcribes by hand, regenerated from /repo on every run (harness/translate/mutpins.py):
   the model was written for exactly these versions of them. *)
Theorem model_pins_current :
  pins_C12 =
  [("server_slot_testv_and_readv_and_writev", "48b5cd274c5180db")%string;
   ("server_evaluate_test_vectors", "b3a48c6d748eef5b")%string;
   ("server_evaluate_read_vectors", "3e8dc683afcc580e")%string;
   ("publish_got_write_answer", "166be3157ed17053")%string].
Proof. reflexivity. Qed.
Print Assumptions model_pins_current.
