(* C13  One client serialises operations on a mutable node.
   Model/Serializer.v is the Deferred chain of MutableFileNode._do_serialized
   (three callbacks per request on one long-lived Deferred; a callback that
   returns an unfired Deferred pauses the chain).  Inputs are arbitrary
   interleavings of requests and completions (success or failure) of the
   running operation; `events` is the chronological trace. *)
From Coq Require Import List NArith Bool.
From Verif Require Import Model.Serializer Proofs.Serializer.
From Verif Require Import Gen.NodeMakerKey Proofs.NodeMakerKey.
Import ListNotations.
Local Open Scope N_scope.

(* operations start in request order *)
Theorem fifo_start_order :
  forall inputs, is_prefix (started_ids (events (exec inputs))) (requested_ids inputs).
Proof. exact fifo_order_ok. Qed.
Print Assumptions fifo_start_order.

(* none starts before the previous one finished: scanning the trace never meets a
   Started while another operation is open, and the only open one is the running one *)
Theorem fifo_nonoverlap :
  forall inputs, scan None (events (exec inputs)) = Some (waiting (exec inputs)).
Proof. exact nonoverlap_ok. Qed.
Print Assumptions fifo_nonoverlap.

Theorem idle_trace_bracketed :
  forall inputs, waiting (exec inputs) = None -> nonoverlap None (events (exec inputs)) = true.
Proof. exact nonoverlap_idle. Qed.
Print Assumptions idle_trace_bracketed.

(* nothing is lost or blocked: once the chain is idle every request has been started,
   whatever mixture of failures preceded it *)
Theorem idle_all_started :
  forall inputs, waiting (exec inputs) = None ->
                 started_ids (events (exec inputs)) = requested_ids inputs.
Proof. exact all_started_when_idle. Qed.
Print Assumptions idle_all_started.

(* a failed operation is reported to its caller and the next queued one starts at once *)
Theorem failure_does_not_block :
  forall inputs w, waiting (exec inputs) = Some w ->
    let s' := step (exec inputs) (Complete Fail) in
    In (Finished w Fail) (events s') /\ In (Delivered w Fail) (events s') /\
    (forall o rest, requested_ids inputs = started_ids (events (exec inputs)) ++ o :: rest ->
                    In (Started o) (events s')).
Proof. exact next_starts_after_failure. Qed.
Print Assumptions failure_does_not_block.

(* every caller receives exactly its own operation's result, in order *)
Theorem results_delivered_in_order :
  forall inputs, delivered (events (exec inputs)) = finished (events (exec inputs)).
Proof. exact delivered_eq_finished. Qed.
Print Assumptions results_delivered_in_order.

(* read-modify-write operations run through the serializer lose no update: the final
   contents are the successful modifiers applied in order to the initial contents *)
Theorem modify_sequence_no_lost_update :
  forall (content : Type) (modifier : opid -> content -> content) inputs store,
    waiting (exec inputs) = None ->
    replay content modifier (events (exec inputs)) store None
    = apply_ok content modifier (finished (events (exec inputs))) store.
Proof. exact no_lost_update_ok. Qed.
Print Assumptions modify_sequence_no_lost_update.

(* NodeMaker.create_from_cap: the same cap string yields the same node object,
   hence the same serializer *)
Theorem same_cap_same_node :
  forall c k f1 f2,
    let '(c1, n1) := create_from_cap c k f1 in
    let '(_, n2) := create_from_cap c1 k f2 in n1 = n2.
Proof. exact cache_same_cap_same_node. Qed.
Print Assumptions same_cap_same_node.

(* WHICH entry a lookup uses (memokey is translated from nodemaker.py on every run): the read cap
   passed alongside a write cap -- as a parent directory's child lookup does -- never selects
   a different node, so every route to one write cap shares one serializer *)
Theorem same_writecap_same_node :
  forall c di w ro1 ro2 f1 f2,
    w <> [] ->
    exists k, memokey di (Some w) ro1 = Some k /\ memokey di (Some w) ro2 = Some k /\
      let '(c1, n1) := create_from_cap c k f1 in
      let '(_, n2) := create_from_cap c1 k f2 in n1 = n2.
Proof. exact same_writecap_same_node_ok. Qed.
Print Assumptions same_writecap_same_node.

(* and two lookups share an entry ONLY if they resolve the same cap under the same deep_immutable flag *)
Theorem memokey_injective :
  forall di di' wc rc wc' rc' k,
    memokey di wc rc = Some k -> memokey di' wc' rc' = Some k ->
    di = di' /\ py_or wc rc = py_or wc' rc'.
Proof. exact memokey_inj_ok. Qed.
Print Assumptions memokey_injective.

Example ex_memokey :
  memokey false (Some [85; 82; 73]) None = Some [77; 85; 82; 73] /\
  memokey false (Some [85; 82; 73]) (Some [1; 2]) = Some [77; 85; 82; 73] /\
  memokey true None (Some [9]) = Some [73; 9] /\ memokey false None None = None /\ memokey false (Some []) (Some []) = None.
Proof. vm_compute. repeat split. Qed.

(* non-vacuity: a run with a failure in the middle, two queued requests, ends idle with
   all four operations started in order *)
Example ex_run_with_failure :
  let s := exec [Request 1 Async; Request 2 Async; Request 3 (Sync Ok); Complete Fail; Request 4 Async; Complete Ok; Complete Ok] in
  waiting s = None /\ started_ids (events s) = [1; 2; 3; 4] /\
  finished (events s) = [(1, Fail); (2, Ok); (3, Ok); (4, Ok)].
Proof. vm_compute. repeat split. Qed.

From Verif Require Import Gen.MutPins.
From Coq Require Import String.
(* Fingerprints (AST, comments and docstrings excluded) of the source functions this model
   transcribes by hand, regenerated from /repo on every run (harness/translate/mutpins.py):
   the model was written for exactly these versions of them. *)
Theorem model_pins_current :
  pins_C13 =
  [("filenode_do_serialized", "49a58348bbc8e581")%string;
   ("filenode_modify", "c74e998ef15ca065")%string;
   ("filenode_overwrite", "aa41320d46a2086c")%string;
   ("filenode_upload", "5a80db7b7adcfbc6")%string;
   ("filenode_get_best_mutable_version", "79c2113dba6adaf7")%string].
Proof. reflexivity. Qed.
Print Assumptions model_pins_current.
