(* C19  Directory contents round-trip.
   Statements only; each is closed by `exact` of a lemma in Proofs/DirnodePack.v or Proofs/DirnodeCaps.v.
   Model: Model/Dirnode.v (dirnode.pack_children/_pack_normalized_children, DirectoryNode._unpack_contents,
   unknown.UnknownNode/strip_prefix_for_ro, NodeMaker.create_from_cap, util/netstring.py).
   External behaviour, as hypotheses of each theorem: normalize (NFC) is idempotent; JSON loads . dumps = id;
   AES-CTR decryption undoes encryption.  `classify` (what uri.py makes of a cap
   string) is universally quantified.
   Predicates (all computable):
     stableb classify n   (Model/Dirnode.v) the node maker rebuilds n from the two cap fields the packer
                          writes for it (no error recorded).  This is where "caps without trailing spaces"
                          lives: _unpack_contents strips trailing spaces, so a node whose cap ends in a
                          space is not stable (recorded below as unpack_pack_trailing_space_refuted), and so
                          is an unknown cap whose body itself starts with "ro."/"imm." (..._nested_prefix_refuted).
     names_normal, all_nodes, with_aux, normalized_list, last_binding, shape_ok, mutable_or_writecap, no_err:
                          Proofs/DirnodePack.v, Proofs/DirnodeBase.v, Proofs/DirnodeCaps.v *)
From Coq Require Import List NArith Bool String.
From Verif Require Import Lib.Hex Lib.Netstring Model.Dirnode Proofs.DirnodeBase Proofs.DirnodeCaps Proofs.DirnodePack.
Import ListNotations.
Local Open Scope N_scope.

(* packing the caller's dict of children (any names, any order) and unpacking through the writeable
   directory gives exactly the dict {normalize(name): (child, metadata)}: same names, caps, metadata *)
Theorem unpack_pack :
  forall (classify : bytes -> capclass) (normalize : bytes -> bytes) (MD : Type)
         (dumps : MD -> bytes) (loads : bytes -> option MD) (enc dec : bytes -> bytes -> bytes),
    (forall x, normalize (normalize x) = normalize x) ->
    (forall m, loads (dumps m) = Some m) ->
    (forall k d, dec k (enc k d) = d) ->
    forall (wk : bytes) (l : list (bytes * (node * MD))),
      (forall k v, In (k, v) l -> stableb classify (fst v) = true) ->
      exists data,
        pack_children normalize MD dumps enc l (Some wk) false = inr data /\
        exists children,
          unpack_contents classify normalize MD loads dec true true wk data = inr children /\
          view MD children = sm_of_list (normalized_list normalize MD l).
Proof. exact unpack_pack_list. Qed.
Print Assumptions unpack_pack.

(* the same for a directory already held as a (sorted, normalised) map: unpack (pack m) = m, and the
   cached entry of each child is the bytes the packer wrote for it *)
Theorem unpack_pack_dir :
  forall (classify : bytes -> capclass) (normalize : bytes -> bytes) (MD : Type)
         (dumps : MD -> bytes) (loads : bytes -> option MD) (enc dec : bytes -> bytes -> bytes),
    (forall m, loads (dumps m) = Some m) ->
    (forall k d, dec k (enc k d) = d) ->
    forall (wk : bytes) (m : smap (node * MD)),
      sm_sorted m = true -> names_normal normalize MD m -> all_nodes MD (stableb classify) m ->
      exists data,
        pack_normalized MD dumps enc (fresh MD m) (Some wk) false = inr data /\
        exists children,
          unpack_contents classify normalize MD loads dec true true wk data = inr children /\
          view MD children = m /\
          children = with_aux MD dumps enc (fun n => n) (Some wk) false m.
Proof. exact unpack_pack_map. Qed.
Print Assumptions unpack_pack_dir.

(* two names of the caller's dict with the same normal form: the later one is what the directory holds *)
Theorem later_duplicate_wins :
  forall (classify : bytes -> capclass) (normalize : bytes -> bytes) (MD : Type)
         (dumps : MD -> bytes) (loads : bytes -> option MD) (enc dec : bytes -> bytes -> bytes),
    (forall x, normalize (normalize x) = normalize x) ->
    (forall m, loads (dumps m) = Some m) ->
    (forall k d, dec k (enc k d) = d) ->
    forall (wk : bytes) (l : list (bytes * (node * MD))) (name : bytes),
      (forall k v, In (k, v) l -> stableb classify (fst v) = true) ->
      exists data children,
        pack_children normalize MD dumps enc l (Some wk) false = inr data /\
        unpack_contents classify normalize MD loads dec true true wk data = inr children /\
        sm_get name (view MD children) = last_binding name (normalized_list normalize MD l).
Proof. exact pack_children_later_wins. Qed.
Print Assumptions later_duplicate_wins.

(* stored bytes with several entries whose names normalise to the same name (in any order): the
   later entry wins *)
Theorem later_entry_wins :
  forall (classify : bytes -> capclass) (normalize : bytes -> bytes) (MD : Type)
         (dumps : MD -> bytes) (loads : bytes -> option MD) (enc dec : bytes -> bytes -> bytes),
    (forall m, loads (dumps m) = Some m) ->
    (forall k d, dec k (enc k d) = d) ->
    forall (wk : bytes) (l : list (bytes * (node * MD))) (name : bytes),
      (forall k v, In (k, v) l -> stableb classify (fst v) = true) ->
      exists children,
        unpack_contents classify normalize MD loads dec true true wk
                        (concat_ns (map (entry_of MD dumps enc (Some wk) false) l)) = inr children /\
        sm_get name (view MD children) = last_binding name (normalized_list normalize MD l).
Proof. exact unpack_later_entry_wins. Qed.
Print Assumptions later_entry_wins.

(* packing an immutable directory: a child that is mutable or carries a write cap makes the packer
   raise MustBeDeepImmutableError (no child being an opaque error node, which raises its own error) *)
Theorem immutable_dir_rejects_mutable :
  forall (MD : Type) (dumps : MD -> bytes) (enc : bytes -> bytes -> bytes)
         (m : smap (node * MD)) (k : bytes) (n : node) (md : MD),
    all_nodes MD no_err m -> all_nodes MD shape_ok m ->
    In (k, (n, md)) m -> mutable_or_writecap n = true ->
    pack_normalized MD dumps enc (fresh MD m) None true = inl EDeepImmutable.
Proof. exact immutable_pack_rejects. Qed.
Print Assumptions immutable_dir_rejects_mutable.

(* every node the node maker builds has the shape assumed above *)
Theorem nodemaker_nodes_have_shape :
  forall (classify : bytes -> capclass) (di : bool) (w r : option bytes),
    shape_ok (create_from_cap classify di w r) = true.
Proof. exact cfc_shape_ok. Qed.
Print Assumptions nodemaker_nodes_have_shape.

(* ... and, when uri.py classifies caps coherently (caps_coherent_full: known caps print canonically --
   no trailing space, no alleged prefix -- and re-parse to the same class; validated by the driver, proved
   for uri.py's grammar in C15/C16), every node the node maker builds without error from cap strings
   that have no trailing space and at most one alleged prefix (cap_ok) is stable: "any capability kinds" *)
Theorem nodemaker_nodes_stable :
  forall (classify : bytes -> capclass) (w r : option bytes),
    caps_coherent_full classify -> ocap_ok w -> ocap_ok r ->
    n_err (create_from_cap classify false w r) = None ->
    stableb classify (create_from_cap classify false w r) = true.
Proof. exact cfc_stable. Qed.
Print Assumptions nodemaker_nodes_stable.

(* in general the first child (in name order) that is an error node or not allowed decides the exception *)
Theorem immutable_dir_first_refusal :
  forall (MD : Type) (dumps : MD -> bytes) (enc : bytes -> bytes -> bytes) (m : smap (node * MD)),
    match first_unpackable MD true m with
    | None => exists data, pack_normalized MD dumps enc (fresh MD m) None true = inr data
    | Some (_, (n, _)) =>
      pack_normalized MD dumps enc (fresh MD m) None true
      = inl (match n_err n with Some e => ECap e | None => EDeepImmutable end)
    end.
Proof. exact immutable_pack_refuses. Qed.
Print Assumptions immutable_dir_first_refusal.

(* ---- recorded examples outside the well-formedness predicate ---- *)
(* a cap ending in a space: the node maker accepts it (unknown cap, no error), the packer stores it,
   _unpack_contents strips the space: the child comes back with a different read cap *)
Theorem unpack_pack_trailing_space_refuted :
  exists ro, let n := create_from_cap (classify_tbl []) false None (Some ro) in
             n_err n = None /\ n_ro (reread (classify_tbl []) n) <> n_ro n.
Proof. exists (bytes_of_string "foo "). vm_compute. split; [reflexivity|discriminate]. Qed.
Print Assumptions unpack_pack_trailing_space_refuted.

(* an unknown cap whose body starts with an alleged prefix again: one prefix is lost *)
Theorem unpack_pack_nested_prefix_refuted :
  exists ro, let n := create_from_cap (classify_tbl []) false None (Some ro) in
             n_err n = None /\ n_ro (reread (classify_tbl []) n) <> n_ro n.
Proof. exists (bytes_of_string "ro.ro.foo"). vm_compute. split; [reflexivity|discriminate]. Qed.
Print Assumptions unpack_pack_nested_prefix_refuted.

(* ---- the hypotheses are satisfiable, the predicates are inhabited ---- *)
Example ex_hypotheses_nonvacuous :
  (forall x : bytes, (fun y => y) ((fun y => y) x) = (fun y => y) x) /\
  (forall m, loads_raw (dumps_raw m) = Some m) /\
  (forall k d : bytes, (fun _ x => x) k ((fun _ x : bytes => x) k d) = d).
Proof. repeat split. Qed.

Definition ex_W : bytes := bytes_of_string "URI:SSK:w".
Definition ex_R : bytes := bytes_of_string "URI:SSK-RO:r".
Definition ex_cls := classify_tbl [(ex_W, KWrite false ex_W ex_R); (ex_R, KRead false ex_R);
                                   (bytes_of_string "URI:CHK:c", KImm false (bytes_of_string "URI:CHK:c"))].
Example ex_coherent_nonvacuous : caps_coherent_full ex_cls.
Proof.
  intro s. unfold ex_cls, classify_tbl. cbn [assoc_bytes].
  destruct (list_N_eqb s ex_W); [vm_compute; repeat split; reflexivity|].
  destruct (list_N_eqb s ex_R); [vm_compute; repeat split; reflexivity|].
  destruct (list_N_eqb s (bytes_of_string "URI:CHK:c")); [vm_compute; repeat split; reflexivity|exact I].
Qed.

Example ex_stable_nonvacuous :
  forallb (stableb ex_cls)
          [create_from_cap ex_cls false (Some ex_W) None;
           create_from_cap ex_cls false None (Some ex_R);
           create_from_cap ex_cls false None (Some (bytes_of_string "URI:CHK:c"));
           create_from_cap ex_cls false None (Some (bytes_of_string "lafs://future"));
           create_from_cap ex_cls false (Some (bytes_of_string "future-rw")) (Some (bytes_of_string "ro.future-ro"));
           create_from_cap ex_cls false None (Some (bytes_of_string "imm.future"));
           create_from_cap ex_cls false None None] = true.
Proof. vm_compute. reflexivity. Qed.

(* a concrete round trip computed inside Coq (identity cipher, raw metadata) *)
Example ex_round_trip_nonvacuous :
  let l := [(bytes_of_string "b", (create_from_cap ex_cls false (Some ex_W) None, bytes_of_string "{}"));
            (bytes_of_string "a", (create_from_cap ex_cls false None (Some (bytes_of_string "lafs://future")), bytes_of_string "{""k"": 1}"))] in
  match pack_children (fun x => x) bytes dumps_raw (fun _ d => d) l (Some (bytes_of_string "0123456789abcdef")) false with
  | inr data =>
    match unpack_contents ex_cls (fun x => x) bytes loads_raw (fun _ d => d) true true (bytes_of_string "0123456789abcdef") data with
    | inr children => forallb (fun kc => match sm_get (fst kc) (view bytes children) with
                                         | Some (n, md) => node_eqb n (fst (snd kc)) && list_N_eqb md (snd (snd kc))
                                         | None => false end) l
    | inl _ => false
    end
  | inl _ => false
  end = true.
Proof. vm_compute. reflexivity. Qed.

Example ex_immutable_rejects_nonvacuous :
  pack_normalized bytes dumps_raw (fun _ d => d)
                  (fresh bytes [(bytes_of_string "a", (create_from_cap ex_cls false None (Some ex_R), bytes_of_string "{}"))]) None true
  = inl EDeepImmutable.
Proof. vm_compute. reflexivity. Qed.
