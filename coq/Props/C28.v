(* C28  Storage space reservations are honoured.
   Statements only; each is closed by `exact` of a lemma in Proofs/Space.v.
   Model: Model/Space.v (fileutil.get_disk_stats / get_available_space, StorageServer.get_available_space)
   closed over Model/ImmStore.v (allocate_buckets accounting, allocated_size, release on
   close/abort/timeout/disconnect); hand-written, tied to /repo by harness/props/c28.py.
   [srun cfg dk ops] executes the history [ops] from the empty store on a server configured by
   [cfg] (readonly_storage, reserved_space) whose disk is [dk]: [dk_capacity] bytes free for a
   non-privileged user while the store is empty, closed shares consume their data length, uploads in
   progress the distinct bytes written so far ([used]); statvfs reports floor(free / f_frsize) blocks.
   Container header (12 bytes) and lease records (72 bytes each) are not counted: the code's accounting,
   like the property, is in allocated sizes. *)
From Coq Require Import List NArith ZArith Bool.
From Verif Require Import Model.ImmStore Model.Space Proofs.ImmStoreLib Proofs.ImmStore Proofs.Space.
Import ListNotations.
Local Open Scope N_scope.

(* Over all histories and configurations, on a platform whose disk statistics work: the bytes that
   uploads in progress may still write ([outstanding] = sum of allocated size minus bytes already
   written) never exceed the free space beyond the configured reserve.  Hence no sequence of
   accepted allocations, completed in any order, pushes the disk below reserved_space. *)
Theorem never_over_commit :
  forall (cfg : config) (dk : disk) (ops : list op),
    dk_mode dk = StatOk ->
    let s := fst (srun cfg dk ops) in
    (Z.of_N (outstanding s) <= Z.max 0 (Z.of_N (dk_capacity dk) - Z.of_N (used s) - Z.of_N (cf_reserved cfg)))%Z.
Proof. exact never_over_commit_ok. Qed.
Print Assumptions never_over_commit.

(* Every single allocate call, in any state: what it accepts (number of new shares times the
   allocated size) together with the reservations of all uploads still in progress is at most the
   available space get_available_space() reports, which is at most max(0, free - reserved_space).
   (StatFails: the OS call failed, available space counts as 0.  Platforms without any disk
   statistics API are excluded: there the code accepts everything and logs that the reservation
   cannot be honoured.) *)
Theorem allocation_fits_available_space :
  forall (cfg : config) (dk : disk) (s : store) (si : N) (shs : list N) (size c : N) (x : option N) (al acc : list N),
    snd (sstep cfg dk s (OAlloc si shs size c x)) = RAlloc al acc -> acc <> [] ->
    dk_mode dk <> StatMissing ->
    exists avail, get_available_space cfg dk s = Some avail
      /\ N.of_nat (length acc) * size + allocated_size s <= avail
      /\ (dk_mode dk = StatOk ->
          (Z.of_N avail <= Z.max 0 (Z.of_N (dk_capacity dk) - Z.of_N (used s) - Z.of_N (cf_reserved cfg)))%Z).
Proof. exact alloc_call_fits_ok. Qed.
Print Assumptions allocation_fits_available_space.

(* A read-only server accepts nothing, whatever the sizes (zero included) and whatever the disk:
   every allocate answer in every history has an empty accepted set, and the store stays empty. *)
Theorem readonly_accepts_none :
  forall (cfg : config) (dk : disk) (ops : list op),
    cf_readonly cfg = true ->
    (forall si shs size c av al acc, In (OAlloc si shs size c av, RAlloc al acc) (snd (srun cfg dk ops)) -> acc = [])
    /\ st_slots (fst (srun cfg dk ops)) = []
    /\ allocated_size (fst (srun cfg dk ops)) = 0.
Proof. exact readonly_accepts_none_ok. Qed.
Print Assumptions readonly_accepts_none.

(* Space reserved for an upload is released when it completes or is aborted: close and abort lower
   allocated_size() by exactly the upload's allocated size; the timeout and the loss of the
   uploader's connection by at least that. *)
Theorem release_on_close_abort :
  forall (cfg : config) (dk : disk) (s : store) (k : key) (w : writer),
    get s k = Incoming w ->
    allocated_size (fst (sstep cfg dk s (OClose k (w_id w)))) + w_size w = allocated_size s
    /\ allocated_size (fst (sstep cfg dk s (OAbort k (w_id w)))) + w_size w = allocated_size s
    /\ (forall dt, w_deadline w <= st_now s + dt ->
          allocated_size (fst (sstep cfg dk s (OAdvance dt))) + w_size w <= allocated_size s)
    /\ allocated_size (fst (sstep cfg dk s (ODisconnect (w_canary w)))) + w_size w <= allocated_size s.
Proof. exact release_on_close_abort_ok. Qed.
Print Assumptions release_on_close_abort.

(* ... and not before: no other operation lowers allocated_size(). *)
Theorem reservation_held_until_close_abort :
  forall (cfg : config) (dk : disk) (s : store) (o : op),
    (match o with OClose _ _ | OAbort _ _ | OAdvance _ | ODisconnect _ => False | _ => True end) ->
    allocated_size s <= allocated_size (fst (sstep cfg dk s o)).
Proof. exact reservation_held_ok. Qed.
Print Assumptions reservation_held_until_close_abort.

(* ---- the model computes; hypotheses are satisfiable ---- *)
Definition ex_cfg : config := mkConfig false 100.
Definition ex_disk : disk := mkDisk 400 1 StatOk.      (* 300 bytes beyond the reserve *)
Definition ex_ops : list op :=
  [ OAlloc 0 [0; 1; 2; 3] 100 1 None;       (* three fit, the fourth is refused *)
    OAlloc 1 [0] 1 1 None;                  (* nothing left *)
    OWrite (0, 0) 0 0 [1; 2; 3; 4; 5];      (* consumes 5 bytes of the disk *)
    OAbort (0, 1) 1;                        (* releases 100 *)
    OAlloc 1 [0; 1] 95 1 None;              (* 295 available - 200 in progress = 95: exactly one fits *)
    OClose (0, 0) 0;                        (* the closed share consumes its full 100 bytes *)
    OAlloc 2 [0] 6 2 None;                  (* 200 available - 195 in progress = 5 < 6 *)
    OAlloc 2 [0] 5 2 None ].

Example ex_space_history :
  sobserve_from ex_cfg ex_disk init ex_ops =
  [ (RAlloc [] [0; 1; 2], 300, Some 300); (RAlloc [] [], 300, Some 300); (RWrote false, 300, Some 295);
    (ROk, 200, Some 295); (RAlloc [] [0], 295, Some 295); (ROk, 195, Some 200);
    (RAlloc [] [], 195, Some 200); (RAlloc [] [0], 200, Some 200) ].
Proof. vm_compute. reflexivity. Qed.

Example allocation_fits_nonvacuous :
  exists al acc, snd (sstep ex_cfg ex_disk init (OAlloc 0 [0; 1; 2; 3] 100 1 None)) = RAlloc al acc /\ acc <> []
                 /\ dk_mode ex_disk <> StatMissing.
Proof. exists [], [0; 1; 2]. split; [vm_compute; reflexivity|]. split; discriminate. Qed.

Example release_nonvacuous :
  exists s k w, s = fst (srun ex_cfg ex_disk (firstn 3 ex_ops)) /\ get s k = Incoming w /\ w_size w = 100.
Proof.
  exists (fst (srun ex_cfg ex_disk (firstn 3 ex_ops))), (0, 1), (mkWriter 1 100 [] (zeros 100) 1800 1).
  split; [reflexivity|]. split; [vm_compute; reflexivity|reflexivity].
Qed.

(* a read-only server refuses even empty shares (before the fix in /repo, commit c299a6a, the
   implementation accepted them) *)
Example ex_readonly_zero_size :
  sobserve_from (mkConfig true 0) ex_disk init [OAlloc 0 [0; 1] 0 1 None] = [(RAlloc [] [], 0, Some 0)].
Proof. vm_compute. reflexivity. Qed.

(* without a disk statistics API nothing limits acceptance: the reason for the StatOk hypothesis *)
Example ex_no_statvfs_unlimited :
  sobserve_from ex_cfg (mkDisk 10 1 StatMissing) init [OAlloc 0 [0; 1] 100 1 None] = [(RAlloc [] [0; 1], 200, None)].
Proof. vm_compute. reflexivity. Qed.
