(* C36  Erasure coding recovers from any k blocks.
   Statements only; each is closed by `exact` of a lemma in Proofs/Codec.v.

   zfec (third party C code) is the pair enc/dec; what the wrappers need from it
   is stated as the three hypotheses enc_length_at / enc_block_len_at / mds_at
   (Model/Codec.v), which appear in every round-trip statement below.  They are
   validated against the real zfec by harness/props/c36.py (exhaustively for all
   k-subsets, n <= 7; seeded up to n = 256) -- "zfec is MDS" is a validated
   hypothesis, not a theorem.  zfec itself only supports n <= 256; nothing in the
   wrappers depends on that bound, so the theorems do not carry it. *)
From Coq Require Import List NArith Bool String.
From Verif Require Import Lib.Hex Gen.ImmConsts Model.Codec Proofs.Codec.
Import ListNotations.
Local Open Scope N_scope.

(* Immutable files: Encoder._encode_segment (+ _gather_data + CRSEncoder.encode) followed by
   DownloadNode._decode_blocks (+ CRSDecoder.decode) on ANY k distinct blocks in ANY order
   gives back the segment: full segments (is_tail = false, length a multiple of k) and the
   padded tail segment (is_tail = true, any length >= 1).  No assertion of either side fires
   (the results are Some), n blocks come out, each of the block size. *)
Theorem wrapper_roundtrip_any_k :
  forall (enc : N -> N -> list (list N) -> list (list N)) (dec : N -> N -> list (N * list N) -> list (list N)) (k n : N),
    1 <= k -> k <= n ->
    enc_length_at enc k n -> enc_block_len_at enc k n -> mds_at enc dec k n ->
    forall (is_tail : bool) (seg : list N) (ids : list N),
      1 <= nlen seg -> (is_tail = false -> nlen seg mod k = 0) -> valid_ids k n ids ->
      exists blocks,
        encode_segment enc k n is_tail seg = Some blocks /\
        nlen blocks = n /\ uniform (div_ceil (nlen seg) k) blocks /\
        decode_segment dec k n is_tail (nlen seg) (pick ids blocks) = Some seg.
Proof. exact wrapper_roundtrip_any_k_ok. Qed.
Print Assumptions wrapper_roundtrip_any_k.

(* Mutable files: Publish._encode_segment pads per piece and hands the codec the unpadded
   size; Retrieve._decode_blocks decodes like the immutable tail. *)
Theorem mutable_roundtrip_any_k :
  forall (enc : N -> N -> list (list N) -> list (list N)) (dec : N -> N -> list (N * list N) -> list (list N)) (k n : N),
    1 <= k -> k <= n ->
    enc_length_at enc k n -> enc_block_len_at enc k n -> mds_at enc dec k n ->
    forall (seg : list N) (ids : list N),
      1 <= nlen seg -> valid_ids k n ids ->
      exists blocks,
        mutable_encode_segment enc k n seg = Some blocks /\
        nlen blocks = n /\ uniform (div_ceil (nlen seg) k) blocks /\
        decode_segment dec k n true (nlen seg) (pick ids blocks) = Some seg.
Proof. exact mutable_roundtrip_any_k_ok. Qed.
Print Assumptions mutable_roundtrip_any_k.

Theorem mutable_pieces_eq :
  forall k seg, 1 <= k -> 1 <= nlen seg ->
    mutable_pieces k (div_ceil (nlen seg) k) seg
    = split_pieces (div_ceil (nlen seg) k) (pad_segment (k * div_ceil (nlen seg) k) seg).
Proof. exact mutable_pieces_eq_ok. Qed.
Print Assumptions mutable_pieces_eq.

(* What _gather_data hands to CRSEncoder.encode: exactly k pieces, each of the codec's share
   size, whose concatenation is the segment followed by zero bytes. *)
Theorem encode_pieces_shape :
  forall k is_tail seg,
    1 <= k -> 1 <= nlen seg -> (is_tail = false -> nlen seg mod k = 0) ->
    exists pieces,
      gather_data k (crs_enc_share_size (if is_tail then next_multiple (nlen seg) k else nlen seg) k) is_tail seg = Some pieces /\
      nlen pieces = k /\
      uniform (crs_enc_share_size (if is_tail then next_multiple (nlen seg) k else nlen seg) k) pieces /\
      List.concat pieces = pad_segment (k * div_ceil (nlen seg) k) seg /\
      firstn (N.to_nat (nlen seg)) (List.concat pieces) = seg.
Proof. exact encode_pieces_shape_ok. Qed.
Print Assumptions encode_pieces_shape.

(* Encoder and decoder compute the same block size from the same data_size ... *)
Theorem share_sizes_agree :
  forall data_size k, crs_enc_share_size data_size k = crs_dec_share_size data_size k.
Proof. exact share_sizes_agree_ok. Qed.
Print Assumptions share_sizes_agree.

(* ... and when data_size is a multiple of k (the only way the callers use the codec) the k
   blocks hold exactly data_size bytes. *)
Theorem share_size_of_multiple :
  forall data_size k, 1 <= k -> data_size mod k = 0 ->
    crs_enc_share_size data_size k = data_size / k /\
    k * crs_enc_share_size data_size k = data_size /\
    crs_enc_last_share_padding data_size k = pad_size (data_size / k) k.
Proof. exact share_size_of_multiple_ok. Qed.
Print Assumptions share_size_of_multiple.

Theorem padded_tail_multiple :
  forall k tail, 1 <= k ->
    next_multiple tail k mod k = 0 /\ tail <= next_multiple tail k /\ next_multiple tail k < tail + k.
Proof. exact padded_tail_multiple_ok. Qed.
Print Assumptions padded_tail_multiple.

Theorem next_multiple_id :
  forall k L, 1 <= k -> L mod k = 0 -> next_multiple L k = L.
Proof. exact next_multiple_id_ok. Qed.
Print Assumptions next_multiple_id.

(* The downloader's own block-size arithmetic (_calculate_sizes) agrees with both codecs. *)
Theorem tail_block_size_agrees :
  forall k file_size segment_size, 1 <= k ->
    dl_tail_block_size file_size segment_size k = crs_enc_share_size (padded_tail_size file_size segment_size k) k /\
    dl_tail_block_size file_size segment_size k = crs_dec_share_size (padded_tail_size file_size segment_size k) k /\
    dl_tail_block_size file_size segment_size k = div_ceil (tail_size file_size segment_size) k.
Proof. exact tail_block_size_agrees_ok. Qed.
Print Assumptions tail_block_size_agrees.

Theorem full_block_size_agrees :
  forall k segment_size, 1 <= k -> segment_size mod k = 0 ->
    dl_block_size segment_size k = crs_enc_share_size segment_size k /\
    dl_block_size segment_size k = crs_dec_share_size segment_size k.
Proof. exact full_block_size_agrees_ok. Qed.
Print Assumptions full_block_size_agrees.

(* Hand-modelled functions: a change to any of them breaks this obligation. *)
Theorem pins :
  (pin_CRSEncoder_set_params, pin_CRSEncoder_encode, pin_CRSDecoder_set_params, pin_CRSDecoder_decode,
   pin_Encoder_gather_data, pin_DownloadNode_decode_blocks)
  = ("0a1295e05666d233", "5739b9509a8755c2", "e20e28cfa9f63af6", "3d198c4c0649b057",
     "5470046c97d918dc", "d4edd272955a07d9")%string.
Proof. exact pins_ok. Qed.
Print Assumptions pins.

(* The hypotheses are satisfiable: the (2,3) single-parity code (block 2 = block 0 XOR block 1)
   and, for k = 1 and every n >= 1, replication (which is what zfec computes for k = 1). *)
Example mds_hypotheses_xor_nonvacuous :
  exists enc dec, enc_length_at enc 2 3 /\ enc_block_len_at enc 2 3 /\ mds_at enc dec 2 3.
Proof. exact hypotheses_satisfiable_ok. Qed.

Example mds_hypotheses_replication_nonvacuous :
  forall n, 1 <= n -> enc_length_at enc_repl 1 n /\ enc_block_len_at enc_repl 1 n /\ mds_at enc_repl dec_repl 1 n.
Proof. exact repl_code_ok. Qed.

(* A padded tail (5 bytes, k = 2: one zero byte of padding) through the whole model, from
   blocks 2 and 0 presented in that order. *)
Example ex_roundtrip_xor_tail :
  match encode_segment enc_xor 2 3 true [1; 2; 3; 4; 5] with
  | Some blocks => blocks = [[1; 2; 3]; [4; 5; 0]; [5; 7; 3]] /\
                   decode_segment dec_xor 2 3 true 5 (pick [2; 0] blocks) = Some [1; 2; 3; 4; 5]
  | None => False
  end.
Proof. vm_compute. split; reflexivity. Qed.

Example ex_sizes :
  (crs_enc_share_size 10 3, crs_enc_last_share_padding 10 3, crs_dec_share_size 10 3,
   next_multiple 10 3, pad_size 10 3, div_ceil 12 3) = (4, 2, 4, 12, 2, 4).
Proof. vm_compute. reflexivity. Qed.

(* Companion result (mathcomp, Proofs/RS.v; not used by the harness): a Reed-Solomon style
   evaluation code over ANY field is MDS -- for messages m1 m2 of k symbols (coefficient lists of
   polynomials of degree < k) and any k pairwise distinct evaluation points among the code's
   points, equal symbols at those k points imply equal message polynomials.  This gives a
   non-trivial family of instances of the any-k-of-N hypothesis of wrapper_roundtrip_any_k
   (zfec's code is of this family over GF(2^8); that zfec implements it correctly stays a
   hypothesis validated by the driver).  Statement (Proofs/RS.v):
     forall (F : fieldType) k (m1 m2 points chosen : seq F),
       size m1 = k -> size m2 = k -> uniq chosen -> size chosen = k ->
       {subset chosen <= points} ->
       {in chosen, forall x, (Poly m1).[x] = (Poly m2).[x]} -> Poly m1 = Poly m2. *)
Require Verif.Proofs.RS.
Theorem reed_solomon_evaluation_code_is_mds : Verif.Proofs.RS.rs_mds_statement.
Proof. exact Verif.Proofs.RS.rs_mds. Qed.
Print Assumptions reed_solomon_evaluation_code_is_mds.
