(* C14  Mutable check and repair preserve the newest content.
   Model/MutCheck.v: the checker's health rule and the repairer's decision over the
   ServerMap model (Model/ServerMap.v). *)
From Coq Require Import List NArith Bool.
From Verif Require Import Model.ServerMap Model.MutCheck Proofs.ServerMap Proofs.MutCheck.
Import ListNotations.
Local Open Scope N_scope.

(* healthy exactly when a single version is present at all, it is recoverable, and at
   least N distinct shares of it were located *)
Theorem healthy_iff :
  forall (nOf : version -> N) m,
    healthy nOf m = true <->
    exists v, versions m = [v] /\ In v (recoverable_versions m) /\ nOf v <= count_shares m v.
Proof. exact healthy_iff_ok. Qed.
Print Assumptions healthy_iff.

(* repair without force never goes ahead when a newer unrecoverable version is known *)
Theorem repair_refuses_newer_unrecoverable :
  forall m wk, unrecoverable_newer_versions m <> [] ->
    repair_decision m false wk = Unsuccessful \/ repair_decision m false wk = MustForce.
Proof. exact repair_refuses_newer_unrecoverable_ok. Qed.
Print Assumptions repair_refuses_newer_unrecoverable.

(* ... nor when two recoverable versions share a sequence number *)
Theorem repair_refuses_equal_seqnum_merge :
  forall m wk, needs_merge m = true ->
    repair_decision m false wk = Unsuccessful \/ repair_decision m false wk = MustForce.
Proof. exact repair_refuses_equal_seqnum_merge_ok. Qed.
Print Assumptions repair_refuses_equal_seqnum_merge.

(* when repair republishes, it republishes the best recoverable version, needs the
   write key, and either was forced or nothing newer/competing exists *)
Theorem repair_republishes_best :
  forall m force wk v, repair_decision m force wk = Republish v ->
    best_recoverable_version m = Some v /\ wk = true /\
    (force = true \/ (unrecoverable_newer_versions m = [] /\ needs_merge m = false)).
Proof. exact repair_republishes_best_ok. Qed.
Print Assumptions repair_republishes_best.

(* the republished version (new_seqnum, placed on >= k distinct share numbers) is the
   best recoverable version afterwards, whatever older or competing shares remain *)
Theorem repair_result_is_best :
  forall m v' placement,
    seq v' = new_seqnum m -> NoDup (map snd placement) -> 1 <= vk v' ->
    vk v' <= N.of_nat (length placement) ->
    best_recoverable_version (published m v' placement) = Some v'.
Proof. exact repair_result_is_best_ok. Qed.
Print Assumptions repair_result_is_best.

Definition ex_v5 := {| seq := 5; vtag := 9; vk := 2 |}.
Definition ex_v6 := {| seq := 6; vtag := 1; vk := 2 |}.
Definition ex_healthy : servermap :=
  [ {| srv := 1; shnum := 0; ver := ex_v5 |}; {| srv := 2; shnum := 1; ver := ex_v5 |}; {| srv := 3; shnum := 2; ver := ex_v5 |} ].
Example ex_health :
  healthy (fun _ => 3) ex_healthy = true /\
  healthy (fun _ => 4) ex_healthy = false /\
  healthy (fun _ => 3) ({| srv := 4; shnum := 0; ver := ex_v6 |} :: ex_healthy) = false /\
  repair_decision ({| srv := 4; shnum := 0; ver := ex_v6 |} :: ex_healthy) false true = MustForce /\
  repair_decision ({| srv := 4; shnum := 0; ver := ex_v6 |} :: ex_healthy) true true = Republish ex_v5 /\
  best_recoverable_version (published ({| srv := 4; shnum := 0; ver := ex_v6 |} :: ex_healthy)
                                      {| seq := 7; vtag := 3; vk := 2 |} [(1, 0); (2, 1); (3, 2)])
  = Some {| seq := 7; vtag := 3; vk := 2 |}.
Proof. vm_compute. repeat split. Qed.

From Verif Require Import Gen.MutPins.
From Coq Require Import String.
(* Fingerprints (AST, comments and docstrings excluded) of the source functions this model
   transcribes by hand, regenerated from /repo on every run (harness/translate/mutpins.py):
   the model was written for exactly these versions of them. *)
Theorem model_pins_current :
  pins_C14 =
  [("servermap_needs_merge", "b8235ef237192085")%string;
   ("repairer_got_full_servermap", "e33495e3b72e6d99")%string;
   ("repairer_start", "255ca0bda9aac3fb")%string;
   ("checker_make_checker_results", "e666cc79a604f872")%string;
   ("checker_maybe_repair", "1738b2708ce2994d")%string].
Proof. reflexivity. Qed.
Print Assumptions model_pins_current.
