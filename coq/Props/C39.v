(* C39  SFTP writes are never lost to the background download.
   src/allmydata/frontends/sftpd.py, class OverwriteableFileConsumer, modelled
   statement by statement in Model/Overwrite.v.  Statements only; each is closed
   by `exact` of a lemma in Proofs/OverwriteRun.v.

   Quantification.  [g] is the content of file holes (arbitrary: the real
   EncryptedTemporaryFile leaves keystream garbage there), [O] the original
   contents, [d0] the size the consumer is created with (d0 <= |O|: the downloader
   delivers at least the announced bytes), [l] ANY list of operations:
     Chunk n          the downloader calls write() with the next n bytes of O
                      (any chunking, delivered at any point of the history),
     Overwrite/SetSize/Read   the client's requests, Turn a turn of the eventual
     queue, Finish = download_done("download finished"), Close.
   [finish_ok] only says that Finish does not occur before d0 bytes were
   delivered.  [run] executes the history on the model and keeps two ghost
   values: [ref c], the reference (client operations applied in order to
   O[0,d0)), and [exps c], for every read request its id paired with
   [ref_read] of the reference AT THE TIME THE REQUEST WAS ISSUED
   (read_linearisation_point states exactly that).

   The merge loop of write() is modelled with the line repaired in /repo
   (fix: "end = max(end, end1)"); ex_unrepaired_merge_shrinks records what the
   former line computed on the witness history. *)
From Coq Require Import List NArith Bool String.
From Verif Require Import Lib.Hex Model.Overwrite Proofs.OverwriteLists Proofs.Overwrite Proofs.OverwriteRun.
Import ListNotations.
Local Open Scope N_scope.

(* The invariant I1-I3 of DESIGN.md A.4 holds in every reachable state:
   the temporary file agrees with the reference at every offset that is covered
   (downloaded, or overwritten and still on the heap) or lies at/after
   download_size, and the reference still equals the original wherever the
   download has yet to write. *)
Theorem file_refines_reference :
  forall (g : N -> N) (O : list N) (d0 : N), d0 <= len O ->
  forall (l : list op) (c : cfg),
  finish_ok g O d0 l = true -> run g O d0 l = Some c ->
  let s := st c in
  cur s = len (ref c) /\ dsize s <= cur s /\ dsize s <= d0 /\ len (f s) <= cur s /\
  (forall i, i < cur s -> covered s i -> get (f s) i = get (ref c) i) /\
  (forall i, dsize s <= i -> i < cur s -> get (f s) i = get (ref c) i) /\
  (forall i, i < dsize s -> ~ covered s i -> get (ref c) i = get O i).
Proof. exact file_refines_reference_ok. Qed.
Print Assumptions file_refines_reference.

(* Every completed read returned what the reference held when the read was
   issued (EOF exactly when the offset was at/after the reference's end), unless
   the consumer was closed before the read completed, in which case it failed.
   Hypothesis [contract_ok]: the contract in the docstring of
   OverwriteableFileConsumer.read - no overwrite / set_current_size while a read
   is outstanding.  Without it the statement is false: reads_need_contract_refuted. *)
Theorem reads_return_reference :
  forall (g : N -> N) (O : list N) (d0 : N), d0 <= len O ->
  forall (l : list op) (c : cfg),
  finish_ok g O d0 l = true -> contract_ok g O d0 l = true ->
  run g O d0 l = Some c ->
  forall id res, In (id, res) (outs c) ->
    In (id, res) (exps c) \/ (res = RFail /\ closed (st c) = true).
Proof. exact reads_return_reference_ok. Qed.
Print Assumptions reads_return_reference.

(* what [exps] contains: the reference answer at the time of the request *)
Theorem read_linearisation_point :
  forall (g : N -> N) (O : list N) (d0 : N) pre off length later cp c,
  run g O d0 pre = Some cp ->
  run g O d0 (pre ++ Read off length :: later) = Some c ->
  In (nid cp, ref_read (ref cp) off length) (exps c).
Proof. exact read_expectation_ok. Qed.
Print Assumptions read_linearisation_point.

(* request ids are unique, so the entry of a request in [exps] is determined *)
Theorem read_ids_unique :
  forall (g : N -> N) (O : list N) (d0 : N) (l : list op) (c : cfg),
  run g O d0 l = Some c ->
  forall id e1 e2, In (id, e1) (exps c) -> In (id, e2) (exps c) -> e1 = e2.
Proof. exact read_ids_unique_ok. Qed.
Print Assumptions read_ids_unique.

(* Client writes win: after overwrite(off, data), whatever the download delivers
   later (any chunks, queue turns, completion, reads) the file still holds data
   at [off, off+|data|). *)
Theorem client_writes_win :
  forall (g : N -> N) (O : list N) (d0 : N), d0 <= len O ->
  forall pre off data later cp c,
  finish_ok g O d0 (pre ++ Overwrite off data :: later) = true ->
  forallb download_side later = true ->
  run g O d0 pre = Some cp -> closed (st cp) = false ->
  run g O d0 (pre ++ Overwrite off data :: later) = Some c ->
  forall k, k < len data -> get (f (st c)) (off + k) = get data k.
Proof. exact client_writes_win_ok. Qed.
Print Assumptions client_writes_win.

(* Once the download is done (done_status set: what when_done() waits for before
   the file is uploaded) the temporary file IS the reference, length included. *)
Theorem final_contents :
  forall (g : N -> N) (O : list N) (d0 : N), d0 <= len O ->
  forall (l : list op) (c : cfg),
  finish_ok g O d0 l = true -> run g O d0 l = Some c ->
  done (st c) = true -> closed (st c) = false -> f (st c) = ref c.
Proof. exact final_contents_ok. Qed.
Print Assumptions final_contents.

(* the model never gets stuck: the fuel of the write loop always suffices *)
Theorem run_total :
  forall (g : N -> N) (O : list N) (d0 : N) (l : list op), exists c, run g O d0 l = Some c.
Proof. intros. apply run_from_total. Qed.
Print Assumptions run_total.

(* ---------- non-vacuity and recorded witnesses ---------- *)
Definition exO : list N := unhex "4142434445464748494a4b4c4d4e4f5051525354"%string.   (* "ABCDEFGHIJKLMNOPQRST" *)
Definition xs (n : nat) : list N := repeat 120 n.                               (* "x"... *)
Definition ys (n : nat) : list N := repeat 121 n.                               (* "y"... *)

(* hypotheses satisfiable on a history with overlapping writes, a waiting read,
   a truncation and an extension; the read that waited returns the reference *)
Definition ex_hist : list op :=
  [Overwrite 0 (xs 10); Overwrite 2 (ys 3); Read 0 12; Chunk 7; Turn; Chunk 5; Turn;
   SetSize 15; SetSize 18; Chunk 100; Finish; Turn; Read 10 100].

Example ex_hypotheses_nonvacuous :
  20 <= len exO /\ finish_ok zero_hole exO 20 ex_hist = true /\ contract_ok zero_hole exO 20 ex_hist = true.
Proof. vm_compute. repeat split; discriminate. Qed.

Example ex_history_result :
  match run zero_hole exO 20 ex_hist with
  | Some c => outs c = [(0, RData (unhex "78787979797878787878"%string ++ unhex "4b4c"%string)); (1, RData (unhex "4b4c4d4e4f"%string ++ [0; 0; 0]))]
              /\ f (st c) = unhex "787879797978787878784b4c4d4e4f"%string ++ [0; 0; 0]
              /\ f (st c) = ref c /\ done (st c) = true
  | None => False
  end.
Proof. vm_compute. repeat split. Qed.

(* the history of the repaired defect: write [0,10), then [2,5), then the download *)
Example ex_overlapping_writes_survive :
  match run zero_hole exO 20 [Overwrite 0 (xs 10); Overwrite 2 (ys 3); Chunk 20] with
  | Some c => f (st c) = unhex "787879797978787878784b4c4d4e4f5051525354"%string
  | None => False
  end.
Proof. vm_compute. reflexivity. Qed.

(* before the repair the merge of (0,10) with (2,5) ended at 5, so the download
   resumed at offset 5 and replaced the client's bytes [5,10) *)
Example ex_unrepaired_merge_shrinks :
  merge_unrepaired 10 [(2, 5)] = (5, []) /\ merge 10 [(2, 5)] = (10, []).
Proof. vm_compute. split; reflexivity. Qed.

(* Without the contract the read theorem fails: a write issued after a read that
   is still waiting for the download shows up in that read's result.  This is the
   situation GeneralSFTPFile.readChunk creates (it does not hold its request
   queue until the read completes); recorded as a known finding. *)
Example reads_need_contract_refuted :
  exists l c id res,
    finish_ok zero_hole exO 20 l = true /\ contract_ok zero_hole exO 20 l = false /\
    run zero_hole exO 20 l = Some c /\ closed (st c) = false /\
    In (id, res) (outs c) /\ ~ In (id, res) (exps c).
Proof.
  exists [Read 0 10; Overwrite 0 (xs 4); Chunk 20; Turn].
  eexists. exists 0, (RData (unhex "787878784546"%string ++ unhex "4748494a"%string)).
  vm_compute. repeat split; try reflexivity.
  - left. reflexivity.
  - intros [H | []]. discriminate.
Qed.
Print Assumptions reads_need_contract_refuted.
