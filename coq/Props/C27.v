(* C27  Share crawler covers every bucket each cycle.
   Statements only; proofs are in Proofs/Crawler.v, Proofs/CrawlerFinal.v.

   Model/Crawler.v transcribes ShareCrawler.start_slice / start_current_prefix /
   process_prefixdir / save_state / load_state.  A run is a list of slices; each
   slice has an arbitrary list of answers to the "time slice used up?" test
   (asked after every bucket and after every prefix directory) and optionally a
   kill point (the process dies after k events of the slice and is restarted
   from the last saved state).  `prefixes` is the table regenerated from
   ShareCrawler.__init__ on every run (Gen/CrawlConsts.v).

   Hypotheses, stated in wf_dirs: the set of bucket directories is fixed for the
   run; one listing per prefix directory; no name twice in a listing; every
   bucket name begins with the name of its prefix directory.  The last one is
   needed (cycle_covers_all_needs_layout). *)
From Coq Require Import List NArith Bool Arith String.
From Verif Require Import Gen.CrawlConsts Model.Crawler Proofs.Crawler Proofs.CrawlerFinal.
Import ListNotations.

(* Whenever finished_cycle(c) is called, process_bucket(c, ., ., b) has been
   called before it for every bucket b, whatever the interruptions and kills. *)
Theorem cycle_covers_all :
  forall dirs specs tr m pre c post,
    wf_dirs prefixes dirs ->
    run dirs (load init_pstate) specs = (tr, m) ->
    tr = pre ++ EFinished c :: post ->
    forall i b, In b (nth i dirs []) -> In (EProc c i b) pre.
Proof. exact covers_all_ok. Qed.
Print Assumptions cycle_covers_all.

(* The bucket set may change while the crawler is idle between two cycles
   (uploads, deletions): after any earlier epochs with other directory
   contents, run by the same crawler object (its one-entry listing cache is
   carried along) or by restarted ones, a cycle that finishes in the current
   epoch has processed every bucket of the current contents. *)
Theorem cycle_covers_all_epochs :
  forall eps dirs specs tr1 m1 tr2 m2 pre c post,
    (forall e, In e eps -> wf_dirs prefixes (fst e)) -> wf_dirs prefixes dirs ->
    epochs_end_idle (load init_pstate) eps ->
    run_epochs (load init_pstate) eps = (tr1, m1) ->
    run dirs m1 specs = (tr2, m2) ->
    tr2 = pre ++ EFinished c :: post ->
    forall i b, In b (nth i dirs []) -> In (EProc c i b) pre.
Proof. exact covers_all_epochs_ok. Qed.
Print Assumptions cycle_covers_all_epochs.

(* Without kills no process_bucket call is repeated, only existing buckets are
   processed, and every bucket of a finished cycle was processed exactly once
   in that cycle. *)
Theorem exactly_once_without_kill :
  forall dirs specs tr m,
    wf_dirs prefixes dirs ->
    (forall s, In s specs -> sl_kill s = None) ->
    run dirs (load init_pstate) specs = (tr, m) ->
    (forall c i b, count_occ event_eq_dec tr (EProc c i b) <= 1) /\
    (forall c i b, In (EProc c i b) tr -> In b (nth i dirs [])) /\
    (forall c, In (EFinished c) tr -> forall i b, In b (nth i dirs []) ->
       count_occ event_eq_dec tr (EProc c i b) = 1) /\
    finished_cycles tr = map N.of_nat (seq 0 (N.to_nat (completed_cycles (ms_p m)))).
Proof. exact exactly_once_ok. Qed.
Print Assumptions exactly_once_without_kill.

(* Cycle numbers: the numbers handed to finished_cycle start at 0 and each is
   its predecessor or the predecessor plus one (a repetition needs a kill
   between finished_cycle and save_state); the completed-cycle count in the
   saved states starts at 0, grows by at most one per save and ends at the
   count of the final state. *)
Theorem cycle_numbers_increment :
  forall dirs specs tr m,
    wf_dirs prefixes dirs ->
    run dirs (load init_pstate) specs = (tr, m) ->
    cycle_numbers_ok (finished_cycles tr) /\
    steps_by_0_or_1 0 (map completed_cycles (saved_states tr)) /\
    last_or (map completed_cycles (saved_states tr)) 0 = completed_cycles (ms_p m).
Proof. exact cycle_numbers_ok_ok. Qed.
Print Assumptions cycle_numbers_increment.

(* Without kills the finished cycles are exactly 0, 1, ..., n-1. *)
Theorem cycle_numbers_increment_without_kill :
  forall dirs specs tr m,
    wf_dirs prefixes dirs ->
    (forall s, In s specs -> sl_kill s = None) ->
    run dirs (load init_pstate) specs = (tr, m) ->
    finished_cycles tr = map N.of_nat (seq 0 (N.to_nat (completed_cycles (ms_p m)))).
Proof. exact cycle_numbers_without_kill_ok. Qed.
Print Assumptions cycle_numbers_increment_without_kill.

(* Restarts.  Hypothesis about the file system, stated in Model/Crawler.v
   (torn_save): save_state writes a temporary file and renames it over the state
   file, and the rename is atomic, so a process that dies or runs out of disk
   space inside save_state leaves the previous or the new state (the driver
   injects crashes after 0, half and all bytes of the write and checks exactly
   this on the real code).  Under it a crash inside save_state is one of the
   kill points of the model, and a restarted crawler starts from the state the
   slice began with or from a state written during the slice, never from
   scratch; cycle_numbers_increment then says the completed-cycle count never
   goes back. *)
Theorem restart_resumes_from_a_saved_state :
  forall dirs m s evs m' k,
    sl_kill s = Some k -> do_slice dirs m s = (evs, m') ->
    m' = load (ms_p m) \/ exists p, In (ESave p) evs /\ m' = load p.
Proof. exact restart_state_ok. Qed.
Print Assumptions restart_resumes_from_a_saved_state.

Theorem crash_inside_save_state_is_a_kill_point :
  forall dirs m ticks k t evs m',
    do_slice dirs m (mk_slice ticks (crash_in_save k t)) = (evs, m') ->
    m' = load (ms_p m) \/ exists p, In (ESave p) evs /\ m' = load p.
Proof. exact crash_in_save_ok. Qed.
Print Assumptions crash_inside_save_state_is_a_kill_point.

(* The regenerated prefix table is what the proofs need: strictly increasing,
   2**prefix_bits names. *)
Theorem prefix_table_sorted : Sorted.StronglySorted CrawlerOrder.nlt prefixes.
Proof. exact prefixes_sorted_ok. Qed.
Print Assumptions prefix_table_sorted.

Theorem prefix_table_size : List.length prefixes = 2 ^ prefix_bits.
Proof. exact prefixes_count_ok. Qed.
Print Assumptions prefix_table_size.

(* Fingerprints of the source functions the model was written for. *)
Theorem crawler_pins :
  (pin_crawler_init, pin_crawler_load_state, pin_crawler_save_state, pin_crawler_start_slice,
   pin_crawler_start_current_prefix, pin_crawler_process_prefixdir,
   pin_crawler_serializer_save, pin_crawler_serializer_load, pin_crawler_dump_json_to_file, pin_fileutil_move_into_place)
  = ("b6e7496ea0e4704b", "607a50e7d677f555", "ae0364c91a284800", "44afc06d09dceaf9",
     "575847e737b9edfe", "1443de8d6466311a",
     "e5476169c0fdb179", "33f12c289e12c608", "20869b24a707cdbc", "184ed20bb14167b5")%string.
Proof. reflexivity. Qed.
Print Assumptions crawler_pins.

(* The layout hypothesis cannot be dropped: a bucket directory sitting in the
   wrong prefix directory is skipped by an uninterrupted, never-killed crawl. *)
Theorem cycle_covers_all_needs_layout :
  exists dirs specs tr m pre c post i b,
    run dirs (load init_pstate) specs = (tr, m) /\
    (forall s, In s specs -> sl_kill s = None) /\
    tr = pre ++ EFinished c :: post /\
    In b (nth i dirs []) /\
    ~ In (EProc c i b) pre.
Proof. exact misplaced_bucket_is_skipped. Qed.
Print Assumptions cycle_covers_all_needs_layout.

(* Hypotheses are satisfiable and the conclusions are not vacuous: a layout
   with buckets in three prefix directories, interrupted once and killed once,
   finishes cycle 0. *)
Example ex_layout_nonvacuous : wf_dirs prefixes ex_dirs.
Proof. exact ex_dirs_wf. Qed.

Example ex_run_nonvacuous :
  map (fun e => match e with EProc c i b => Some (c, i, b) | _ => None end)
      (filter is_proc (fst (run ex_dirs (load init_pstate) ex_specs)))
  = [Some (0%N, 0, nm "22aaaa"); Some (0%N, 0, nm "22bbbb");
     Some (0%N, 0, nm "22bbbb"); Some (0%N, 1, nm "23cccc"); Some (0%N, 1023, nm "zzdddd")]
  /\ finished_cycles (fst (run ex_dirs (load init_pstate) ex_specs)) = [0%N].
Proof. exact ex_run_trace. Qed.
