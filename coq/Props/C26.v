(* C26  Garbage collection deletes exactly the expired shares.
   Statements only; proofs are in Proofs/Expirer.v (and Proofs/Crawler*.v for the
   crawl).

   Model/Expirer.v transcribes LeaseCheckingCrawler.process_share/process_bucket
   (after the repair of the age rule, /repo commit "fix: lease expirer age mode
   without override ..."), LeaseInfo.get_age / get_grant_renew_time_time /
   get_expiration_time, cancel_lease of both containers and the expire.* option
   handling.  `expired_by_rule` is the property's rule written on its own:
   age mode: renewal + duration (or override) < now; cutoff mode: renewal <
   cutoff; `lease_expired` is the coded test.

   Hypotheses that appear in the statements, and why:
   * the leases of a share carry pairwise distinct cancel secrets: cancel_lease
     removes every lease with a matching secret, so a shared secret lets an
     expired lease take an unexpired one with it
     (deleted_implies_all_expired_needs_distinct_secrets, a recorded finding);
   * a share has at least one lease for "is deleted": a share without leases is
     never unlinked, only counted as recovered (zero_lease_share_not_deleted, a
     recorded finding);
   * the clock never goes back below the time at which the leases were found
     expired (age mode compares with the current time). *)
From Coq Require Import List ZArith NArith Bool Arith String.
From Verif Require Import Gen.CrawlConsts Model.Crawler Model.Expirer Proofs.Expirer.
Import ListNotations.
Local Open Scope Z_scope.

(* With expiration disabled no share file changes: not in one process_share
   call, not in a bucket, not over any crawl. *)
Theorem disabled_never_deletes :
  forall pol, p_enabled pol = false ->
    (forall now t ls, sr_state (process_share pol now t ls) = Present ls /\
                      sr_raised (process_share pol now t ls) = false) /\
    (forall now bk, process_bucket pol now bk = (bk, false)) /\
    (forall clock tr k i b bk, replay pol clock k i b tr bk = bk).
Proof. exact disabled_never_deletes_ok. Qed.
Print Assumptions disabled_never_deletes.

(* The coded test is the property's rule plus the share-type filter. *)
Theorem coded_test_is_the_rule :
  forall pol now t l,
    lease_expired pol now t l = true <-> type_enabled pol t = true /\ expired_by_rule (p_mode pol) now l.
Proof. exact lease_expired_rule. Qed.
Print Assumptions coded_test_is_the_rule.

(* A share is unlinked only if expiration is enabled, its type is enabled, and
   every lease on it is expired under the configured policy. *)
Theorem deleted_implies_all_expired :
  forall pol now t ls,
    NoDup (map l_cancel ls) ->
    sr_state (process_share pol now t ls) = Gone ->
    p_enabled pol = true /\ type_enabled pol t = true /\ ls <> [] /\
    forall l, In l ls -> expired_by_rule (p_mode pol) now l.
Proof. exact deleted_implies_all_expired_ok. Qed.
Print Assumptions deleted_implies_all_expired.

(* Conversely such a share is unlinked by the call, which does not raise. *)
Theorem all_expired_implies_deleted :
  forall pol now t ls,
    p_enabled pol = true -> type_enabled pol t = true -> ls <> [] -> NoDup (map l_cancel ls) ->
    (forall l, In l ls -> expired_by_rule (p_mode pol) now l) ->
    sr_state (process_share pol now t ls) = Gone /\ sr_raised (process_share pol now t ls) = false.
Proof. exact all_expired_implies_deleted_ok. Qed.
Print Assumptions all_expired_implies_deleted.

(* A share that stays keeps exactly its unexpired leases, in order. *)
Theorem surviving_share_keeps_unexpired_leases :
  forall pol now t ls rest,
    NoDup (map l_cancel ls) -> p_enabled pol = true ->
    sr_state (process_share pol now t ls) = Present rest ->
    rest = filter (fun l => negb (lease_expired pol now t l)) ls.
Proof. exact kept_leases_ok. Qed.
Print Assumptions surviving_share_keeps_unexpired_leases.

(* Within one crawl cycle (C27's model of the crawler, any interruptions and
   kills): a share whose leases are all expired at time now0 is gone by the
   time finished_cycle is called, if the clock never shows less than now0. *)
Theorem all_expired_implies_deleted_in_cycle :
  forall dirs specs tr m pre c post i b pol clock now0 bk j n t ls,
    wf_dirs prefixes dirs ->
    run dirs (load init_pstate) specs = (tr, m) ->
    tr = pre ++ EFinished c :: post ->
    In b (nth i dirs []) ->
    p_enabled pol = true -> type_enabled pol t = true ->
    (forall k, now0 <= clock k) ->
    bucket_ok bk ->
    nth_error bk j = Some (n, t, Present ls) ->
    ls <> [] ->
    (forall l, In l ls -> expired_by_rule (p_mode pol) now0 l) ->
    nth_error (replay pol clock 0 i b pre bk) j = Some (n, t, Gone).
Proof. exact deleted_in_cycle_ok. Qed.
Print Assumptions all_expired_implies_deleted_in_cycle.

(* Damaged stores: a share file that cannot be parsed (unknown version or magic,
   or shorter than its container header) is recorded as corrupt and skipped;
   it never makes process_bucket raise, so the crawl goes on (bucket_ok admits
   such files, hence all_expired_implies_deleted_in_cycle also holds for good
   shares lying next to damaged ones). *)
Theorem unreadable_share_not_fatal :
  forall pol now bk,
    bucket_ok bk ->
    snd (process_bucket pol now bk) = false /\
    (forall j n t, nth_error bk j = Some (n, t, Unreadable) ->
       nth_error (fst (process_bucket pol now bk)) j = Some (n, t, Unreadable)) /\
    corrupt_shares pol now bk =
      Some (map (fun e => fst (fst e)) (filter (fun e => match snd e with Unreadable => true | _ => false end) bk)).
Proof. exact unreadable_not_fatal_ok. Qed.
Print Assumptions unreadable_share_not_fatal.

(* Leases made by the storage server at time t0 have renewal time t0 and the
   default duration under the accessors the expirer uses. *)
Theorem server_lease_times :
  forall t0 s, renewal_time (mk_lease (t0 + default_renewal_time) s) = t0 /\
               nominal_duration (mk_lease (t0 + default_renewal_time) s) = default_renewal_time.
Proof. exact server_lease_times_ok. Qed.
Print Assumptions server_lease_times.

(* Configuration: nothing configured means expiration is off; switching it on
   without a mode is refused. *)
Theorem expiration_off_by_default :
  exists pol, policy_of_config (mk_config None None None None None None) = Some pol /\ p_enabled pol = false.
Proof. exact default_config_disabled. Qed.
Print Assumptions expiration_off_by_default.

Theorem enabling_requires_a_mode :
  forall c, c_enabled c = Some true -> c_mode c = None -> policy_of_config c = None.
Proof. exact enabled_requires_mode. Qed.
Print Assumptions enabling_requires_a_mode.

(* Recorded findings: what happens outside the hypotheses. *)
Theorem deleted_implies_all_expired_needs_distinct_secrets :
  exists pol now t ls l,
    sr_state (process_share pol now t ls) = Gone /\ In l ls /\ ~ expired_by_rule (p_mode pol) now l.
Proof. exact duplicate_secret_deletes_unexpired. Qed.
Print Assumptions deleted_implies_all_expired_needs_distinct_secrets.

Theorem zero_lease_share_not_deleted :
  forall pol now t, sr_state (process_share pol now t []) = Present [] /\
                    (p_enabled pol = true -> sr_keep_actual (process_share pol now t []) = false).
Proof. exact zero_lease_share_kept. Qed.
Print Assumptions zero_lease_share_not_deleted.

(* Fingerprints of the source functions the model was written for. *)
Theorem expirer_pins :
  (pin_expirer_init, pin_expirer_process_bucket, pin_expirer_process_share,
   pin_lease_get_expiration_time, pin_lease_get_grant_renew_time_time, pin_lease_get_age,
   pin_immutable_cancel_lease, pin_mutable_cancel_lease, pin_client_expire_options)
  = ("87230d7dfee42009", "8a906c6684c03a25", "ac35ccff36e39362",
     "5f242c355dc4878a", "f5d36968d4dfd853", "0bab09361241b115",
     "9e127ac00374484c", "f4ffcf8c633e4560", "5ead9972c79668fb")%string.
Proof. reflexivity. Qed.
Print Assumptions expirer_pins.

(* Non-vacuity: the age rule without override deletes a share whose leases were
   renewed 40 and 32 days ago, keeps one renewed 30 days ago, and the threshold
   itself is not yet expired. *)
Example ex_age_rule_nonvacuous :
  sr_state (process_share ex_pol_age ex_now Immutable ex_old_leases) = Gone /\
  NoDup (map l_cancel ex_old_leases) /\
  lease_expired ex_pol_age ex_now Immutable (mk_lease ex_now 1) = false /\
  lease_expired ex_pol_age (ex_now + 1) Immutable (mk_lease ex_now 1) = true.
Proof. exact ex_age_rule_ok. Qed.
