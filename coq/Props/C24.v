(* C24  Read-test-write is atomic and guarded by the write enabler.
   Statements only; each is closed by `exact` of a lemma in Proofs/Slot.v.

   `slot_tw H sv b we rs cs tw rv renew now` is the transcription of
   StorageServer.slot_testv_and_readv_and_writev (Model/Slot.v) over a bucket
   directory b : share number -> container file bytes; it returns the bucket
   afterwards and the call's result (or exception).  The model follows the code
   after the fix recorded in known_findings.jsonl (all write-vector sizes are
   validated before any share is touched); `slot_tw_unvalidated` is the code
   before the fix.

   `request_ok` collects the preconditions: the shares of the bucket satisfy the
   container layout invariant of C23, MAX_SIZE and the lease expiry fit their
   on-disk fields, secrets / node id / hash have the protocol's lengths, and the
   request is a dict (distinct share numbers).

   `abs_bucket b n` is the readable data of share n (None: no such share),
   `ref_apply` the reference effect of one share's write vectors and new_length
   on a byte array (C23), `all_applied b b' tw` says every named share went from
   its pre-state to `ref_apply` of it and every other share is as before.
   `tests_pass`, `ref_reads` evaluate the test / read vectors on the abstract
   pre-state; `enablers_match` compares the write enabler with every share. *)
From Coq Require Import List NArith Bool.
From Verif Require Import Lib.Hex Gen.MutConsts Model.MutContainer Model.Lease Model.Slot Proofs.Slot.
Import ListNotations.
Local Open Scope N_scope.

(* Either nothing at all changes (not one byte of any file) -- and that is the case exactly when
   the write enabler does not match every existing share, or some test fails, or some write
   vector does not fit -- or every write of the request has been applied to every share it names
   and no other share has changed.  (In the second case the result is success with the
   pre-state reads, or an exception raised by the lease renewal that follows the writes.) *)
Theorem all_or_nothing :
  forall H sv b we rs cs tw rv renew now,
    request_ok H sv b rs cs tw now ->
    let b' := fst (slot_tw H sv b we rs cs tw rv renew now) in
    let r := snd (slot_tw H sv b we rs cs tw rv renew now) in
    (b' = b /\
     ((enablers_match b we = false /\ r = Err EBadWriteEnabler) \/
      (enablers_match b we = true /\ tests_pass b tw = false /\ r = Ok (false, ref_reads b rv)) \/
      (enablers_match b we = true /\ tests_pass b tw = true /\ sizes_ok (s_maxsz sv) tw = false /\ r = Err EDataTooLarge)))
    \/
    (all_applied b b' tw /\ bucket_ok (s_maxsz sv) b' /\
     enablers_match b we = true /\ tests_pass b tw = true /\ sizes_ok (s_maxsz sv) tw = true /\
     (r = Ok (true, ref_reads b rv) \/ exists e, r = Err e)).
Proof. exact all_or_nothing_proof. Qed.
Print Assumptions all_or_nothing.

(* One existing share recorded under another write enabler is enough: BadWriteEnablerError
   and an untouched bucket, whatever else the request contains. *)
Theorem bad_enabler_changes_nothing :
  forall H sv b we rs cs tw rv renew now n f,
    request_ok H sv b rs cs tw now ->
    In (n, f) b -> read_write_enabler f <> Ok we ->
    slot_tw H sv b we rs cs tw rv renew now = (b, Err EBadWriteEnabler).
Proof. exact bad_enabler_changes_nothing_proof. Qed.
Print Assumptions bad_enabler_changes_nothing.

Theorem failed_test_changes_nothing :
  forall H sv b we rs cs tw rv renew now,
    request_ok H sv b rs cs tw now -> tests_pass b tw = false ->
    fst (slot_tw H sv b we rs cs tw rv renew now) = b /\
    (snd (slot_tw H sv b we rs cs tw rv renew now) = Ok (false, ref_reads b rv) \/
     snd (slot_tw H sv b we rs cs tw rv renew now) = Err EBadWriteEnabler).
Proof. exact failed_test_changes_nothing_proof. Qed.
Print Assumptions failed_test_changes_nothing.

Theorem oversized_request_changes_nothing :
  forall H sv b we rs cs tw rv renew now,
    request_ok H sv b rs cs tw now -> sizes_ok (s_maxsz sv) tw = false ->
    fst (slot_tw H sv b we rs cs tw rv renew now) = b.
Proof. exact oversized_request_changes_nothing_proof. Qed.
Print Assumptions oversized_request_changes_nothing.

(* Whenever the call returns, its read results are the read vector applied to the data every
   existing share had before the request, including the shares the request rewrites or deletes. *)
Theorem reads_reflect_pre_state :
  forall H sv b we rs cs tw rv renew now b' good rd,
    request_ok H sv b rs cs tw now ->
    slot_tw H sv b we rs cs tw rv renew now = (b', Ok (good, rd)) -> rd = ref_reads b rv.
Proof. exact reads_reflect_pre_state_proof. Qed.
Print Assumptions reads_reflect_pre_state.

(* The finding (fixed in /repo, see known_findings.jsonl): without the size validation the
   statement is false.  Three new shares, the second one with a vector beyond MAX_SIZE:
   DataTooLargeError, share 0 written, share 1 half written, share 2 not created. *)
Theorem slot_tw_unvalidated_not_atomic_refuted :
  exists sv b we tw rv,
    bucket_ok (s_maxsz sv) b /\ NoDup (names tw) /\
    let '(b', r) := slot_tw_unvalidated sv b we tw rv in
    r = Err EDataTooLarge /\
    abs_bucket b' 0 = Some [1; 2] /\ abs_bucket b' 1 = Some [3] /\ abs_bucket b' 2 = None.
Proof. exact slot_tw_unvalidated_not_atomic_proof. Qed.
Print Assumptions slot_tw_unvalidated_not_atomic_refuted.

(* ---- the hypotheses are satisfiable; the model computes ---------------------------------------- *)
Definition ex_H (s : list N) : list N := firstn 32 (map (fun b => (b + 1) mod 256) s ++ repeat 0 32).
Definition ex_rs : list N := repeat 1 32.
Definition ex_cs : list N := repeat 2 32.

Example ex_request_ok_nonvacuous : request_ok ex_H ex_sv [] ex_rs ex_cs ex_tw 1000.
Proof.
  repeat split; try reflexivity; try (intros n f []).
  - cbn. repeat constructor; cbn; intuition discriminate.
  - intro s. unfold ex_H. rewrite firstn_length, app_length, map_length, repeat_length. apply PeanoNat.Nat.min_l. apply PeanoNat.Nat.le_add_l.
Qed.

(* the same three-share request against the validated code: refused as a whole *)
Example ex_validated_refuses : slot_tw ex_H ex_sv [] ex_we ex_rs ex_cs ex_tw [] true 1000 = ([], Err EDataTooLarge).
Proof. vm_compute. reflexivity. Qed.

Definition ex_tw2 : list twv := [mkTW 0 [] [(0, [1; 2])] None; mkTW 1 [(0, 1, [])] [(3, [4])] (Some 2)].
Definition ex_b1 : bucket := fst (slot_tw ex_H ex_sv [] ex_we ex_rs ex_cs ex_tw2 [] true 1000).

Example ex_applied_and_guarded :
  snd (slot_tw ex_H ex_sv [] ex_we ex_rs ex_cs ex_tw2 [] true 1000) = Ok (true, []) /\
  abs_bucket ex_b1 0 = Some [1; 2] /\ abs_bucket ex_b1 1 = Some [0; 0] /\
  (* wrong enabler *)
  slot_tw ex_H ex_sv ex_b1 (repeat 8 32) ex_rs ex_cs [mkTW 0 [] [(0, [9])] None] [(0, 5)] true 2000 = (ex_b1, Err EBadWriteEnabler) /\
  (* failing test on share 1 protects share 0 too; reads are from before *)
  slot_tw ex_H ex_sv ex_b1 ex_we ex_rs ex_cs [mkTW 0 [] [(0, [9])] None; mkTW 1 [(0, 1, [5])] [] None] [(0, 5)] true 2000
    = (ex_b1, Ok (false, [(0, [[1; 2]]); (1, [[0; 0]])])) /\
  (* delete share 1 and overwrite share 0: reads still show the old data *)
  snd (slot_tw ex_H ex_sv ex_b1 ex_we ex_rs ex_cs [mkTW 0 [(0, 2, [1; 2])] [(1, [9])] None; mkTW 1 [] [] (Some 0)] [(0, 5)] true 2000)
    = Ok (true, [(0, [[1; 2]]); (1, [[0; 0]])]).
Proof. vm_compute. repeat split. Qed.
