(* C40  Web API byte-range downloads follow RFC 7233.
   Statements only; each is closed by `exact` of a lemma in Proofs/Range.v.
   `render m data hdr` is the model (Model/Range.v) of web/filenode.py FileDownloader.render +
   parse_range_header for a file with contents `data` and the decoded Range header `hdr`
   (a list of Unicode code points; None = no header), as status / Content-Range /
   Content-Length / body on the wire.  `rfc_ranges`, `rfc_decide`, `respond` are the RFC 7233
   rule written from the RFC text (grammar of 2.1 with 1*DIGIT positions and OWS = SP / HTAB
   around commas; satisfiability; the selected bytes; "bytes first-last/size", "bytes */size").
   `range_strict h`: the header does not exercise the leniency of Python's int() ("+1", "1_0",
   " 1", non-ASCII digits; more than 4300 digits rejected) or str.strip() (other blanks, blanks
   after "=" or at the end) - the recorded findings, refuted below without it; it holds for
   every canonically spelled request (canonical_requests_served). *)
From Coq Require Import List NArith ZArith Bool String.
From Verif Require Import Lib.Hex Lib.Decimal Gen.WebRange Model.Range Proofs.Range.
Import ListNotations.
Local Open Scope N_scope.

(* For every file and every header string: a header that is one byte range in the RFC's grammar
   gets 206 with exactly the requested bytes clipped at end-of-file and the matching Content-Range,
   or 416 with "bytes */size" when it starts at or beyond the end (every range on an empty file,
   suffix-length 0); a header outside the grammar gets the whole file. *)
Theorem rfc7233_single_range :
  forall m data h, range_strict h = true ->
    (forall r, rfc_ranges h = Some [r] ->
       render m data (Some h) = respond m data (rfc_decide (N.of_nat (List.length data)) r)) /\
    (rfc_ranges h = None -> render m data (Some h) = respond m data Whole).
Proof. exact rfc7233_single_range_ok. Qed.
Print Assumptions rfc7233_single_range.

(* the same with the selected bytes spelled out: a partial response carries the bytes
   first..last of the file, first <= last < size, Content-Length = their number *)
Theorem partial_content_exact_bytes :
  forall m data h r f l,
    range_strict h = true -> rfc_ranges h = Some [r] -> rfc_decide (N.of_nat (List.length data)) r = Partial f l ->
    render m data (Some h) = respond m data (Partial f l) /\
    f <= l /\ l < N.of_nat (List.length data) /\
    body (render GET data (Some h)) = bytes_between data f l /\
    N.of_nat (List.length (bytes_between data f l)) = content_length (render m data (Some h)) /\
    forall i, i <= l - f -> nth (N.to_nat i) (bytes_between data f l) 0 = nth (N.to_nat (f + i)) data 0.
Proof. exact partial_is_exact_ok. Qed.
Print Assumptions partial_content_exact_bytes.

(* The precondition is met by every request in the RFC's canonical spelling, so for
   "bytes=F-L", "bytes=F-" and "bytes=-K" (decimal numbers up to 2^4000) the response is the
   RFC's for every file, with no side condition on the header. *)
Theorem canonical_requests_served :
  forall m data f l, N.size f <= 4000 -> N.size l <= 4000 ->
    let n := N.of_nat (List.length data) in
    (f <= l -> render m data (Some (bytes_of_string "bytes=" ++ dec f ++ [45] ++ dec l)) = respond m data (rfc_decide n (FromTo f l))) /\
    render m data (Some (bytes_of_string "bytes=" ++ dec f ++ [45])) = respond m data (rfc_decide n (From f)) /\
    render m data (Some (bytes_of_string "bytes=" ++ [45] ++ dec l)) = respond m data (rfc_decide n (Suffix l)).
Proof. exact canonical_requests_ok. Qed.
Print Assumptions canonical_requests_served.

Theorem no_range_header_whole_file :
  forall m data, render m data None = respond m data Whole /\ render m data (Some []) = respond m data Whole.
Proof. exact no_range_header_ok. Qed.
Print Assumptions no_range_header_whole_file.

(* outside the property (it speaks of a single range): of several ranges the first one is served *)
Theorem multi_range_serves_first :
  forall m data h r r2 rest, range_strict h = true -> rfc_ranges h = Some (r :: r2 :: rest) ->
    render m data (Some h) = respond m data (rfc_decide (N.of_nat (List.length data)) r).
Proof. exact multi_range_first_ok. Qed.
Print Assumptions multi_range_serves_first.

(* HEAD: same status and headers as GET, no body - for every header, strict or not *)
Theorem head_same_headers :
  forall data hdr,
    status (render HEAD data hdr) = status (render GET data hdr) /\
    content_range (render HEAD data hdr) = content_range (render GET data hdr) /\
    content_length (render HEAD data hdr) = content_length (render GET data hdr) /\
    body (render HEAD data hdr) = [].
Proof. exact head_same_ok. Qed.
Print Assumptions head_same_headers.

(* Without `range_strict` the statement is false (known findings): the header is outside the
   RFC's grammar yet a range is served, or inside it yet ignored. *)
Theorem rfc7233_refuted_lenient_int :
  let h := bytes_of_string "bytes=+1-5" in
  range_strict h = false /\ rfc_ranges h = None /\ status (render GET ten_bytes (Some h)) = 206.
Proof. exact refuted_lenient_int. Qed.
Print Assumptions rfc7233_refuted_lenient_int.

Theorem rfc7233_refuted_non_ascii_digit :
  let h := bytes_of_string "bytes=" ++ [1635; 45] in
  range_strict h = false /\ rfc_ranges h = None /\ status (render GET ten_bytes (Some h)) = 206.
Proof. exact refuted_non_ascii_digit. Qed.
Print Assumptions rfc7233_refuted_non_ascii_digit.

Theorem rfc7233_refuted_lenient_strip :
  let h := bytes_of_string "bytes=" ++ [12] ++ bytes_of_string "0-5" in
  range_strict h = false /\ rfc_ranges h = None /\ status (render GET ten_bytes (Some h)) = 206.
Proof. exact refuted_lenient_strip. Qed.
Print Assumptions rfc7233_refuted_lenient_strip.

Theorem rfc7233_refuted_digit_limit :
  let h := bytes_of_string "bytes=" ++ repeat 48 4301 ++ [45] in        (* 4301 zeros, "-" *)
  rfc_ranges h = Some [From 0] /\ status (render GET ten_bytes (Some h)) = 200.
Proof. exact refuted_digit_limit. Qed.
Print Assumptions rfc7233_refuted_digit_limit.

(* the source text the hand-written model transcribes is unchanged *)
Theorem pins :
  (pin_parse_range_header, pin_render, pin_render_GET, pin_render_HEAD)
  = ("488969ddb09469cd", "9e63d164e15f8e2d", "c70737a82053c8e3", "6809f39ac1d9c28f")%string /\
  (range_unit, content_range_formats, unsatisfiable_status, partial_status)
  = (bytes_of_string "bytes", ["bytes */%s"; "bytes %s-%s/%s"]%string, 416, 206).
Proof. exact pins_ok. Qed.
Print Assumptions pins.

(* ---- hypotheses are satisfiable; the decision table on a 10-byte file ---- *)
Example rfc7233_single_range_nonvacuous :
  forallb (fun s => range_strict (bytes_of_string s))
          ["bytes=0-5"; "bytes=3-"; "bytes=10-"; "bytes=-3"; "bytes=-0"; "bytes=-20"; "bytes=0-0"; "bytes=9-100";
           "bytes=2-3 , 5-6"; "bytes=5-3"; "Bytes=0-5"; "bytes=0-5,"; "garbage"; "bytes=a-b"]%string = true.
Proof. vm_compute. reflexivity. Qed.

Example ex_grammar :
  map (fun s => rfc_ranges (bytes_of_string s))
      ["bytes=0-5"; "bytes=3-"; "bytes=-3"; "bytes=007-010"; "bytes=2-3 ,	5-6,-1"; "bytes=5-3"; "bytes=0-5,"; "bytes=,0-5"; "bytes=0-5 "; "bytes= 0-5";
       "bytes=0 -5"; "bytes=-"; "bytes="; "bytes"; "Bytes=0-5"; "bytes=0-5;q"; "bytes=0x1-5"]%string
  = [Some [FromTo 0 5]; Some [From 3]; Some [Suffix 3]; Some [FromTo 7 10]; Some [FromTo 2 3; FromTo 5 6; Suffix 1];
     None; None; None; None; None; None; None; None; None; None; None; None].
Proof. vm_compute. reflexivity. Qed.

Example ex_decisions :
  map (rfc_decide 10) [FromTo 0 5; FromTo 9 100; FromTo 10 12; From 3; From 10; Suffix 3; Suffix 20; Suffix 0]
  = [Partial 0 5; Partial 9 9; Unsatisfiable; Partial 3 9; Unsatisfiable; Partial 7 9; Partial 0 9; Unsatisfiable]
  /\ map (rfc_decide 0) [FromTo 0 0; From 0; Suffix 5] = [Unsatisfiable; Unsatisfiable; Unsatisfiable].
Proof. vm_compute. split; reflexivity. Qed.

Example ex_render_partial :
  render GET ten_bytes (Some (bytes_of_string "bytes=7-100"))
  = mkResponse 206 (Some (bytes_of_string "bytes 7-9/10")) 3 [7; 8; 9].
Proof. vm_compute. reflexivity. Qed.

Example ex_render_unsatisfiable_empty_file :
  render HEAD [] (Some (bytes_of_string "bytes=-5")) = mkResponse 416 (Some (bytes_of_string "bytes */0")) 24 [].
Proof. vm_compute. reflexivity. Qed.
