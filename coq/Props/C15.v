(* C15  Capability strings round-trip and parse canonically.
   Statements only; each is closed by `exact` of a lemma in Proofs/Uri*.v.

   Model: Model/Uri.v (uri.py after the `fix:` commits: regexes end in \Z,
   CHKFileVerifierURI anchored, NUMBER = (0|[1-9][0-9]* ) ), Model/UriBase32.v.
   `wf_cap`: keys / storage indexes of 16 octets, hashes of 32, octets below 256,
   k/N/size that `%d` can render (at most 4300 digits; beyond that Python itself
   refuses to print the cap).  Negative integers (never parseable) are outside
   the model's `N`.
   from_string can raise ValueError (an over-long numeral, known finding
   uri-from-string-valueerror-on-huge-numeral); the model returns
   RaisesValueError there and the theorems say exactly when. *)
From Coq Require Import String List NArith PeanoNat Bool.
From Verif Require Import Lib.Hex Lib.Bytes Lib.Decimal Gen.Uri Model.UriBase32 Model.Uri
  Proofs.UriBase32 Proofs.UriParse Proofs.UriPins.
Import ListNotations.
Local Open Scope N_scope.

(* Every capability object serializes to a string that parses back to an equal
   capability of the same kind. *)
Theorem print_parse :
  forall c, wf_cap c = true -> from_string false (to_string c) = Ok c.
Proof. exact from_string_print_parse. Qed.
Print Assumptions print_parse.

(* Strict converse: whatever from_string accepts as a known kind (in any
   context) is a well-formed cap whose serialization is the accepted string --
   after one optional alleged prefix, and, for the MDMF kinds only, before an
   extension that starts with ':'. *)
Theorem parse_print :
  forall di u c, from_string di u = Ok c -> known c = true ->
  wf_cap c = true /\
  exists pre ext, In pre alleged_prefixes /\ u = pre ++ to_string c ++ ext
                  /\ (ext = [] \/ (is_mdmf c = true /\ exists e, ext = colon :: e)).
Proof. exact from_string_parse_print. Qed.
Print Assumptions parse_print.

Theorem parse_print_exact :
  forall di u c, from_string di u = Ok c -> known c = true ->
  is_mdmf c = false -> starts_with ro_prefix u = false -> starts_with imm_prefix u = false -> to_string c = u.
Proof. exact from_string_parse_print_exact. Qed.
Print Assumptions parse_print_exact.

(* the extension the MDMF formats allow is accepted and ignored *)
Theorem mdmf_extension_ignored :
  forall c e, wf_cap c = true -> is_mdmf c = true -> from_string false (to_string c ++ colon :: e) = Ok c.
Proof. exact from_string_mdmf_extension. Qed.
Print Assumptions mdmf_extension_ignored.

(* Strings outside the grammar are reported as unknown and never mis-read:
   (a) the dispatch prefixes are pairwise non-prefixing, so at most one kind's
       parser is ever tried; *)
Theorem prefixes_non_prefixing :
  prefixes_pairwise_non_prefixing = true.
Proof. exact prefixes_non_prefixing_ok. Qed.
Print Assumptions prefixes_non_prefixing.

Theorem dispatch_unique :
  forall s dir k dir' k' r r', s = cap_prefix dir k ++ r -> s = cap_prefix dir' k' ++ r' -> dir = dir' /\ k = k'.
Proof. exact dispatch_prefix_unique. Qed.
Print Assumptions dispatch_unique.

(* (b) if the parser of any kind accepts the string, from_string returns that
       very cap (or, when the context forbids the kind, an UnknownURI holding
       the original string) -- never a cap of another kind; *)
Theorem unknown_never_misread :
  forall di u cbm cbw s dir k f,
  strip_alleged di u = (cbm, cbw, s) -> cap_init_from_string dir k s = PKnown f ->
  exists g, In (dir, k, g) dispatch /\
            from_string di u = if guard_ok g cbm cbw then Ok (mk_cap dir f) else Ok (CUnknown u (constraint_error cbm)).
Proof. exact from_string_never_misread. Qed.
Print Assumptions unknown_never_misread.

(* (c) a known result was accepted by the parser of its own kind; *)
Theorem known_by_own_parser :
  forall di u c, from_string di u = Ok c -> known c = true ->
  exists cbm cbw s dir f, strip_alleged di u = (cbm, cbw, s) /\ c = mk_cap dir f
                          /\ cap_init_from_string dir (kind_of f) s = PKnown f.
Proof. exact from_string_known_by_own_parser. Qed.
Print Assumptions known_by_own_parser.

(* (d) an UnknownURI keeps the string byte for byte. *)
Theorem unknown_keeps_string :
  forall di u s e, from_string di u = Ok (CUnknown s e) -> s = u.
Proof. exact from_string_unknown_keeps_string. Qed.
Print Assumptions unknown_keeps_string.

(* to_string is injective on well-formed caps *)
Theorem serialization_injective :
  forall c1 c2, wf_cap c1 = true -> wf_cap c2 = true -> to_string c1 = to_string c2 -> c1 = c2.
Proof. exact to_string_injective. Qed.
Print Assumptions serialization_injective.

(* base32.a2b's precondition never fires inside from_string; the only
   exception that escapes is ValueError, and only for a canonical numeral of
   more than 4300 digits *)
Theorem from_string_never_asserts :
  forall di u, from_string di u <> RaisesAssertion.
Proof. exact from_string_no_assertion. Qed.
Print Assumptions from_string_never_asserts.

Theorem value_error_only_on_huge_numeral :
  forall di u, from_string di u = RaisesValueError ->
  exists g, canonical_dec g = true /\ (int_max_str_digits < length g)%nat /\ (length g <= length u)%nat.
Proof. exact from_string_value_error. Qed.
Print Assumptions value_error_only_on_huge_numeral.

(* base32 (util/base32.py) round trips at every length *)
Theorem base32_decode_encode :
  forall os, bytes_ok os = true -> a2b (b2a os) = os /\ b32_field_ok (b2a os).
Proof. exact (fun os H => conj (a2b_b2a os H) (b2a_field_ok os H)). Qed.
Print Assumptions base32_decode_encode.

Theorem base32_encode_decode :
  forall g, b32_field_ok g -> b2a (a2b g) = g /\ could_be_base32_encoded g = true.
Proof. exact (fun g H => conj (b2a_a2b g H) (field_ok_could_be g H)). Qed.
Print Assumptions base32_encode_decode.

(* Tripwires: the regex sources, class table and dispatch chain regenerated
   from uri.py are what this model's formats, prefixes and dispatch list
   render to; the hand-transcribed definitions are unchanged. *)
Theorem regex_pins :
  classes_rendered = class_table.
Proof. exact regex_pins_ok. Qed.
Print Assumptions regex_pins.

Theorem dispatch_pins :
  dispatch_rendered = dispatch_table
  /\ future_test_table = [("x-tahoe-future-test-writeable:", "can_be_writeable"); ("x-tahoe-future-test-mutable:", "can_be_mutable")]%string
  /\ (ALLEGED_READONLY_PREFIX, ALLEGED_IMMUTABLE_PREFIX) = ("ro.", "imm.")%string.
Proof. exact dispatch_pins_ok. Qed.
Print Assumptions dispatch_pins.

Theorem code_pins :
  base32_code_pins = expected_base32_code_pins /\ uri_code_pins = expected_uri_code_pins.
Proof. exact uri_code_pins_ok. Qed.
Print Assumptions code_pins.

(* ---- the hypotheses are satisfiable; the defect classes are rejected ---- *)
Definition ex_key : bytes := repeat 1 16.
Definition ex_hash : bytes := repeat 2 32.
Definition ex_chk : cap := CFile (CHK ex_key ex_hash 3 10 1000).
Definition ex_chk_string : bytes :=
  bytes_of_string "URI:CHK:aeaqcaibaeaqcaibaeaqcaibae:aibaeaqcaibaeaqcaibaeaqcaibaeaqcaibaeaqcaibaeaqcaiba:3:10:1000".

Example ex_wf_nonvacuous :
  forallb wf_cap [ex_chk; CDir (CHK ex_key ex_hash 3 10 1000); CFile (LIT [104; 105]); CDir (LIT []);
                  CFile (SSK ex_key ex_hash); CDir (MDMFRO ex_key ex_hash); CFile (CHKVerifier ex_key ex_hash 0 0 0)] = true.
Proof. vm_compute. reflexivity. Qed.

Example ex_print : to_string ex_chk = ex_chk_string.
Proof. vm_compute. reflexivity. Qed.

Example ex_parse : from_string false ex_chk_string = Ok ex_chk.
Proof. vm_compute. reflexivity. Qed.

Example ex_parse_ro_prefix : from_string false (ro_prefix ++ ex_chk_string) = Ok ex_chk.
Proof. vm_compute. reflexivity. Qed.

Example ex_mdmf_nonvacuous :
  is_mdmf (CDir (MDMF ex_key ex_hash)) = true
  /\ from_string false (to_string (CDir (MDMF ex_key ex_hash)) ++ bytes_of_string ":3:131073") = Ok (CDir (MDMF ex_key ex_hash)).
Proof. vm_compute. split; reflexivity. Qed.

(* trailing newline, leading zero, trailing garbage after a verify cap: unknown *)
Example ex_trailing_newline_rejected :
  from_string false (ex_chk_string ++ [10]) = Ok (CUnknown (ex_chk_string ++ [10]) EBadURI).
Proof. vm_compute. reflexivity. Qed.

Example ex_leading_zero_rejected :
  let s := bytes_of_string "URI:CHK:aeaqcaibaeaqcaibaeaqcaibae:aibaeaqcaibaeaqcaibaeaqcaibaeaqcaibaeaqcaibaeaqcaiba:03:10:1000" in
  from_string false s = Ok (CUnknown s EBadURI).
Proof. vm_compute. reflexivity. Qed.

Example ex_verifier_garbage_rejected :
  let s := to_string (CFile (CHKVerifier ex_key ex_hash 3 10 1000)) ++ bytes_of_string "garbage" in
  from_string false s = Ok (CUnknown s EBadURI).
Proof. vm_compute. reflexivity. Qed.

Example ex_wrong_tail_rejected :
  let s := bytes_of_string "URI:SSK:aeaqcaibaeaqcaibaeaqcaibaf:aibaeaqcaibaeaqcaibaeaqcaibaeaqcaibaeaqcaibaeaqcaiba" in
  from_string false s = Ok (CUnknown s EBadURI).
Proof. vm_compute. reflexivity. Qed.

(* known finding: a numeral of 4301 digits makes from_string raise ValueError *)
Example ex_value_error_refuted :
  exists u, from_string false u = RaisesValueError.
Proof.
  exists (bytes_of_string "URI:CHK:aeaqcaibaeaqcaibaeaqcaibae:aibaeaqcaibaeaqcaibaeaqcaibaeaqcaibaeaqcaibaeaqcaiba:3:10:" ++ repeat 49 4301).
  vm_compute. reflexivity.
Qed.
