(* C37  Byte-range bookkeeping is exact (src/allmydata/util/spans.py: Spans, DataSpans).
   Statements only; each is closed by `exact` of a lemma in Proofs/Spans*.v.

   Vocabulary (definitions in Model/Spans.v and Proofs/Spans*.v):
     sp_step l op / sp_run ops    one operation / a whole history from the empty Spans on the model
                                  (None = the code raises AssertionError: zero length, or _check)
     sp_exec l op                 the object after the call, whether it returned or raised
     mem z l                      z is covered by some (start, length) of the list l
     in_iv s n z                  s <= z < s + n
     set_step S op / set_run ops  the REFERENCE: a set of N as N -> bool; add = union with the interval,
                                  remove = difference, + / += = union, - / -= = difference, & = intersection
     set_exec                     like set_step, rejected operations leave the set unchanged
     spans_invariant l            lengths positive; consecutive spans satisfy start_i + len_i < start_{i+1}
                                  (sorted, disjoint AND non-adjacent)
     ds_step / ds_run             the same for DataSpans (add, remove, get, pop)
     dget z l                     the byte held at offset z by the chunk list l, if any
     map_step M op / map_run ops  the REFERENCE: a partial map N -> option byte; add overrides (later write
                                  wins), remove deletes, get does not change it, pop deletes the range iff
                                  every offset of it is present
     dataspans_invariant l        chunks non-empty; start_i + len(data_i) < start_{i+1}
     nget bs k                    k-th byte of bs; nlen bs its length. *)
From Coq Require Import List NArith Bool String.
From Verif Require Import Lib.Hex Model.Spans Proofs.SpansBase Proofs.SpansOps Proofs.SpansDataBase
     Proofs.SpansDataOps Proofs.SpansMain.
Import ListNotations.
Local Open Scope N_scope.

(* ---- spans_inv --------------------------------------------------------------------------------- *)
(* Whatever operations are applied to an empty Spans -- including rejected ones, after which the
   object is used further -- the list is sorted, positive, disjoint and non-adjacent, and the
   code's own self-check (_check) passes. *)
Theorem spans_inv :
  forall ops : list sop,
    spans_invariant (fold_left sp_exec ops []) /\ spans_check (fold_left sp_exec ops []) = true.
Proof. exact spans_inv_all. Qed.
Print Assumptions spans_inv.

(* the same for histories in which no call raised *)
Theorem spans_inv_no_exception :
  forall ops l, sp_run ops = Some l -> spans_invariant l.
Proof. exact spans_inv_run. Qed.
Print Assumptions spans_inv_no_exception.

(* an operation raises (AssertionError) exactly when a length is zero: zero-length add/remove, or an
   operand Spans(list) with a zero-length pair; in particular _check never fires *)
Theorem spans_rejects_exactly_zero_lengths :
  forall l op, spans_invariant l -> (sp_step l op = None <-> op_rejected op).
Proof. intros l op H. apply spans_rejected_iff. apply wf_spelled_out. exact H. Qed.
Print Assumptions spans_rejects_exactly_zero_lengths.

(* the representation is canonical: two invariant-satisfying lists with the same elements are equal,
   and every such list is reachable (so the invariant is exactly the set of reachable states) *)
Theorem spans_canonical_form :
  forall l1 l2, spans_invariant l1 -> spans_invariant l2 -> (forall z, mem z l1 = mem z l2) -> l1 = l2.
Proof. exact spans_canonical. Qed.
Print Assumptions spans_canonical_form.

Theorem spans_invariant_reachable :
  forall l, spans_invariant l -> sp_run (map (fun sp => OpAdd (fst sp) (snd sp)) l) = Some l.
Proof. exact spans_reachable. Qed.
Print Assumptions spans_invariant_reachable.

(* ---- spans_refine_set ------------------------------------------------------------------------------ *)
(* For every history: the list denotes exactly the reference set; (s, n) in x is true iff n > 0 and the
   whole range is in the set; each() enumerates the set without repetition and len() is its cardinality. *)
Theorem spans_refine_set :
  forall ops : list sop,
    let l := fold_left sp_exec ops [] in
    let S := fold_left set_exec ops (fun _ => false) in
    (forall z, mem z l = S z) /\
    (forall s n, spans_contains s n l = true <-> (0 < n /\ forall z, s <= z -> z < s + n -> S z = true)) /\
    NoDup (spans_each l) /\
    (forall z, In z (spans_each l) <-> S z = true) /\
    spans_len l = N.of_nat (List.length (spans_each l)).
Proof. exact spans_refine_set_all. Qed.
Print Assumptions spans_refine_set.

(* histories of accepted operations never raise, and refine the reference step by step *)
Theorem spans_refine_set_no_exception :
  forall ops : list sop, Forall op_ok ops ->
    exists l, sp_run ops = Some l /\ spans_invariant l /\
      (forall z, mem z l = set_run ops z) /\
      (forall s n, spans_contains s n l = true <->
                   (0 < n /\ forall z, s <= z -> z < s + n -> set_run ops z = true)) /\
      NoDup (spans_each l) /\
      (forall z, In z (spans_each l) <-> set_run ops z = true) /\
      spans_len l = N.of_nat (List.length (spans_each l)).
Proof. exact spans_refine_set_ok. Qed.
Print Assumptions spans_refine_set_no_exception.

(* one step, spelled out per operation *)
Theorem spans_step_refines :
  forall l op, spans_invariant l -> op_ok op ->
    exists l', sp_step l op = Some l' /\ spans_invariant l' /\
      forall z, mem z l' =
        match op with
        | OpAdd s n => mem z l || in_iv s n z
        | OpRemove s n => mem z l && negb (in_iv s n z)
        | OpUnion o | OpIAdd o => mem z l || mem z o
        | OpDiff o | OpISub o => mem z l && negb (mem z o)
        | OpInter o => mem z l && mem z o
        | OpContains _ _ => mem z l
        end.
Proof.
  intros l op H K. destruct (sp_step_correct l op (proj2 (wf_spelled_out l) H) K) as (l' & E & W & M).
  exists l'. split; [exact E|]. split; [apply wf_spelled_out; exact W|].
  intro z. rewrite M. destruct op; reflexivity.
Qed.
Print Assumptions spans_step_refines.

(* ---- dataspans_refine_partial_map ---------------------------------------------------------------------- *)
(* For every history (no precondition: DataSpans has no rejected inputs) the run succeeds
   (assert_invariants never fires), the chunk list is sorted, merged and non-empty, it denotes exactly the
   reference partial map, and in the reached state:
     get(s, n), n > 0, returns bs iff bs has length n and every offset s+k holds bs[k];
     it returns None iff some offset of the range is missing;
     get(s, 0) returns b"" if s is held and None otherwise (the code's behaviour, of no use to callers);
     pop returns what get returns and removes the range iff get returned data;
     len() is the number of offsets held and get_spans() is the domain of the map. *)
Theorem dataspans_refine_partial_map :
  forall ops : list dop,
  exists l, ds_run ops = Some l /\ dataspans_invariant l /\
    (forall z, dget z l = map_run ops z) /\
    (forall s n bs, 0 < n ->
       (ds_get s n l = Some bs <-> (nlen bs = n /\ forall k, k < n -> map_run ops (s + k) = nget bs k))) /\
    (forall s n, 0 < n ->
       (ds_get s n l = None <-> exists k, k < n /\ map_run ops (s + k) = None)) /\
    (forall s, ds_get s 0 l = if is_some (map_run ops s) then Some [] else None) /\
    (forall s n, fst (ds_pop s n l) = ds_get s n l /\
                 dataspans_invariant (snd (ds_pop s n l)) /\
                 forall z, dget z (snd (ds_pop s n l)) = map_step (map_run ops) (DPop s n) z) /\
    NoDup (ds_offsets l) /\
    (forall z, In z (ds_offsets l) <-> map_run ops z <> None) /\
    ds_len l = N.of_nat (List.length (ds_offsets l)) /\
    (exists sp, ds_get_spans l = Some sp /\ spans_invariant sp /\
                forall z, mem z sp = is_some (map_run ops z)).
Proof. exact dataspans_refine. Qed.
Print Assumptions dataspans_refine_partial_map.

(* the reference map, spelled out: later writes win *)
Theorem dataspans_add_overrides :
  forall ops s d z v, in_iv s (nlen d) z = true -> nget d (z - s) = Some v ->
    map_run (ops ++ [DAdd s d]) z = Some v.
Proof. exact dataspans_later_write_wins. Qed.
Print Assumptions dataspans_add_overrides.

Theorem dataspans_step_refines :
  forall l op, dataspans_invariant l ->
    exists l', ds_step l op = Some l' /\ dataspans_invariant l' /\
      forall z, dget z l' =
        match op with
        | DAdd s d => if in_iv s (nlen d) z then nget d (z - s) else dget z l
        | DRemove s n => if in_iv s n z then None else dget z l
        | DGet _ _ => dget z l
        | DPop s n => if all_present (fun x => dget x l) s n && in_iv s n z then None else dget z l
        end.
Proof.
  intros l op H. destruct (ds_step_correct l op (proj2 (dwf_spelled_out l) H)) as (l' & E & W & M).
  exists l'. split; [exact E|]. split; [apply dwf_spelled_out; exact W|].
  intro z. rewrite M. destruct op; reflexivity.
Qed.
Print Assumptions dataspans_step_refines.

(* ---- non-vacuity: concrete histories ----------------------------------------------------------------- *)
Definition ex_ops : list sop :=
  [OpAdd 10 5; OpAdd 20 5; OpAdd 30 5; OpAdd 15 5; OpRemove 12 1; OpAdd 3 0;
   OpInter [(0, 14); (18, 14)]; OpContains 18 7; OpUnion [(40, 2); (42, 2)]; OpDiff [(41, 1)]].

Example ex_spans_history :
  fold_left sp_exec ex_ops [] = [(10, 2); (13, 1); (18, 7); (30, 2); (40, 1); (42, 2)].
Proof. vm_compute. reflexivity. Qed.

Example ex_spans_rejected_nonvacuous : sp_step [(10, 5)] (OpAdd 3 0) = None /\ sp_run ex_ops = None.
Proof. vm_compute. split; reflexivity. Qed.

Example ex_spans_ok_nonvacuous :
  Forall op_ok [OpAdd 10 5; OpAdd 16 5; OpAdd 15 1; OpRemove 12 6; OpInter [(0, 11); (20, 100)]] /\
  sp_run [OpAdd 10 5; OpAdd 16 5; OpAdd 15 1; OpRemove 12 6; OpInter [(0, 11); (20, 100)]] = Some [(10, 1); (20, 1)].
Proof.
  split; [|vm_compute; reflexivity].
  repeat constructor.
Qed.

Example ex_spans_contains_nonvacuous :
  spans_contains 18 7 [(10, 2); (13, 1); (18, 7)] = true /\ spans_contains 17 2 [(10, 2); (13, 1); (18, 7)] = false /\
  spans_len [(10, 2); (13, 1); (18, 7)] = 10 /\ spans_each [(10, 2); (13, 1)] = [10; 11; 13].
Proof. vm_compute. repeat split; reflexivity. Qed.

Definition ex_dops : list dop :=
  [DAdd 10 (bytes_of_string "OLDD"%string); DAdd 20 (bytes_of_string "xyz"%string); DAdd 12 (bytes_of_string "NEWNEWNEW"%string);
   DGet 10 13; DRemove 15 2; DPop 10 5; DPop 17 10; DAdd 16 (bytes_of_string "!"%string)].

Example ex_dataspans_history :
  ds_run ex_dops = Some [(16, bytes_of_string "!WNEWyz"%string)] /\
  ds_get 10 13 [(10, bytes_of_string "OLNEWNEWNEWyz"%string)] = Some (bytes_of_string "OLNEWNEWNEWyz"%string) /\
  ds_get 10 14 [(10, bytes_of_string "OLNEWNEWNEWyz"%string)] = None /\
  map_run ex_dops 16 = Some 33 /\ map_run ex_dops 15 = None /\ map_run ex_dops 19 = Some 69.
Proof. vm_compute. repeat split; reflexivity. Qed.

(* the documented oddity of zero-length reads *)
Example ex_dataspans_get_zero_length :
  ds_get 5 0 [] = None /\ ds_get 5 0 [(5, [1])] = Some [] /\ ds_get 6 0 [(5, [1])] = None.
Proof. vm_compute. repeat split; reflexivity. Qed.
