(* C46  Immutable reads always terminate.
   Statements only.  Model/SegQueue.v: DownloadNode's segment request queue
   (immutable/downloader/node.py get_segment / _start_new_segment / _extract_requests /
   _cancel_request / fetch_failed / process_blocks / _deliver) composed with its readers
   (segmentation.py Segmentation), events = entry points, arbitrary interleaving.  The
   first argument `true` of srun/sstep is the repaired failure branch of process_blocks
   (the code in /repo); `false` is the code before the repair.  `guarded`: fetchers
   report blocks, or refuse a segment number, only once the UEB is known. *)
From Coq Require Import List NArith Bool Arith.
From Verif Require Import Model.SegQueue Model.Fetcher Proofs.SegQueueBase Proofs.SegQueueRange Proofs.SegQueueLive
                          Proofs.SegQueueMeasure Proofs.SegQueueThm Proofs.FetcherWorld Proofs.FetcherLive Proofs.Finder.
Import ListNotations.

(* In every reachable state: pending segment requests imply an active fetcher for a
   requested segment; an active fetcher always serves a requested segment; every
   unfinished reader's outstanding request is still queued (or its delivery is) and not
   cancelled, and an unfinished hungry reader has a request or a queued
   _maybe_fetch_next.  So something can always happen for a reader that waits. *)
Theorem no_stuck_state :
  forall (ct : list N) (segsize guess : N) (evs : list sev),
  guarded ct segsize guess sinit evs ->
  let s := fst (srun true ct segsize guess sinit evs) in
  (s_reqs s <> [] -> exists fid seg, s_active s = Some (fid, seg) /\ In seg (map r_seg (s_reqs s))) /\
  (forall fid seg, s_active s = Some (fid, seg) -> In seg (map r_seg (s_reqs s))) /\
  (forall i r, nth_error (s_readers s) i = Some r -> rd_result r = None ->
     (forall sg rid k, rd_active r = Some (sg, rid, k) ->
        ~ In rid (s_inactive s) /\ (In rid (map r_id (s_reqs s)) \/ In rid (map fst (s_deliveries s)))) /\
     (rd_hungry r = true -> rd_mfn r > 0 \/ rd_active r <> None)).
Proof. exact no_stuck. Qed.
Print Assumptions no_stuck_state.

(* Every step the system takes by itself -- a queued _maybe_fetch_next or _deliver runs,
   the active fetcher calls process_blocks or fetch_failed -- strictly decreases
       sum over readers (queued calls + 3 * (bytes wanted + possible retry) + 2 if idle)
       + 2 * queued requests + queued deliveries. *)
Theorem progress_measure :
  forall (ct : list N) (segsize guess : N) (evs : list sev) (e : sev),
  guarded ct segsize guess sinit evs ->
  let s := fst (srun true ct segsize guess sinit evs) in
  sev_ok s e -> system_step s e ->
  weight (fst (sstep true ct segsize guess s e)) < weight s.
Proof. exact SegQueueThm.progress. Qed.
Print Assumptions progress_measure.

(* After a segment failed (decode failure, bad ciphertext hash: SBlocks false; not
   enough shares: SFetchFailed) the next read on the same node gets its request into the
   queue, not cancelled, and a fetcher is active for a requested segment. *)
Theorem failed_read_does_not_block_next :
  forall (ct : list N) (segsize guess : N) (evs : list sev) (e : sev) (off : N) (sz : option N),
  guarded ct segsize guess sinit evs ->
  let s := fst (srun true ct segsize guess sinit evs) in
  (exists err, e = SBlocks false err \/ e = SFetchFailed err) -> sev_ok s e ->
  read_clip (fsize ct) off sz <> 0%N ->
  let s1 := fst (sstep true ct segsize guess s e) in
  let s2 := fst (sstep true ct segsize guess s1 (SRead off sz)) in
  exists r w rid k fid seg,
    nth_error (s_readers s2) (length (s_readers s1)) = Some r /\ rd_result r = None /\
    rd_active r = Some (w, rid, k) /\ In (mk_req w rid) (s_reqs s2) /\ ~ In rid (s_inactive s2) /\
    s_active s2 = Some (fid, seg) /\ In seg (map r_seg (s_reqs s2)).
Proof. exact failed_then_read. Qed.
Print Assumptions failed_read_does_not_block_next.

(* The active fetcher itself terminates: every fair run of a SegmentFetcher ends in
   process_blocks or fetch_failed (C03's liveness theorem, restated). *)
Theorem active_fetcher_terminates :
  forall (w : world) (k : nat) (seg : N) (r : nat -> fev),
  NoDup (w_shares w) -> valid w k seg r -> fair_loops k seg r -> fair_requests k seg r -> fair_finder k seg r ->
  exists n o, In o (outs_upto k seg r n) /\ is_final o /\ f_running (fst (gat k seg r n)) = false.
Proof. exact fair_run_terminates. Qed.
Print Assumptions active_fetcher_terminates.

(* The share finder (finder.py ShareFinder.loop, model in Model/Fetcher.v): a hungry,
   running finder with no loop() queued either still has DYHB requests in flight, each
   with its overdue timer armed or already overdue (so an answer, an error or the timer
   queues the next loop()), or it has answered the last hungry() call: shares delivered
   or no_more_shares reported.  `snd` of the ghost-augmented state is that flag. *)
Theorem finder_never_silently_idle :
  forall (servers : list N) (m : nat) (evs : list dev),
  1 <= m ->
  let g := fst (dgrun (dinit servers m, true) evs) in
  let s := fst g in
  d_running s = true -> d_hungry s = true -> d_loops s = 0 ->
  (d_pending s <> [] /\ forall x, In x (d_pending s) -> In x (d_timers s) \/ In x (d_overdue s)) \/
  (d_pending s = [] /\ snd g = true).
Proof. exact finder_never_silently_idle_ok. Qed.
Print Assumptions finder_never_silently_idle.

(* no_more_shares is reported only when every server was asked and nothing is in flight *)
Theorem finder_exhaustion_only_when_done :
  forall s e, In DNoMoreShares (snd (dstep s e)) ->
  d_servers s = [] /\ d_pending s = [] /\ d_hungry s = true /\ d_running s = true.
Proof. exact dstep_no_more. Qed.
Print Assumptions finder_exhaustion_only_when_done.

(* What was wrong: with the old failure branch, a read of segment 0 whose ciphertext
   hash check fails, followed by a read of segment 1, leaves the stopped fetcher of
   segment 0 registered as active: request queued, nothing queued to run, no fetcher
   for it, the reader hungry with no bytes -- for ever. *)
Theorem no_stuck_state_refuted_before_repair :
  let s := fst (srun false stuck_file 4 4 sinit stuck_events) in
  s_reqs s = [mk_req 1 1]%N /\ s_active s = Some (0, 0)%N /\ s_deliveries s = [] /\
  (exists r, nth_error (s_readers s) 1 = Some r /\ rd_result r = None /\ rd_hungry r = true /\ rd_written r = []) /\
  ~ queue_ok s.
Proof. exact old_code_stuck_ok. Qed.
Print Assumptions no_stuck_state_refuted_before_repair.

Example ex_same_events_after_repair :
  let s := fst (srun true stuck_file 4 4 sinit stuck_events) in
  s_reqs s = [mk_req 1 1]%N /\ s_active s = Some (1, 1)%N /\ queue_ok s.
Proof. exact new_code_not_stuck_ok. Qed.

Example ex_second_read_completes :
  let s := fst (srun true stuck_file 4 4 sinit (stuck_events ++ [SBlocks true EOther; SDeliver Quiet])) in
  exists r, nth_error (s_readers s) 1 = Some r /\ rd_result r = Some RDone /\ concat (rd_written r) = [5; 6]%N.
Proof. exact new_code_second_read_ok. Qed.

Example guarded_nonvacuous : guarded stuck_file 4 4 sinit (stuck_events ++ [SBlocks true EOther; SDeliver Quiet]).
Proof. vm_compute. tauto. Qed.
