(* C05  Convergent capabilities and literal files.
   Statements only; each is closed by `exact` of a lemma in Proofs/Convergence.v.
   The model is Model/Convergence.v over Gen/Hashutil.v (regenerated from
   src/allmydata/util/hashutil.py on every run) and Gen/ImmConsts.v
   (URI_LIT_SIZE_THRESHOLD, the read block size, the AST pins of the
   hand-modelled functions of immutable/upload.py). *)
From Coq Require Import String List NArith Bool.
From Verif Require Import Lib.Hex Lib.Netstring Lib.SHA256 Lib.HashPrim Gen.Hashutil Gen.ImmConsts
  Model.Convergence Proofs.Convergence.
Import ListNotations.
Local Open Scope N_scope.

(* -- determinism: any chunking, any data source ----------------------------- *)

(* The hasher fed with ANY sequence of chunks gives the key of their concatenation. *)
Theorem key_chunking_independent :
  forall k n segsize secret chunks,
  convergent_key_chunked k n segsize secret chunks = convergent_key k n segsize secret (concat chunks).
Proof. exact key_chunking_independent_ok. Qed.
Print Assumptions key_chunking_independent.

(* The read loop of FileHandle._get_encryption_key_convergent over a file object
   whose read(BLOCKSIZE) may return fewer bytes than asked for (at least one
   until the end of the file: an empty read is taken for the end of the file by
   the real loop, see ex_empty_read_ends_loop) computes the key of the whole file. *)
Theorem key_read_loop_independent :
  forall k n segsize secret sched data,
  Forall (fun s => 1 <= s) sched ->
  convergent_key_read k n segsize secret sched data = convergent_key k n segsize secret data.
Proof. exact key_read_loop_independent_ok. Qed.
Print Assumptions key_read_loop_independent.

(* What Uploader.upload determines of the result (literal cap, or key/k/n/size of
   the CHK read-cap) does not depend on how the source hands out the data. *)
Theorem upload_source_independent :
  forall max_seg k n secret sched data,
  Forall (fun s => 1 <= s) sched ->
  upload_convergent_read max_seg k n secret sched data = upload_convergent max_seg k n secret data.
Proof. exact upload_source_independent_ok. Qed.
Print Assumptions upload_source_independent.

(* -- the parameters are hashed in --------------------------------------------- *)

Theorem tag_injective :
  forall k n seg s k' n' seg' s',
  _convergence_hasher_tag k n seg s = _convergence_hasher_tag k' n' seg' s' ->
  k = k' /\ n = n' /\ seg = seg' /\ s = s'.
Proof. exact tag_injective_ok. Qed.
Print Assumptions tag_injective.

(* Unconditional: two uploads that differ in k, n, segment size, secret or
   plaintext but get the same key exhibit a collision of SHA-256d truncated to
   128 bits (two DIFFERENT hash inputs with the same truncated digest)... *)
Theorem same_key_is_collision :
  forall k n seg s d k' n' seg' s' d',
  (k, n, seg, s, d) <> (k', n', seg', s', d') ->
  convergent_key k n seg s d = convergent_key k' n' seg' s' d' ->
  trunc_collision (key_message k n seg s d) (key_message k' n' seg' s' d').
Proof. exact same_key_is_collision_ok. Qed.
Print Assumptions same_key_is_collision.

(* ... and so do two different keys with the same storage index. *)
Theorem same_si_is_collision :
  forall key key',
  key <> key' -> chk_storage_index key = chk_storage_index key' ->
  trunc_collision (si_message key) (si_message key').
Proof. exact same_si_is_collision_ok. Qed.
Print Assumptions same_si_is_collision.

(* Relative to collision freedom.  Msgs is any set of hash inputs (those of the
   uploads under consideration) on which truncated SHA-256d is injective --
   injectivity on ALL byte strings is impossible for a 128-bit digest and is not
   assumed.  Then changing any of k, n, segment size, secret (or the plaintext)
   changes the key and the storage index. *)
Theorem param_change_changes_key_and_si :
  forall (Msgs : list N -> Prop),
  (forall a b, Msgs a -> Msgs b -> trunc16 (sha256d a) = trunc16 (sha256d b) -> a = b) ->
  forall k n seg s d k' n' seg' s' d',
  Msgs (key_message k n seg s d) -> Msgs (key_message k' n' seg' s' d') ->
  Msgs (si_message (convergent_key k n seg s d)) -> Msgs (si_message (convergent_key k' n' seg' s' d')) ->
  (k <> k' \/ n <> n' \/ seg <> seg' \/ s <> s' \/ d <> d') ->
  convergent_key k n seg s d <> convergent_key k' n' seg' s' d' /\
  chk_storage_index (convergent_key k n seg s d) <> chk_storage_index (convergent_key k' n' seg' s' d').
Proof. exact param_change_changes_key_and_si_ok. Qed.
Print Assumptions param_change_changes_key_and_si.

(* The hypothesis is satisfiable: for the two uploads of 56 bytes "x" with secret
   "secret" that differ in k (3 / 4, hence segment size 57 / 56) the four hash
   inputs have pairwise different truncated digests (computed), and the theorem
   above yields: *)
Theorem param_change_changes_key_and_si_nonvacuous :
  convergent_key 3 10 57 ex_secret ex_data <> convergent_key 4 10 56 ex_secret ex_data /\
  chk_storage_index (convergent_key 3 10 57 ex_secret ex_data)
    <> chk_storage_index (convergent_key 4 10 56 ex_secret ex_data).
Proof. exact param_change_nonvacuous_ok. Qed.
Print Assumptions param_change_changes_key_and_si_nonvacuous.

(* segsize = next_multiple(min(max_segment_size, size), k): the multiple of k in
   [min, min + k) -- so max_segment_size or k can change the hashed segment size *)
Theorem upload_segsize_spec :
  forall max_seg size k, 1 <= k ->
  let s := cv_upload_segsize max_seg size k in
  s mod k = 0 /\ N.min max_seg size <= s /\ s < N.min max_seg size + k.
Proof. exact upload_segsize_spec_ok. Qed.
Print Assumptions upload_segsize_spec.

(* -- literal files ------------------------------------------------------------ *)

Theorem literal_iff_le_55 :
  forall size, upload_kind size = Literal <-> size <= 55.
Proof. exact literal_iff_le_55_ok. Qed.
Print Assumptions literal_iff_le_55.

Theorem chk_iff_ge_56 :
  forall size, upload_kind size = CHK <-> 56 <= size.
Proof. exact chk_iff_ge_56_ok. Qed.
Print Assumptions chk_iff_ge_56.

(* The literal cap embeds the data: decoding the cap string gives the data back,
   for every byte string (Python bytes: every element < 256) of any length. *)
Theorem literal_cap_embeds_data :
  forall data, cv_bytes_ok data = true -> literal_cap_data (literal_cap data) = Some data.
Proof. exact literal_cap_embeds_data_ok. Qed.
Print Assumptions literal_cap_embeds_data.

(* Upload of at most 55 bytes, then LiteralFileNode.read of the whole file: the
   model needs nothing but the cap (no server state appears in literal_read). *)
Theorem literal_upload_round_trip :
  forall max_seg k n secret data,
  cv_bytes_ok data = true -> blen data <= 55 ->
  exists cap, upload_convergent max_seg k n secret data = ULiteral cap /\
              literal_read cap 0 (blen data) = Some data.
Proof. exact literal_upload_round_trip_ok. Qed.
Print Assumptions literal_upload_round_trip.

Theorem upload_chk_above_threshold :
  forall max_seg k n secret data,
  56 <= blen data ->
  upload_convergent max_seg k n secret data = UCHK (convergent_cap_fields max_seg k n secret data).
Proof. exact upload_chk_ok. Qed.
Print Assumptions upload_chk_above_threshold.

(* -- the hand-modelled functions are the ones the model was written for -------- *)
Theorem pins :
  (pin_FileHandle_get_encryption_key_convergent, pin_FileHandle_get_encryption_key_random,
   pin_FileHandle_get_encryption_key, pin_Uploader_upload, pin_LiteralUploader_start,
   pin_BaseUploadable_get_all_encoding_parameters, pin_EncryptAnUploadable_read_encrypted,
   pin_EncryptAnUploadable_hash_and_encrypt_plaintext)
  = ("15432aac02ca8169", "a98a6d5d41ba3347", "372b8d3c74308cb9", "c648ad5e8214dfbe",
     "8a0958199e46be77", "e74fad7b74b26da8", "561735b5c46b4fc9", "c875f08b14f62c92")%string.
Proof. exact pins_ok. Qed.
Print Assumptions pins.

(* -- known answers computed once with the real code --------------------------- *)
(* hashutil.convergence_hash(3, 10, 57, b"x"*56, b"secret") and its storage index *)
Example ex_known_convergent_key :
  convergent_key 3 10 57 (bytes_of_string "secret") (repeat 120 56) = unhex "898f230bb7695cee00b148557ab918ba".
Proof. vm_compute. reflexivity. Qed.

Example ex_known_storage_index :
  convergent_storage_index 1048576 3 10 (bytes_of_string "secret") (repeat 120 56)
  = unhex "788a3dae323b0e4c47be5d53e3e43d2e".
Proof. vm_compute. reflexivity. Qed.

Example ex_known_key_k4 :
  cf_key (convergent_cap_fields 1048576 4 10 (bytes_of_string "secret") (repeat 120 56))
  = unhex "d29ae9d9f21756683cd1eadfdae8ea0d".
Proof. vm_compute. reflexivity. Qed.

(* the same key through the read loop with short reads 3, 1, 50, then unlimited *)
Example ex_short_reads_same_key :
  convergent_key_read 3 10 57 (bytes_of_string "secret") [3; 1; 50] (repeat 120 56)
  = unhex "898f230bb7695cee00b148557ab918ba".
Proof. vm_compute. reflexivity. Qed.

(* an empty read in the middle of the file ends the real loop: the precondition
   of key_read_loop_independent is needed *)
Example ex_empty_read_ends_loop :
  file_chunks [2; 0; 5] [1; 2; 3; 4; 5] = [[1; 2]].
Proof. vm_compute. reflexivity. Qed.

(* uri.LiteralFileURI(b"Hello, Tahoe-LAFS!\n").to_string() *)
Example ex_known_literal_cap :
  literal_cap (bytes_of_string "Hello, Tahoe-LAFS!" ++ [10]) = bytes_of_string "URI:LIT:jbswy3dpfqqfiylin5ss2tcbizjsccq".
Proof. vm_compute. reflexivity. Qed.

Example ex_literal_cap_55_bytes_round_trip :
  literal_cap_data (literal_cap (map N.of_nat (seq 200 55))) = Some (map N.of_nat (seq 200 55)).
Proof. vm_compute. reflexivity. Qed.

(* strings LiteralFileURI.init_from_string rejects: non-zero unused bits, impossible length, upper case *)
Example ex_literal_rejects :
  (literal_cap_data (bytes_of_string "URI:LIT:mfrgh"), literal_cap_data (bytes_of_string "URI:LIT:mfr"),
   literal_cap_data (bytes_of_string "URI:LIT:ME"), literal_cap_data (bytes_of_string "URI:LIT:me"))
  = (None, None, None, Some [97]).
Proof. vm_compute. reflexivity. Qed.

Example ex_threshold_boundary :
  (upload_kind 0, upload_kind 55, upload_kind 56) = (Literal, Literal, CHK).
Proof. vm_compute. reflexivity. Qed.

Example ex_segsize :
  (cv_upload_segsize 131072 56 3, cv_upload_segsize 131072 56 4, cv_upload_segsize 100 1000 3,
   cv_upload_segsize 131072 200000 3)
  = (57, 56, 102, 131073).
Proof. vm_compute. reflexivity. Qed.
