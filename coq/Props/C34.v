(* C34  Introducer announcements are authentic and fresh.
   Statements only; proofs are in Proofs/Announce.v.  Model/Announce.v mirrors
   introducer/common.py unsign_from_foolscap, introducer/client.py
   IntroducerClient.got_announcements / _process_announcement (client = true)
   and introducer/server.py IntroducerService._publish (client = false).  The
   signature scheme, key-string parsing and JSON decoding are universally
   quantified; `keystr_eqb` is only required to decide equality of key strings. *)
From Coq Require Import List NArith ZArith Bool.
From Verif Require Import Lib.Sig Model.Announce Proofs.Announce.
Import ListNotations.
Local Open Scope N_scope.

(* Whatever stream of batches arrives, everything stored (and everything
   delivered to subscribers) is an announcement that appeared in the stream
   with a key string that parses to some key, a signature that verifies under
   that key over exactly the message that decodes to it; and it is filed under
   the canonical string of that key and its own service name. *)
Theorem stored_only_if_verified :
  forall (pubkey keystr msg sig : Type) (verify : pubkey -> msg -> sig -> bool)
         (parse_key : keystr -> option pubkey) (canon : pubkey -> keystr) (decode : msg -> option ann_json)
         (keystr_eqb : keystr -> keystr -> bool),
    (forall a b, keystr_eqb a b = true <-> a = b) ->
    forall (client : bool) (subscribed : N -> bool) (batches : list (list (wire keystr msg sig))),
    let final := fst (run_stream verify parse_key canon decode keystr_eqb client subscribed empty_state batches) in
    (forall svc ks a, In ((svc, ks), a) (st_store final) ->
       exists w key m sg ks0,
         In w (concat batches) /\ w = WTriple m (SfOk sg) (KfOk ks0) /\ parse_key ks0 = Some key /\
         verify key m sg = true /\ decode m = Some (AJ a) /\ ks = canon key /\ svc = a_service a) /\
    (forall ks a, In (ks, a) (st_delivered final) ->
       exists w key m sg ks0,
         In w (concat batches) /\ w = WTriple m (SfOk sg) (KfOk ks0) /\ parse_key ks0 = Some key /\
         verify key m sg = true /\ decode m = Some (AJ a) /\ ks = canon key).
Proof. exact stored_only_if_verified_full. Qed.
Print Assumptions stored_only_if_verified.

(* If signatures verify only for genuinely signed messages, every stored or
   delivered announcement was signed by the key it is attributed to. *)
Theorem attributed_to_signer :
  forall (pubkey keystr msg sig : Type) (verify : pubkey -> msg -> sig -> bool)
         (parse_key : keystr -> option pubkey) (canon : pubkey -> keystr) (decode : msg -> option ann_json)
         (keystr_eqb : keystr -> keystr -> bool),
    (forall a b, keystr_eqb a b = true <-> a = b) ->
    forall (client : bool) (subscribed : N -> bool) (signed : pubkey -> msg -> Prop)
           (batches : list (list (wire keystr msg sig))),
    sig_sound verify signed ->
    let final := fst (run_stream verify parse_key canon decode keystr_eqb client subscribed empty_state batches) in
    (forall (i : index keystr) a, In (i, a) (st_store final) ->
       exists key m, snd i = canon key /\ fst i = a_service a /\ signed key m /\ decode m = Some (AJ a)) /\
    (forall ks a, In (ks, a) (st_delivered final) ->
       exists key m, ks = canon key /\ signed key m /\ decode m = Some (AJ a)).
Proof. exact attributed_to_signer_ok. Qed.
Print Assumptions attributed_to_signer.

(* Freshness.  Take any point of any stream (after batches1) and any later
   point (after batches1 ++ batches2).  An index that held `old` still holds
   something, `new`, and either nothing changed, or `old` carried no "seqnum",
   or `old` carried a number o and `new` carries an integer n with o < n.
   An announcement whose seqnum is not a number is never replaced.  So per
   index the stored integer sequence numbers strictly increase over time and
   no announcement is ever replaced by one with an equal or lower number. *)
Theorem seqnum_strictly_increases_per_index :
  forall (pubkey keystr msg sig : Type) (verify : pubkey -> msg -> sig -> bool)
         (parse_key : keystr -> option pubkey) (canon : pubkey -> keystr) (decode : msg -> option ann_json)
         (keystr_eqb : keystr -> keystr -> bool),
    (forall a b, keystr_eqb a b = true <-> a = b) ->
    forall (client : bool) (subscribed : N -> bool) (batches1 batches2 : list (list (wire keystr msg sig)))
           (i : index keystr) (old : ann),
    lookup keystr_eqb
      (st_store (fst (run_stream verify parse_key canon decode keystr_eqb client subscribed empty_state batches1))) i = Some old ->
    exists new,
      lookup keystr_eqb
        (st_store (fst (run_stream verify parse_key canon decode keystr_eqb client subscribed empty_state (batches1 ++ batches2)))) i
        = Some new /\
      (new = old \/
       match a_seq old with
       | SAbsent => True
       | SInt o | SHalf o => exists n, a_seq new = SInt n /\ (o < n)%Z
       | SOther => False
       end).
Proof. exact seqnum_strictly_increases_ok. Qed.
Print Assumptions seqnum_strictly_increases_per_index.

(* Losing and re-establishing the connection to the introducer between batches forgets nothing:
   a stream with connection losses ends in the same state (same store, same deliveries, same
   verdicts) as the stream of its batches delivered over one uninterrupted connection ... *)
Theorem reconnect_preserves_state :
  forall (pubkey keystr msg sig : Type) (verify : pubkey -> msg -> sig -> bool)
         (parse_key : keystr -> option pubkey) (canon : pubkey -> keystr) (decode : msg -> option ann_json)
         (keystr_eqb : keystr -> keystr -> bool)
         (client : bool) (subscribed : N -> bool) (evs : list (event keystr msg sig)) (st : state keystr),
    run_events verify parse_key canon decode keystr_eqb client subscribed st evs =
    run_stream verify parse_key canon decode keystr_eqb client subscribed st (batches_of evs).
Proof. exact run_events_batches. Qed.
Print Assumptions reconnect_preserves_state.

(* ... so freshness holds across reconnections: whatever an index held at some point of a stream
   of batches and connection losses is, at every later point, unchanged or replaced by a strictly
   greater integer sequence number (or had no seqnum). *)
Theorem seqnum_strictly_increases_across_reconnects :
  forall (pubkey keystr msg sig : Type) (verify : pubkey -> msg -> sig -> bool)
         (parse_key : keystr -> option pubkey) (canon : pubkey -> keystr) (decode : msg -> option ann_json)
         (keystr_eqb : keystr -> keystr -> bool),
    (forall a b, keystr_eqb a b = true <-> a = b) ->
    forall (client : bool) (subscribed : N -> bool) (evs1 evs2 : list (event keystr msg sig))
           (i : index keystr) (old : ann),
    lookup keystr_eqb
      (st_store (fst (run_events verify parse_key canon decode keystr_eqb client subscribed empty_state evs1))) i = Some old ->
    exists new,
      lookup keystr_eqb
        (st_store (fst (run_events verify parse_key canon decode keystr_eqb client subscribed empty_state (evs1 ++ evs2)))) i
        = Some new /\
      (new = old \/
       match a_seq old with
       | SAbsent => True
       | SInt o | SHalf o => exists n, a_seq new = SInt n /\ (o < n)%Z
       | SOther => False
       end).
Proof. exact seqnum_survives_reconnects_ok. Qed.
Print Assumptions seqnum_strictly_increases_across_reconnects.

(* A subscriber that registers late (after any stream of batches and connection losses) is told,
   for its service, each key together with exactly the announcement currently held for that key. *)
Theorem late_subscriber_gets_current :
  forall (pubkey keystr msg sig : Type) (verify : pubkey -> msg -> sig -> bool)
         (parse_key : keystr -> option pubkey) (canon : pubkey -> keystr) (decode : msg -> option ann_json)
         (keystr_eqb : keystr -> keystr -> bool),
    (forall a b, keystr_eqb a b = true <-> a = b) ->
    forall (client : bool) (subscribed : N -> bool) (evs : list (event keystr msg sig)) (svc : N) (ks : keystr) (a : ann),
    let st := fst (run_events verify parse_key canon decode keystr_eqb client subscribed empty_state evs) in
    In (ks, a) (backlog st svc) <-> lookup keystr_eqb (st_store st) (svc, ks) = Some a.
Proof. exact late_subscriber_gets_current_ok. Qed.
Print Assumptions late_subscriber_gets_current.

(* the same, read for integer sequence numbers *)
Theorem seqnum_never_replaced_by_lower_or_equal :
  forall (pubkey keystr msg sig : Type) (verify : pubkey -> msg -> sig -> bool)
         (parse_key : keystr -> option pubkey) (canon : pubkey -> keystr) (decode : msg -> option ann_json)
         (keystr_eqb : keystr -> keystr -> bool),
    (forall a b, keystr_eqb a b = true <-> a = b) ->
    forall (client : bool) (subscribed : N -> bool) (batches1 batches2 : list (list (wire keystr msg sig)))
           (i : index keystr) (old : ann) (o : Z),
    lookup keystr_eqb
      (st_store (fst (run_stream verify parse_key canon decode keystr_eqb client subscribed empty_state batches1))) i = Some old ->
    a_seq old = SInt o ->
    exists new n,
      lookup keystr_eqb
        (st_store (fst (run_stream verify parse_key canon decode keystr_eqb client subscribed empty_state (batches1 ++ batches2)))) i
        = Some new /\
      a_seq new = SInt n /\ (o <= n)%Z /\ (n = o -> new = old).
Proof. exact seqnum_never_replaced_by_lower_or_equal_full. Qed.
Print Assumptions seqnum_never_replaced_by_lower_or_equal.

(* the decision itself, at an index holding an integer sequence number:
   identical announcement = duplicate, ignored; otherwise replaced only by a
   strictly greater integer; equal/lower = too old; missing/non-integer = rejected *)
Theorem replace_rule :
  forall (pubkey keystr : Type) (canon : pubkey -> keystr) (keystr_eqb : keystr -> keystr -> bool)
         (client : bool) (subscribed : N -> bool) (st : store keystr) (key : pubkey) (a old : ann),
    (client = true -> subscribed (a_service a) = true /\ a_desc_ok a = true) ->
    lookup keystr_eqb st (a_service a, canon key) = Some old ->
    forall o, a_seq old = SInt o ->
      process keystr_eqb client subscribed st (AJ a) (canon key) =
        if ann_eqb old a then PDuplicate
        else match a_seq a with
             | SInt n => if (n <=? o)%Z then PTooOld else PUpdate
             | _ => PNoValidSeq
             end.
Proof. exact replace_rule_full. Qed.
Print Assumptions replace_rule.

(* A bad announcement does not stop the batch: every element after it is
   processed, from the state it left behind; one that fails verification or
   decoding leaves every state untouched; and when it is not stored the
   rest of the batch fares exactly as if it had not been there. *)
Theorem bad_announcement_does_not_stop_batch :
  forall (pubkey keystr msg sig : Type) (verify : pubkey -> msg -> sig -> bool)
         (parse_key : keystr -> option pubkey) (canon : pubkey -> keystr) (decode : msg -> option ann_json)
         (keystr_eqb : keystr -> keystr -> bool),
    (forall a b, keystr_eqb a b = true <-> a = b) ->
    forall (client : bool) (subscribed : N -> bool) (st : state keystr) (pre : list (wire keystr msg sig))
           (w : wire keystr msg sig) (post : list (wire keystr msg sig)),
    let got := got_announcements verify parse_key canon decode keystr_eqb client subscribed in
    let stp := step verify parse_key canon decode keystr_eqb client subscribed in
    got st (pre ++ w :: post) =
      (fst (got (fst (stp (fst (got st pre)) w)) post),
       snd (got st pre) ++ snd (stp (fst (got st pre)) w) :: snd (got (fst (stp (fst (got st pre)) w)) post))
    /\ (forall r, unsign_from_foolscap verify parse_key canon decode w = inl r -> forall s, stp s w = (s, r))
    /\ (stores (snd (stp (fst (got st pre)) w)) = false ->
        fst (got st (pre ++ w :: post)) = fst (got st (pre ++ post))).
Proof. exact bad_announcement_does_not_stop_batch_full. Qed.
Print Assumptions bad_announcement_does_not_stop_batch.

(* ---- examples on the symbolic scheme ----
   keys 1, 2; service 7 is subscribed, 8 is not;
   message 10 = key 1's announcement seq 5, 11 = seq 6, 12 = seq 5 with other content,
   13 = no seqnum, 14 = key 2's seq 1, 15 = for service 8, 16 = not JSON, 17 = JSON without service-name *)
Definition ex_ann (seq : seqval) (body : N) : option ann_json :=
  Some (AJ {| a_service := 7; a_desc_ok := true; a_seq := seq; a_body := body |}).
Definition ex_tbl : sym_ann_table :=
  [ (10, ex_ann (SInt 5) 10); (11, ex_ann (SInt 6) 11); (12, ex_ann (SInt 5) 12); (13, ex_ann SAbsent 13);
    (14, ex_ann (SInt 1) 14);
    (15, Some (AJ {| a_service := 8; a_desc_ok := true; a_seq := SInt 9; a_body := 15 |}));
    (16, None); (17, Some AJMalformed) ].
Definition good (k m : N) : sym_wire := WTriple m (SfOk (sym_sign k m)) (KfOk (k, 0)).

Example ex_replay_reorder :
  let r := sym_run true ex_tbl true [7] [[good 1 10; good 1 11]; [good 1 10; good 1 12; good 1 13; good 1 11]] in
  (delivered_ids (fst r), snd r) =
  ([(1, 0, 10); (1, 0, 11)], [[PNew; PUpdate]; [PTooOld; PTooOld; PNoValidSeq; PDuplicate]]).
Proof. vm_compute. reflexivity. Qed.

Example ex_forgeries_do_not_stop_the_batch :
  let forged_key := WTriple 11 (SfOk (sym_sign 1 11)) (KfOk (2, 0)) in       (* key 1's signature, claimed for key 2 *)
  let flipped_msg := WTriple 11 (SfOk (sym_sign 1 10)) (KfOk (1, 0)) in
  let junk_sig := WTriple 11 (SfOk (SigJunk 3)) (KfOk (1, 0)) in
  let r := sym_run true ex_tbl true [7]
             [[good 1 10; forged_key; flipped_msg; junk_sig; WNotTriple; WTriple 11 SfEmpty KfEmpty;
               WTriple 11 (SfOk (sym_sign 1 11)) KfNoV0; WTriple 11 SfBadBase32 (KfOk (1, 0));
               WTriple 11 (SfOk (sym_sign 1 11)) (KfOk (0, 0)); good 1 16; good 1 17; good 1 15; good 2 14]] in
  (delivered_ids (fst r), snd r) =
  ([(1, 0, 10); (2, 0, 14)],
   [[PNew; RBadSignature; RBadSignature; RBadSignature; RNotTriple; RUnknownKey; RUnknownKey; RMalformedSig;
     RMalformedKey; RNotJSON; PRaise; PWrongService; PNew]]).
Proof. vm_compute. reflexivity. Qed.

(* a replay under a respelled key string lands on the same index and is refused *)
Example ex_respelled_key_replay :
  let r := sym_run true ex_tbl true [7] [[good 1 11; WTriple 10 (SfOk (sym_sign 1 10)) (KfOk (1, 1))]] in
  (stored_ids (fst r), snd r) = ([(7, 1, 0, 11)], [[PNew; PTooOld]]).
Proof. vm_compute. reflexivity. Qed.

(* an old, validly signed announcement replayed after a reconnection is still refused *)
Example ex_replay_after_reconnect :
  let r := sym_run_events true ex_tbl true [7] [EBatch [good 1 10; good 1 11]; EReconnect; EBatch [good 1 10; good 1 13]] in
  (stored_ids (fst r), snd r) = ([(7, 1, 0, 11)], [[PNew; PUpdate]; [PTooOld; PNoValidSeq]]).
Proof. vm_compute. reflexivity. Qed.

Example ex_late_subscriber :
  let r := sym_run_events true ex_tbl true [7] [EBatch [good 1 10; good 2 14; good 1 11]] in
  backlog_ids (fst r) 7 = [(1, 0, 11); (2, 0, 14)].
Proof. vm_compute. reflexivity. Qed.

Example keystr_eqb_nonvacuous : forall a b, sym_keystr_eqb a b = true <-> a = b.
Proof.
  intros [a1 a2] [b1 b2]. unfold sym_keystr_eqb. cbn [fst snd].
  rewrite andb_true_iff, !N.eqb_eq. split.
  - intros [-> ->]. reflexivity.
  - intros H. inversion H. auto.
Qed.
