(* C03  Immutable availability with k good shares.
   Statements only.  Model/Fetcher.v: SegmentFetcher (immutable/downloader/fetcher.py)
   as a transition system whose events are its entry points (add_shares,
   no_more_shares, block-request activity, one queued loop()).  A world fixes the
   shares on answering servers and which are good (their request ends in COMPLETE);
   `ev_ok` (Proofs/FetcherWorld.v) is what node, finder and Share objects may do. *)
From Coq Require Import List NArith Bool Arith.
From Verif Require Import Lib.Sched Model.Fetcher Proofs.FetcherBase Proofs.FetcherWorld Proofs.FetcherLive Proofs.FetcherThm.
Import ListNotations.

(* Whenever the fetcher hands blocks to the node they belong to at least k distinct
   share numbers -- for every sequence of events whatsoever. *)
Theorem process_blocks_has_k_distinct :
  forall (k : nat) (seg : N) (evs : list fev) (bl : list (N * N)),
  In (OProcessBlocks bl) (snd (frun (finit k seg) evs)) ->
  NoDup (map fst bl) /\ k <= length bl.
Proof. exact process_blocks_has_k_distinct_ok. Qed.
Print Assumptions process_blocks_has_k_distinct.

(* NotEnoughSharesError / NoSharesError is raised only after no_more_shares and only when
   the share numbers among blocks, active, overdue and unused shares are fewer than k;
   NoSharesError exactly when nothing at all is left.  For every event sequence. *)
Theorem error_only_if_fewer_than_k :
  forall (k : nat) (seg : N) (evs : list fev) (e : fev) (err : ferr),
  let s := fst (frun (finit k seg) evs) in
  In (OFetchFailed err) (snd (fstep s e)) -> err <> BadSegmentNumberError ->
  f_no_more s = true /\
  distinct (bnums (f_blocks s) ++ nums (f_active s) ++ nums (f_overdue s) ++ nums (f_shares s)) < k /\
  (err = NoSharesError /\ f_blocks s = [] /\ f_active s = [] /\ f_overdue s = [] /\ f_shares s = [] \/
   err = NotEnoughSharesError /\ all_nums s <> []).
Proof. exact error_only_if_fewer_than_k_ok. Qed.
Print Assumptions error_only_if_fewer_than_k.

(* In a world: blocks are handed over only if k distinct good share numbers exist, and
   the error is raised only if fewer than k do -- the read never returns data from
   fewer than k good shares and never gives up while k good shares are reachable. *)
Theorem data_iff_k_good_shares :
  forall (w : world) (k : nat) (seg : N) (evs : list fev),
  NoDup (w_shares w) -> accepted gstep (ev_ok w) (ginit k seg) evs ->
  Forall (fun o => match o with
                   | OProcessBlocks _ => k <= good_distinct w
                   | OFetchFailed e => e <> BadSegmentNumberError /\ good_distinct w < k
                   | _ => True
                   end) (snd (run gstep (ginit k seg) evs)).
Proof. exact (fun w k seg evs Hw A => run_out_ok w k seg Hw evs A). Qed.
Print Assumptions data_iff_k_good_shares.

(* Every fair run -- queued loops run, every outstanding block request eventually stops
   being outstanding, the finder eventually reports exhaustion -- stops the fetcher with
   process_blocks or fetch_failed ... *)
Theorem fetcher_terminates :
  forall (w : world) (k : nat) (seg : N) (r : nat -> fev),
  NoDup (w_shares w) -> valid w k seg r -> fair_loops k seg r -> fair_requests k seg r -> fair_finder k seg r ->
  exists n o, In o (outs_upto k seg r n) /\ is_final o /\ f_running (fst (gat k seg r n)) = false.
Proof. exact fair_run_terminates. Qed.
Print Assumptions fetcher_terminates.

(* ... and with at least k distinct good share numbers on answering servers it is
   process_blocks: the read of the segment succeeds whatever the other shares do. *)
Theorem availability :
  forall (w : world) (k : nat) (seg : N) (r : nat -> fev),
  NoDup (w_shares w) -> valid w k seg r -> fair_loops k seg r -> fair_requests k seg r -> fair_finder k seg r ->
  k <= good_distinct w ->
  exists n bl, In (OProcessBlocks bl) (outs_upto k seg r n).
Proof. exact fair_run_available. Qed.
Print Assumptions availability.

(* the hypotheses of availability are satisfiable *)
Example availability_nonvacuous :
  exists w k seg r, NoDup (w_shares w) /\ valid w k seg r /\ fair_loops k seg r /\ fair_requests k seg r /\
                    fair_finder k seg r /\ k <= good_distinct w.
Proof. exists ex_world, 1, 0%N, ex_run. exact ex_fair. Qed.

(* a stopped fetcher makes no further calls (the node's queue model relies on it) *)
Theorem stopped_fetcher_is_silent :
  forall s e, f_running s = false -> snd (fstep s e) = [] /\ f_running (fst (fstep s e)) = false.
Proof. exact fstep_stopped. Qed.
Print Assumptions stopped_fetcher_is_silent.

(* the fuel of the model's _do_loop is never exhausted *)
Theorem loop_fuel_suffices :
  forall s outs, f_max_per_server s >= 1 -> do_while (loop_fuel s) s outs <> None.
Proof. exact loop_fuel_suffices_ok. Qed.
Print Assumptions loop_fuel_suffices.

(* k = 2, shares 0 and 1 good on one server, share 2 bad: the bad share dies, the
   diversity limit is raised, the blocks of shares 0 and 1 reach the node *)
Example ex_fallback_to_other_shares :
  let a := mk_share 0 0 0 1 in let b := mk_share 1 1 0 1 in let c := mk_share 2 2 1 0 in
  snd (frun (finit 2 0) [EAddShares [a; b; c]; ELoop None; EActivity c DEAD; ENoMoreShares; ELoop None;
                         EActivity a COMPLETE; ELoop None; EActivity b COMPLETE; ELoop None])
  = [OStart c; OStart a; OStart b; OProcessBlocks [(0, 0); (1, 1)]]%N.
Proof. vm_compute. reflexivity. Qed.

(* one good share only: NotEnoughSharesError, never blocks *)
Example ex_not_enough :
  let a := mk_share 0 0 0 1 in let c := mk_share 2 2 1 0 in
  snd (frun (finit 2 0) [EAddShares [a; c]; ELoop None; EActivity c CORRUPT; EActivity a COMPLETE; ENoMoreShares; ELoop None; ELoop None; ELoop None])
  = [OStart c; OStart a; OFetchFailed NotEnoughSharesError]%N.
Proof. vm_compute. reflexivity. Qed.

(* latent: after an OVERDUE the fetcher can collect more than k blocks (k = 1 here, two
   blocks handed over); CRSDecoder.decode insists on exactly k.  No Share emits OVERDUE
   in this tree, so the node never sees it. *)
Example ex_more_than_k_blocks_after_overdue :
  let a := mk_share 0 0 0 1 in let b := mk_share 1 1 1 1 in
  snd (frun (finit 1 0) [EAddShares [a; b]; ELoop None; EActivity a OVERDUE; ELoop None; EActivity a COMPLETE; EActivity b COMPLETE; ELoop None])
  = [OStart a; OStart b; OProcessBlocks [(0, 0); (1, 1)]]%N.
Proof. vm_compute. reflexivity. Qed.
