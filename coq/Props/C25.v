(* C25  Lease semantics.
   Statements only; each is closed by `exact` of a lemma in Proofs/LeaseFinal.v.

   Files are byte lists; the lease methods of MutableShareFile and ShareFile are the
   byte-level transcriptions in Model/Lease.v.  `H` is blake2b (nacl.hash.blake2b with
   a 32-byte digest): every statement holds for every function H -- nothing about it is
   assumed.  `v` is the schema version of the container (V1: secrets stored as given,
   V2: hashes stored, candidates hashed before comparison).  `layout_ok` /
   `imm_layout_ok` are the executable layout invariants; `bytes_ok f` says every element
   of the list is a byte (< 256), needed where a field read back from disk is packed
   again.  The expiry field of the format is 4 bytes: `l_expire li < 2 ^ 32`. *)
From Coq Require Import List NArith Bool.
From Verif Require Import Lib.Hex Gen.MutConsts Model.MutContainer Model.Lease
  Proofs.MutContainerBytes Proofs.MutContainer Proofs.LeaseMutable Proofs.LeaseImmutable Proofs.Lease Proofs.LeaseFinal
  Proofs.LeaseCancel.
Import ListNotations.
Local Open Scope N_scope.

(* ---- adding a lease whose renew secret is known renews, it does not add --------------------- *)
(* `renew_first` is the reference: the first lease answering to the secret gets
   expiry max(old, new), every other lease and the number of leases stay as they are. *)
Theorem renew_not_duplicate :
  forall H maxsz f v avail li ls ls',
    layout_ok maxsz f = true -> bytes_ok f -> l_owner li <> 0 -> l_expire li < 2 ^ 32 ->
    mut_get_leases f = Ok ls -> renew_first H v ls (l_renew li) (l_expire li) = Some ls' ->
    exists f', mut_add_or_renew H v f avail li = Done f' /\ mut_get_leases f' = Ok ls' /\
               length ls' = length ls /\ layout_ok maxsz f' = true /\ abs_data f' = abs_data f.
Proof. exact renew_not_duplicate_mut_proof. Qed.
Print Assumptions renew_not_duplicate.

Theorem renew_not_duplicate_immutable :
  forall H f v lo avail li ls ls',
    imm_layout_ok f = true -> bytes_ok f -> l_expire li < 2 ^ 32 -> imm_open f = Ok (v, lo) ->
    immfile_get_leases f = Ok ls -> renew_first H v ls (l_renew li) (l_expire li) = Some ls' ->
    exists f', immfile_add_or_renew H f avail li = Done f' /\ immfile_get_leases f' = Ok ls' /\
               length ls' = length ls /\ imm_layout_ok f' = true /\ imm_data f' = imm_data f.
Proof. exact renew_not_duplicate_imm_proof. Qed.
Print Assumptions renew_not_duplicate_immutable.

(* ---- no lease operation shortens or removes a lease ---------------------------------------------- *)
(* whatever add_or_renew_lease does -- renew, refuse to backdate, fill an empty slot, append an
   extra lease, raise NoSpace or a struct error -- every lease present before is present after,
   in the same slot, identical up to an expiry that is not earlier; data and layout are kept *)
Theorem never_shortens :
  forall H maxsz f v avail li E,
    layout_ok maxsz f = true -> lease_wf (stored_form H v li) -> l_owner li <> 0 ->
    mut_enumerate f = Ok E ->
    layout_ok maxsz (out_file (mut_add_or_renew H v f avail li)) = true /\
    abs_data (out_file (mut_add_or_renew H v f avail li)) = abs_data f /\
    exists E', mut_enumerate (out_file (mut_add_or_renew H v f avail li)) = Ok E' /\ never_shorter E E'.
Proof. exact never_shortens_mut_proof. Qed.
Print Assumptions never_shortens.

Theorem never_shortens_renew :
  forall H maxsz f v s t E,
    layout_ok maxsz f = true -> mut_enumerate f = Ok E ->
    layout_ok maxsz (out_file (mut_renew_lease H v f s t)) = true /\
    abs_data (out_file (mut_renew_lease H v f s t)) = abs_data f /\
    exists E', mut_enumerate (out_file (mut_renew_lease H v f s t)) = Ok E' /\ never_shorter E E'.
Proof. exact never_shortens_renew_mut_proof. Qed.
Print Assumptions never_shortens_renew.

Theorem never_shortens_immutable :
  forall H f avail li ls,
    imm_layout_ok f = true -> immfile_get_leases f = Ok ls ->
    imm_layout_ok (out_file (immfile_add_or_renew H f avail li)) = true /\
    imm_data (out_file (immfile_add_or_renew H f avail li)) = imm_data f /\
    exists ls', immfile_get_leases (out_file (immfile_add_or_renew H f avail li)) = Ok ls' /\ never_shorter_list ls ls'.
Proof. exact never_shortens_imm_proof. Qed.
Print Assumptions never_shortens_immutable.

(* ---- renewing with a secret no lease answers to: IndexError, file untouched --------------------------- *)
Theorem unknown_secret_no_change_and_error :
  forall H v f s t ls,
    mut_get_leases f = Ok ls -> no_match H v ls s = true -> mut_renew_lease H v f s t = Raised f EIndex.
Proof. exact unknown_secret_mut_proof. Qed.
Print Assumptions unknown_secret_no_change_and_error.

Theorem unknown_secret_no_change_and_error_immutable :
  forall H f v lo s t ls,
    imm_open f = Ok (v, lo) -> immfile_get_leases f = Ok ls -> no_match H v ls s = true ->
    immfile_renew H f s t = Raised f EIndex.
Proof. exact unknown_secret_imm_proof. Qed.
Print Assumptions unknown_secret_no_change_and_error_immutable.

(* ---- leases survive data writes and container growth (with C23) ---------------------------------------- *)
Theorem leases_survive_writes :
  forall maxsz f dv nl,
    468 + maxsz < 2 ^ 64 -> layout_ok maxsz f = true ->
    mut_enumerate (out_file (writev maxsz f dv nl)) = mut_enumerate f /\
    mut_get_leases (out_file (writev maxsz f dv nl)) = mut_get_leases f.
Proof. exact leases_survive_writes_proof. Qed.
Print Assumptions leases_survive_writes.

(* ---- cancel_lease (the lease-expiry crawler) removes exactly the leases answering to the secret ------- *)
(* mutable lease slots are never packed: the cancelled record is blanked in place.  Every other
   lease keeps its slot number and stays enumerable -- also the ones in LATER slots, behind the
   now unused one -- so it can still be renewed and is not duplicated by a later add (with
   renew_not_duplicate on the resulting file); data and layout are untouched.  No lease answers:
   IndexError, file unchanged.  No lease remains: the share file is removed. *)
Theorem cancel_removes_only_matching_leases :
  forall H maxsz v f cs E,
    layout_ok maxsz f = true -> mut_enumerate f = Ok E ->
    let kept := filter (fun il => negb (is_cancel_secret H v (snd il) cs)) E in
    let gone := filter (fun il => is_cancel_secret H v (snd il) cs) E in
    match gone, kept with
    | [], _ => mut_cancel_lease H v f cs = (Some f, Some EIndex)
    | _ :: _, [] => mut_cancel_lease H v f cs = (None, None)
    | _ :: _, _ :: _ =>
        exists f', mut_cancel_lease H v f cs = (Some f', None) /\ layout_ok maxsz f' = true /\
                   abs_data f' = abs_data f /\ mut_enumerate f' = Ok kept
    end.
Proof. exact cancel_lease_proof. Qed.
Print Assumptions cancel_removes_only_matching_leases.

(* ---- v2 containers: the file is a function of the hashed secrets only ------------------------------------- *)
(* two client leases with the same hashes (and owner, expiry, nodeid) have exactly the same
   effect on any file, and two candidate secrets with the same hash renew alike: the cleartext
   secret reaches neither the file nor any decision other than through H *)
Theorem v2_stores_only_hashes :
  forall H f avail li li',
    hash_lease H li = hash_lease H li' ->
    mut_add_or_renew H V2 f avail li = mut_add_or_renew H V2 f avail li'.
Proof. exact v2_mut_only_hash. Qed.
Print Assumptions v2_stores_only_hashes.

Theorem v2_stores_only_hashes_immutable :
  forall H f lo avail li li',
    hash_lease H li = hash_lease H li' ->
    imm_add_or_renew H V2 f lo avail li = imm_add_or_renew H V2 f lo avail li'.
Proof. exact v2_imm_only_hash. Qed.
Print Assumptions v2_stores_only_hashes_immutable.

Theorem v2_renew_uses_only_hash :
  forall H f s s' t, H s = H s' -> mut_renew_lease H V2 f s t = mut_renew_lease H V2 f s' t.
Proof. exact v2_renew_only_hash. Qed.
Print Assumptions v2_renew_uses_only_hash.

Theorem v2_record_is_function_of_hashes :
  forall H li li',
    hash_lease H li = hash_lease H li' ->
    ser_mutable (stored_form H V2 li) = ser_mutable (stored_form H V2 li') /\
    ser_immutable (stored_form H V2 li) = ser_immutable (stored_form H V2 li').
Proof. exact v2_record_only_hash. Qed.
Print Assumptions v2_record_is_function_of_hashes.

(* ---- the hypotheses are satisfiable; the model computes ------------------------------------------------------ *)
Definition ex_H (s : list N) : list N := map (fun b => (b + 1) mod 256) s.   (* a stand-in for blake2b *)
Definition ex_sec (k : N) : list N := repeat k 32.
Definition ex_node : list N := repeat 9 20.
Definition ex_li (k t : N) : lease := mkLease 1 (ex_sec k) (ex_sec (k + 100)) t ex_node.
Definition ex_f0 : file := mut_header V2 ex_node (ex_sec 7).
Definition ex_f1 : file := out_file (mut_add_or_renew ex_H V2 ex_f0 1000 (ex_li 1 500)).

Example ex_add_then_renew :
  layout_ok 1000 ex_f1 = true /\ bytes_okb ex_f1 = true /\
  mut_get_leases ex_f1 = Ok [hash_lease ex_H (ex_li 1 500)] /\
  (* same secret, later expiry: renewed, still one lease *)
  mut_get_leases (out_file (mut_add_or_renew ex_H V2 ex_f1 1000 (ex_li 1 900))) = Ok [hash_lease ex_H (ex_li 1 900)] /\
  (* same secret, earlier expiry: nothing changes *)
  mut_add_or_renew ex_H V2 ex_f1 1000 (ex_li 1 100) = Done ex_f1 /\
  (* other secret: a second lease *)
  mut_get_leases (out_file (mut_add_or_renew ex_H V2 ex_f1 1000 (ex_li 2 100)))
    = Ok [hash_lease ex_H (ex_li 1 500); hash_lease ex_H (ex_li 2 100)] /\
  (* unknown secret: IndexError and the same file *)
  mut_renew_lease ex_H V2 ex_f1 (ex_sec 3) 900 = Raised ex_f1 EIndex /\
  (* the hash of the secret is not accepted in place of the secret *)
  mut_renew_lease ex_H V2 ex_f1 (ex_H (ex_sec 1)) 900 = Raised ex_f1 EIndex.
Proof. vm_compute. repeat split. Qed.

Definition ex_f2 : file := out_file (mut_add_or_renew ex_H V2 ex_f1 1000 (ex_li 2 600)).
Definition ex_f3 : file := match fst (mut_cancel_lease ex_H V2 ex_f2 (ex_sec 101)) with Some f => f | None => [] end.

Example ex_cancel_older_keeps_later :
  mut_enumerate ex_f2 = Ok [(0, hash_lease ex_H (ex_li 1 500)); (1, hash_lease ex_H (ex_li 2 600))] /\
  mut_cancel_lease ex_H V2 ex_f2 (ex_sec 101) = (Some ex_f3, None) /\
  mut_enumerate ex_f3 = Ok [(1, hash_lease ex_H (ex_li 2 600))] /\
  mut_get_leases (out_file (mut_renew_lease ex_H V2 ex_f3 (ex_sec 2) 900)) = Ok [hash_lease ex_H (ex_li 2 900)] /\
  mut_get_leases (out_file (mut_add_or_renew ex_H V2 ex_f3 1000 (ex_li 2 900))) = Ok [hash_lease ex_H (ex_li 2 900)] /\
  mut_cancel_lease ex_H V2 ex_f3 (ex_sec 101) = (Some ex_f3, Some EIndex) /\
  mut_cancel_lease ex_H V2 ex_f3 (ex_sec 102) = (None, None).
Proof. vm_compute. repeat split. Qed.

Definition ex_i0 : file := imm_header V1 10 ++ repeat 5 10.
Definition ex_i1 : file := out_file (immfile_add ex_H ex_i0 (ex_li 1 500)).

Example ex_immutable :
  imm_layout_ok ex_i1 = true /\ imm_data ex_i1 = repeat 5 10 /\
  immfile_get_leases ex_i1 = Ok [mkLease 1 (ex_sec 1) (ex_sec 101) 500 []] /\
  immfile_get_leases (out_file (immfile_add_or_renew ex_H ex_i1 1000 (ex_li 1 900))) = Ok [mkLease 1 (ex_sec 1) (ex_sec 101) 900 []] /\
  immfile_add_or_renew ex_H ex_i1 1000 (ex_li 1 100) = Done ex_i1 /\
  immfile_renew ex_H ex_i1 (ex_sec 2) 900 = Raised ex_i1 EIndex.
Proof. vm_compute. repeat split. Qed.

Example ex_lease_wf_nonvacuous : lease_wf (stored_form ex_H V2 (ex_li 1 500)).
Proof. constructor; vm_compute; reflexivity. Qed.
