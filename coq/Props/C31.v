(* C31  HTTP and direct storage access agree.
   Statements only; each is closed by `exact` of a lemma in Proofs/HttpRange.v.
   Model/HttpRange.v models the HTTP layer's own logic (Range / Content-Range handling,
   the 64 KiB piece loops, completion detection, read-test-write marshalling) on top of
   the direct operations it calls (read_share_data, BucketWriter.write); the modelled
   functions are pinned by AST fingerprint in Gen/Routes.v (regenerated on every run).

   Known divergences of the code (known_findings.jsonl) are outside the theorems by
   explicit preconditions and carry refuting witnesses below: zero-length reads and
   writes, and a PATCH body of several pieces whose later piece is refused. *)
From Coq Require Import List NArith Bool String.
From Verif Require Import Lib.Hex Gen.Routes Model.HttpAuth Model.HttpRange Proofs.HttpRange.
Import ListNotations.
Local Open Scope N_scope.

(* The bytes a ranged read returns through HTTP -- client Range header, server clipping
   at the share length, 204 for an empty result, the producer reading pieces of any size
   `chunk`, Content-Range, the client's length checks -- are exactly the direct
   read_share_data(offset, length), for every share, every offset (past the end included)
   and every length > 0. *)
Theorem range_read_eq_direct :
  forall data chunk offset length,
    0 < chunk -> 0 < length ->
    http_read data chunk offset length = RData (direct_read data offset length).
Proof. exact range_read_ok. Qed.
Print Assumptions range_read_eq_direct.

(* length = 0 is refused by the client (finding http-zero-length-read-fails) *)
Theorem zero_length_read_refuted :
  exists data chunk offset,
    http_read data chunk offset 0 <> RData (direct_read data offset 0).
Proof. exact zero_length_read_refuted_ok. Qed.
Print Assumptions zero_length_read_refuted.

(* Uploading slices of `data` -- any non-empty chunks inside the allocation, in any order,
   overlapping or not, each PATCH body cut by the server into pieces of any size `chunk`
   -- never conflicts, leaves exactly the writer state the direct BucketWriter.write calls
   leave, answers 201 (upload finished, bucket closed) exactly when the chunks cover
   [0, size) and 200 otherwise, and then the share is `data`: the state a single direct
   write(0, data) produces. *)
Theorem chunked_upload_eq_single :
  forall data chunk chunks,
    0 < chunk -> Forall (chunk_ok (blen data)) chunks ->
    exists w code,
      http_upload data chunk chunks (bw_new (blen data)) 0 = Some (w, code)
      /\ direct_upload data chunks (bw_new (blen data)) = Some w
      /\ (bw_finished w = true <-> forall p, p < blen data -> covered chunks p)
      /\ (chunks <> [] -> (code = 201 <-> bw_finished w = true) /\ (code = 200 <-> bw_finished w = false))
      /\ (bw_finished w = true -> bw_data w = data /\ bw_write (bw_new (blen data)) 0 data = WOk w true).
Proof. exact chunked_upload_ok. Qed.
Print Assumptions chunked_upload_eq_single.

(* Outside the theorem: data that conflicts with what is already written.  The direct
   write refuses and writes nothing; the HTTP handler has already written the earlier
   pieces (finding http-multi-piece-write-not-atomic; pieces of 2 bytes here). *)
Theorem multi_piece_write_not_atomic_refuted :
  bw_write ex_partial_writer 0 [97; 98; 99; 100] = WConflict
  /\ patch ex_partial_writer 2 0 [97; 98; 99; 100]
     = PStatus 409 (mk_bw [97; 98; 0; 120] [true; true; false; true]).
Proof. exact multi_piece_write_not_atomic_ok. Qed.
Print Assumptions multi_piece_write_not_atomic_refuted.

(* ... and empty chunks (finding http-zero-length-write-fails). *)
Theorem zero_length_write_refuted :
  exists w offset,
    bw_write w offset [] = WOk w false /\ patch w 65536 offset [] = PStatus 416 w.
Proof. exact zero_length_write_refuted_ok. Qed.
Print Assumptions zero_length_write_refuted.

(* The read-test-write request: what the server hands to
   StorageServer.slot_testv_and_readv_and_writev after decoding the client's message is
   the request itself with the operator b"eq" added to each test vector -- the same
   structure the direct (Foolscap) path passes.  Structural: CBOR bytes are not modelled. *)
Theorem rtw_marshalling_roundtrip :
  forall r, decode_rtw (encode_rtw r) = Some (wire_form r).
Proof. exact rtw_roundtrip_ok. Qed.
Print Assumptions rtw_marshalling_roundtrip.

Theorem rtw_answer_roundtrip :
  forall a, decode_answer (encode_answer a) = Some a.
Proof. exact answer_roundtrip_ok. Qed.
Print Assumptions rtw_answer_roundtrip.

(* The hand-written model was written for these definitions (AST fingerprints). *)
Theorem pins :
  (pin_read_range, pin_ReadRangeProducer, pin_client_read_share_chunk,
   pin_client_StorageClientImmutables_write_share_chunk, pin_client_StorageClientMutables_read_test_write_chunks,
   pin_client_TestWriteVectors, pin_client_TestVector, pin_client_WriteVector, pin_client_ReadVector,
   pin_adapter_HTTPStorageServer_slot_testv_and_readv_and_writev)
  = ("cf46a10d19dc827d", "9b962d13cea9bff2", "125c1a01adb0073a",
     "39e1e83d939d600b", "f1f7dc99fffdc23e",
     "3c4ee4bcf219819d", "3479fb1930b5f4d8", "8cd930af4d45c2a1", "200e4ff3038aaeef",
     "b05494584e250e54")%string.
Proof. exact c31_pins_ok. Qed.
Print Assumptions pins.

Theorem handler_pins :
  (handler_pin "write_share_data", handler_pin "mutable_read_test_write", handler_pin "read_share_chunk",
   handler_pin "read_mutable_chunk")
  = ("360860dc48965e6f", "4cc5d1b98b169ffd", "876381b2aa58299d", "b54b07f5d73477d2")%string.
Proof. exact c31_handler_pins_ok. Qed.
Print Assumptions handler_pins.

(* ---- the hypotheses are satisfiable; the model computes what the servers do ---- *)
Example ex_read_past_end_nonvacuous :
  http_read (bytes_of_string "0123456789") 4 7 100 = RData (bytes_of_string "789")
  /\ http_read (bytes_of_string "0123456789") 4 10 5 = RData []
  /\ http_read (bytes_of_string "0123456789") 4 2 6 = RData (bytes_of_string "234567").
Proof. vm_compute. repeat split; reflexivity. Qed.

Example ex_chunks_nonvacuous :
  Forall (chunk_ok (blen (bytes_of_string "abcdefgh"))) [(5, 3); (0, 4); (2, 4)]
  /\ http_upload (bytes_of_string "abcdefgh") 3 [(5, 3); (0, 4); (2, 4)] (bw_new 8) 0
     = Some (mk_bw (bytes_of_string "abcdefgh") (repeat true 8), 201)
  /\ http_upload (bytes_of_string "abcdefgh") 3 [(5, 3); (0, 4)] (bw_new 8) 0
     = Some (mk_bw [97; 98; 99; 100; 0; 102; 103; 104] [true; true; true; true; false; true; true; true], 200).
Proof.
  split; [|split; vm_compute; reflexivity].
  repeat constructor; vm_compute; congruence.
Qed.

Example ex_required_ranges :
  required_ranges (mk_bw [0; 0; 0; 0; 0; 0] [false; true; false; false; true; false]) = [(0, 1); (2, 4); (5, 6)].
Proof. vm_compute. reflexivity. Qed.

Example ex_rtw_nonvacuous :
  decode_rtw (encode_rtw (mk_rtw [(3, mk_twv [(0, 2, bytes_of_string "ab")] [(5, bytes_of_string "xyz")] None)] [(0, 10)]))
  = Some (mk_wire [(3, mk_wtwv [(0, 2, bytes_of_string "eq", bytes_of_string "ab")] [(5, bytes_of_string "xyz")] None)] [(0, 10)]).
Proof. vm_compute. reflexivity. Qed.
