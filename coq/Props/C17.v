(* C17  Key and secret derivations match the specification.
   Statements only; each is closed by `exact` of a lemma in Proofs/HashDeriv.v.
   Left-hand sides are Gen/Hashutil.v (regenerated from src/allmydata/util/hashutil.py
   on every run), right-hand sides Model/HashSpec.v (hand-written from docs/specifications). *)
From Coq Require Import List NArith Bool String.
From Verif Require Import Lib.Hex Lib.Netstring Lib.SHA256 Lib.HashPrim Gen.Hashutil Model.HashSpec Proofs.HashDeriv.
Import ListNotations.
Local Open Scope N_scope.

Theorem derivation_storage_index :
  forall key, storage_index_hash key = spec_storage_index key.
Proof. exact storage_index_ok. Qed.
Print Assumptions derivation_storage_index.

Theorem derivation_block_hash :
  forall d, block_hash d = spec_block_hash d.
Proof. exact block_hash_ok. Qed.
Print Assumptions derivation_block_hash.

Theorem derivation_uri_extension_hash :
  forall d, uri_extension_hash d = spec_uri_extension_hash d.
Proof. exact uri_extension_hash_ok. Qed.
Print Assumptions derivation_uri_extension_hash.

Theorem derivation_plaintext_hash :
  forall d, plaintext_hash d = spec_plaintext_hash d.
Proof. exact plaintext_hash_ok. Qed.
Print Assumptions derivation_plaintext_hash.

Theorem derivation_crypttext_hash :
  forall d, crypttext_hash d = spec_crypttext_hash d.
Proof. exact crypttext_hash_ok. Qed.
Print Assumptions derivation_crypttext_hash.

Theorem derivation_crypttext_segment_hash :
  forall d, crypttext_segment_hash d = spec_crypttext_segment_hash d.
Proof. exact crypttext_segment_hash_ok. Qed.
Print Assumptions derivation_crypttext_segment_hash.

Theorem derivation_plaintext_segment_hash :
  forall d, plaintext_segment_hash d = spec_plaintext_segment_hash d.
Proof. exact plaintext_segment_hash_ok. Qed.
Print Assumptions derivation_plaintext_segment_hash.

Theorem derivation_convergence_hash :
  forall k n segsize data secret, convergence_hash k n segsize data secret = spec_convergence_key k n segsize data secret.
Proof. exact convergence_hash_ok. Qed.
Print Assumptions derivation_convergence_hash.

Theorem derivation_convergence_tag :
  forall k n segsize secret, _convergence_hasher_tag k n segsize secret = spec_convergence_tag k n segsize secret.
Proof. exact convergence_tag_ok. Qed.
Print Assumptions derivation_convergence_tag.

Theorem derivation_convergence_pre :
  forall k n, _convergence_hasher_tag_pre k n = spec_convergence_params_ok k n.
Proof. exact convergence_pre_ok. Qed.
Print Assumptions derivation_convergence_pre.

Theorem derivation_my_renewal :
  forall s, my_renewal_secret_hash s = spec_client_renewal_secret s.
Proof. exact my_renewal_ok. Qed.
Print Assumptions derivation_my_renewal.

Theorem derivation_my_cancel :
  forall s, my_cancel_secret_hash s = spec_client_cancel_secret s.
Proof. exact my_cancel_ok. Qed.
Print Assumptions derivation_my_cancel.

Theorem derivation_file_renewal :
  forall crs si, file_renewal_secret_hash crs si = spec_file_renewal_secret crs si.
Proof. exact file_renewal_ok. Qed.
Print Assumptions derivation_file_renewal.

Theorem derivation_file_cancel :
  forall ccs si, file_cancel_secret_hash ccs si = spec_file_cancel_secret ccs si.
Proof. exact file_cancel_ok. Qed.
Print Assumptions derivation_file_cancel.

Theorem derivation_bucket_renewal :
  forall frs peer, bucket_renewal_secret_hash frs peer = spec_bucket_renewal_secret frs peer.
Proof. exact bucket_renewal_ok. Qed.
Print Assumptions derivation_bucket_renewal.

Theorem derivation_bucket_cancel :
  forall fcs peer, bucket_cancel_secret_hash fcs peer = spec_bucket_cancel_secret fcs peer.
Proof. exact bucket_cancel_ok. Qed.
Print Assumptions derivation_bucket_cancel.

Theorem derivation_rwcap_key :
  forall iv wk, mutable_rwcap_key_hash iv wk = spec_dirnode_child_key iv wk.
Proof. exact rwcap_key_ok. Qed.
Print Assumptions derivation_rwcap_key.

Theorem derivation_rwcap_salt :
  forall rwcap, mutable_rwcap_salt_hash rwcap = spec_dirnode_child_salt rwcap.
Proof. exact rwcap_salt_ok. Qed.
Print Assumptions derivation_rwcap_salt.

Theorem derivation_writekey :
  forall pk, ssk_writekey_hash pk = spec_writekey pk.
Proof. exact writekey_ok. Qed.
Print Assumptions derivation_writekey.

Theorem derivation_wem :
  forall wk, ssk_write_enabler_master_hash wk = spec_write_enabler_master wk.
Proof. exact wem_ok. Qed.
Print Assumptions derivation_wem.

Theorem derivation_write_enabler :
  forall wk peer, ssk_write_enabler_hash wk peer = spec_write_enabler wk peer.
Proof. exact write_enabler_ok. Qed.
Print Assumptions derivation_write_enabler.

Theorem derivation_fingerprint :
  forall pk, ssk_pubkey_fingerprint_hash pk = spec_fingerprint pk.
Proof. exact fingerprint_ok. Qed.
Print Assumptions derivation_fingerprint.

Theorem derivation_readkey :
  forall wk, ssk_readkey_hash wk = spec_readkey wk.
Proof. exact readkey_ok. Qed.
Print Assumptions derivation_readkey.

Theorem derivation_datakey :
  forall iv rk, ssk_readkey_data_hash iv rk = spec_datakey iv rk.
Proof. exact datakey_ok. Qed.
Print Assumptions derivation_datakey.

Theorem derivation_ssk_si :
  forall rk, ssk_storage_index_hash rk = spec_mutable_storage_index rk.
Proof. exact ssk_si_ok. Qed.
Print Assumptions derivation_ssk_si.

Theorem derivation_dirhash :
  forall c, backupdb_dirhash c = spec_backupdb_dirhash c.
Proof. exact dirhash_ok. Qed.
Print Assumptions derivation_dirhash.

Theorem derivation_permute :
  forall psi seed, permute_server_hash psi seed = spec_permuted_position psi seed.
Proof. exact permute_ok. Qed.
Print Assumptions derivation_permute.

Theorem derivation_lease_renewal_chain :
  forall ls si peer, bucket_renewal_secret_hash (file_renewal_secret_hash (my_renewal_secret_hash ls) si) peer = spec_renewal_secret_chain ls si peer.
Proof. exact lease_renewal_chain_ok. Qed.
Print Assumptions derivation_lease_renewal_chain.

Theorem derivation_lease_cancel_chain :
  forall ls si peer, bucket_cancel_secret_hash (file_cancel_secret_hash (my_cancel_secret_hash ls) si) peer = spec_cancel_secret_chain ls si peer.
Proof. exact lease_cancel_chain_ok. Qed.
Print Assumptions derivation_lease_cancel_chain.

Theorem derivation_mutable_key_chain :
  forall pk, (ssk_writekey_hash pk, ssk_readkey_hash (ssk_writekey_hash pk), ssk_storage_index_hash (ssk_readkey_hash (ssk_writekey_hash pk))) = spec_mutable_key_chain pk.
Proof. exact mutable_key_chain_ok. Qed.
Print Assumptions derivation_mutable_key_chain.

Theorem tags_distinct :
  distinctb all_tags = true.
Proof. exact tags_distinct_ok. Qed.
Print Assumptions tags_distinct.

Theorem pins :
  (pin_SHA256d_Hasher, pin_xor, pin_hmac, pin_byteschr, pin_random_key, pin_timing_safe_compare)
  = ("ae444d4361db491e", "a141caf1ee705d02", "d13bb564934984ae", "4c594682cc2e1993", "0d5317a3265e56a2", "f0e6cd0f78646430")%string.
Proof. exact pins_ok. Qed.
Print Assumptions pins.

(* Published known answers (src/allmydata/test/test_hashutil.py) evaluated in the model *)
Example ex_known_storage_index :
  storage_index_hash (bytes_of_string "xxxxxxxxxxxxxxxx") = unhex "b54c60c5b12646f07700c44c8b75b948".
Proof. vm_compute. reflexivity. Qed.
