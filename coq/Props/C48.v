(* C48  Configuration values parse to their documented meaning.
   Statements only; each is closed by `exact` of a lemma in Proofs/Config.v.
   parse_duration / parse_date / parse_abbreviated_size / abbreviate_space are the model
   (Model/Config.v) of util/time_format.py and util/abbreviate.py over the tables of
   Gen/Config.v, which are regenerated from the source on every run; the spec_* and
   *_grammar definitions are hand-written from docs/garbage-collection.rst,
   docs/configuration.rst and the parse_duration docstring.
   Strings are lists of Unicode code points.  "digit_string ds": ds is one or more ASCII
   digits, at most 4300 of them (beyond that CPython's int() raises ValueError). *)
From Coq Require Import List NArith ZArith Bool String.
From Verif Require Import Lib.Hex Lib.Decimal Gen.Config Model.Config Proofs.Config.
Import ListNotations.
Local Open Scope N_scope.

(* Every documented spelling - any number, any of the ten unit words in any case, with or
   without whitespace between and around - is the documented number of seconds. *)
Theorem duration_documented_spellings :
  forall ws1 ds ws2 u ws3 m,
    forallb is_ws ws1 = true -> forallb is_ws ws2 = true -> forallb is_ws ws3 = true ->
    digit_string ds ->
    lookup (map lower u) spec_duration_units = Some m ->
    parse_duration (ws1 ++ ds ++ ws2 ++ u ++ ws3) = POk (digits_value ds * m).
Proof. exact duration_spellings_ok. Qed.
Print Assumptions duration_documented_spellings.

(* Every documented size spelling: number, optional whitespace, optional scale letter, optional
   "i", optional "B", letters in any case; the value is number * 1000^k or * 1024^k. *)
Theorem size_documented_spellings :
  forall ds ws sfx x,
    digit_string ds -> forallb is_ws ws = true ->
    suffix_wf x = true -> map upper sfx = suffix_text x ->
    parse_abbreviated_size (ds ++ ws ++ sfx) = SzOk (digits_value ds * spec_multiplier x).
Proof. exact size_spellings_ok. Qed.
Print Assumptions size_documented_spellings.

(* A YYYY-MM-DD date of the calendar parses to the UTC midnight that starts that day (counted
   from 1970-01-01 by year and month lengths), a whole number of days. *)
Theorem date_is_utc_midnight :
  forall y m d, valid_date y m d = true ->
    parse_date (fmt_date y m d) = POk (spec_utc_midnight y m d) /\
    (spec_utc_midnight y m d mod 86400 = 0)%Z.
Proof. exact date_midnight_ok. Qed.
Print Assumptions date_is_utc_midnight.

(* Accepted language = documented grammar: whatever a parser accepts is a documented spelling
   with the documented value, so (with the three theorems above) every other string is
   rejected; and rejection is always ValueError, never the KeyError of a missed table lookup.
   An empty / absent reserved_space is "not set" (None), nothing else is. *)
Theorem malformed_rejected :
  (forall s v, parse_duration s = POk v <-> duration_grammar s v) /\
  (forall s, ~ (exists v, duration_grammar s v) -> parse_duration s = PValueError) /\
  (forall s v, parse_abbreviated_size s = SzOk v <-> size_grammar s v) /\
  (forall s, s <> [] -> ~ (exists v, size_grammar s v) -> parse_abbreviated_size s = SzValueError) /\
  (forall s, parse_abbreviated_size s = SzNone <-> s = []) /\
  (forall s t, parse_date s = POk t <-> date_grammar s t) /\
  (forall s, ~ (exists t, date_grammar s t) -> parse_date s = PValueError).
Proof. exact malformed_rejected_ok. Qed.
Print Assumptions malformed_rejected.

(* "Abbreviated sizes that the node prints parse back to the same value": exactly the sizes
   below 1024, which are printed as "<n> B".  From 1024 on abbreviate_space prints two decimals
   ("1.02 kB") and parse_abbreviated_size has no fraction in its grammar: the printed form is
   rejected (ValueError), for every such size, in both SI and binary mode. *)
Theorem print_parse_size :
  forall si s,
    (s < 1024 -> parse_abbreviated_size (abbreviate_space si s) = SzOk s) /\
    (1024 <= s -> parse_abbreviated_size (abbreviate_space si s) = SzValueError).
Proof. exact print_parse_ok. Qed.
Print Assumptions print_parse_size.

(* the property's sentence as stated, for all sizes, is refuted by the faithful model *)
Theorem print_parse_size_refuted :
  exists s, parse_abbreviated_size (abbreviate_space true s) <> SzOk s.
Proof. exact print_parse_refuted_ok. Qed.
Print Assumptions print_parse_size_refuted.

(* The tables regenerated from the source are the documented ones, and the source text the
   hand-written model transcribes (function bodies, regexes, format strings) is unchanged. *)
Theorem source_tables_are_documented :
  duration_units = map (fun kv => (fst kv, Some (snd kv))) spec_duration_units /\
  (forall x, suffix_wf x = true ->
     lookup (drop_trailing_B (suffix_text x)) size_multipliers = Some (spec_multiplier x)).
Proof. exact tables_ok. Qed.
Print Assumptions source_tables_are_documented.

Theorem pins :
  (pin_ParseDurationUnitFormat, pin_parse_duration, pin_parse_date, pin_iso_utc_time_to_seconds,
   pin_parse_abbreviated_size, pin_abbreviate_space)
  = ("e60451526ff2414a", "693d444aee709583", "ec2189f6a5d6742e", "d07f2764f994da2a",
     "e478f6b709c0fba5", "fb656703568ea414")%string /\
  (duration_regex_template, duration_regex_flags, date_regex, date_regex_flags, date_regex_method,
   size_regex, size_regex_flags)
  = ("^\s*(\d+)\s*({unit_pattern})\s*$", "ASCII|IGNORECASE", "(\d{4})-(\d{2})-(\d{2})", "ASCII", "fullmatch",
     "^(\d+)\s*([KMGTPE]?[I]?[B]?)\Z", "ASCII|IGNORECASE")%string /\
  (abbrev_small_limit, abbrev_fmt_small, abbrev_fmt_r, abbrev_U_si, abbrev_U_bin, abbrev_isuffix_si, abbrev_isuffix_bin,
   map (fun st => snd st) abbrev_steps, snd abbrev_last)
  = (1024, "%d B"%string, "%.2f %s%s"%string, 1000, 1024, bytes_of_string "B", bytes_of_string "iB",
     map bytes_of_string ["k"; "M"; "G"; "T"; "P"]%string, bytes_of_string "E").
Proof. exact (conj pins_ok (conj regexes_ok abbrev_format_ok)). Qed.
Print Assumptions pins.

(* ---- the examples the documentation lists, evaluated in the model ---- *)
Example ex_gc_doc_durations :
  map (fun s => parse_duration (bytes_of_string s))
      ["7days"; "31day"; "60 days"; "2mo"; "3 month"; "12 months"; "2years"]%string
  = map (fun v => POk v)
      [7 * 86400; 31 * 86400; 60 * 86400; 2 * 31 * 86400; 3 * 31 * 86400; 12 * 31 * 86400; 2 * 365 * 86400].
Proof. vm_compute. reflexivity. Qed.

Example ex_config_doc_sizes :
  map (fun s => parse_abbreviated_size (bytes_of_string s))
      ["100MB"; "100 M"; "100000000B"; "100000000"; "100000kb"; "1MiB"; "1024KiB"; "1024 Ki"; "1048576 B"]%string
  = [SzOk 100000000; SzOk 100000000; SzOk 100000000; SzOk 100000000; SzOk 100000000;
     SzOk 1048576; SzOk 1048576; SzOk 1048576; SzOk 1048576].
Proof. vm_compute. reflexivity. Qed.

Example ex_gc_doc_dates :
  map (fun s => parse_date (bytes_of_string s)) ["2009-01-16"; "2008-02-02"; "2007-12-25"; "2010-02-21"; "2009-03-18"]%string
  = [POk 1232064000; POk 1201910400; POk 1198540800; POk 1266710400; POk 1237334400]%Z.
Proof. vm_compute. reflexivity. Qed.

Example ex_rejected :
  (map (fun s => parse_duration (bytes_of_string s)) ["123"; "2kumquats"; "3dayss"; "+3s"; "3.5s"; ""]%string,
   map (fun s => parse_abbreviated_size (bytes_of_string s)) ["12 cubits"; "1 BB"; "fhtagn"; "1K "; " 1K"; "1.02 kB"]%string,
   map (fun s => parse_date (bytes_of_string s)) ["2009-02-30"; "2009-02-29"; "2009-13-01"; "2009-01-00"; "0000-01-01"; "2009-01-16 10:20:30"; "2009-1-16"]%string)
  = (repeat PValueError 6, repeat SzValueError 6, repeat PValueError 7).
Proof. vm_compute. reflexivity. Qed.

(* hypotheses of the theorems are satisfiable *)
Example duration_spellings_nonvacuous :
  digit_string (bytes_of_string "0060") /\ lookup (map lower (bytes_of_string "DaYs")) spec_duration_units = Some 86400.
Proof. split; [split; [discriminate|split; [reflexivity|vm_compute; discriminate]]|reflexivity]. Qed.

Example size_spellings_nonvacuous :
  suffix_wf (Suffix (Some 75) true true) = true /\
  map upper (bytes_of_string "kIb") = suffix_text (Suffix (Some 75) true true) /\
  spec_multiplier (Suffix (Some 75) true true) = 1024.
Proof. repeat split. Qed.

Example date_nonvacuous : valid_date 2008 2 29 = true /\ valid_date 1900 2 29 = false /\ valid_date 2000 2 29 = true.
Proof. repeat split. Qed.
