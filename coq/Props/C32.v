(* C32  Servers are ordered consistently and upload permission is enforced.
   Statements only; proofs are in Proofs/Permute.v (and Proofs/GridManager.v for
   the composition with the certificate rule).  Model/Permute.v mirrors
   StorageFarmBroker.get_servers_for_psi, the uploader's use of it, and
   Publish.update_goal; permute_server_hash is Gen/Hashutil.v, regenerated from
   util/hashutil.py on every run. *)
From Coq Require Import List NArith ZArith Bool Permutation Sorted String.
From Verif Require Import Lib.Hex Lib.SHA256 Lib.Sig Gen.Hashutil Model.GridManager Model.Permute
     Proofs.GridManager Proofs.Permute.
Import ListNotations.
Local Open Scope N_scope.

(* The result is a rearrangement of the connected servers (for uploads: of the
   permitted ones) in which every server stands before every server that is
   less preferred, and within the same preference class servers are ordered by
   SHA-1(peer_selection_index ++ seed). *)
Theorem order_is_sorted_permutation :
  forall (server : Type) (seed : server -> list N) (preferred : server -> bool) (permitted : server -> outcome)
         (connected : list server) (psi : list N) (for_upload : bool) (l : list server),
    get_servers_for_psi seed preferred permitted connected psi for_upload = Some l ->
    Permutation (if for_upload then filter (fun s => outcome_eqb (permitted s) Permit) connected else connected) l /\
    StronglySorted
      (fun s t =>
         (preferred s = true /\ preferred t = false) \/
         (preferred s = preferred t /\
          bytes_leb (permute_server_hash psi (seed s)) (permute_server_hash psi (seed t)) = true)) l.
Proof. exact order_is_sorted_permutation_ok. Qed.
Print Assumptions order_is_sorted_permutation.

(* The call raises only for uploads, and only when some upload_permitted() raises. *)
Theorem order_defined :
  forall (server : Type) (seed : server -> list N) (preferred : server -> bool) (permitted : server -> outcome)
         (connected : list server) (psi : list N) (for_upload : bool),
    get_servers_for_psi seed preferred permitted connected psi for_upload = None <->
    (for_upload = true /\ exists s, In s connected /\ permitted s = Raise).
Proof. exact gsp_none. Qed.
Print Assumptions order_defined.

(* Every client (every enumeration order of the same server set) computes the
   same list, provided no two servers have the same sort key. *)
Theorem order_input_independent :
  forall (server : Type) (seed : server -> list N) (preferred : server -> bool) (permitted : server -> outcome)
         (c1 c2 : list server) (psi : list N) (for_upload : bool),
    Permutation c1 c2 ->
    NoDup (map (permuted seed preferred psi) c1) ->
    get_servers_for_psi seed preferred permitted c1 psi for_upload =
    get_servers_for_psi seed preferred permitted c2 psi for_upload.
Proof. exact order_input_independent_ok. Qed.
Print Assumptions order_input_independent.

Theorem preferred_first :
  forall (server : Type) (seed : server -> list N) (preferred : server -> bool) (permitted : server -> outcome)
         (connected : list server) (psi : list N) (for_upload : bool) (l l1 : list server) (s : server) (l2 : list server),
    get_servers_for_psi seed preferred permitted connected psi for_upload = Some l ->
    l = l1 ++ s :: l2 ->
    Forall (fun t => before_ok server seed preferred psi t s) l1 /\
    (preferred s = true -> Forall (fun t => preferred t = true) l1).
Proof. exact preferred_first_ok. Qed.
Print Assumptions preferred_first.

(* Upload permission: the list handed to the immutable uploader, the trackers
   it creates (first 2*N entries), and every server Publish.update_goal newly
   assigns a share to, are connected/known servers whose upload_permitted()
   returned True. *)
Theorem upload_list_only_permitted :
  forall (server : Type) (seed : server -> list N) (preferred : server -> bool) (permitted : server -> outcome)
         (connected : list server) (psi : list N),
    (forall l s, get_servers_for_psi seed preferred permitted connected psi true = Some l -> In s l ->
                 In s connected /\ permitted s = Permit) /\
    (forall total l s, upload_candidates seed preferred permitted connected psi total = CServers l -> In s l ->
                 In s connected /\ permitted s = Permit) /\
    (forall (server_eqb : server -> server -> bool) (bad : server -> bool) full g total g',
       update_goal permitted server_eqb bad full g total = GGoal g' ->
       forall s sh, In (s, sh) g' ->
         (In (s, sh) g /\ bad s = false) \/
         (In s full /\ bad s = false /\ permitted s = Permit /\ ~ (exists t, In (t, sh) g /\ bad t = false))).
Proof. exact upload_list_only_permitted_full. Qed.
Print Assumptions upload_list_only_permitted.

(* nothing is lost: no permitted server => NoServersError; a goal places every share *)
Theorem upload_selection_complete :
  forall (server : Type) (seed : server -> list N) (preferred : server -> bool) (permitted : server -> outcome)
         (connected : list server) (psi : list N),
    (forall total, (forall s, In s connected -> permitted s <> Raise) ->
       (upload_candidates seed preferred permitted connected psi total = CNoServers <->
        forall s, In s connected -> permitted s <> Permit)) /\
    (forall (server_eqb : server -> server -> bool) (bad : server -> bool) full g total g',
       update_goal permitted server_eqb bad full g total = GGoal g' ->
       forall sh, sh < N.of_nat total -> exists s, In (s, sh) g').
Proof. exact upload_selection_complete_full. Qed.
Print Assumptions upload_selection_complete.

(* Composition with C33: when grid-manager keys are configured, every server
   in the upload list holds a certificate signed by a configured key, naming
   it, and unexpired at `now`. *)
Theorem upload_only_to_certified :
  forall (pubkey msg sig : Type) (verify : pubkey -> msg -> sig -> bool)
         (spk : Type) (spk_eqb : spk -> spk -> bool) (decode : msg -> option (cert_json spk))
         (keys : list pubkey) (now : Z)
         (server : Type) (seed : server -> list N) (preferred : server -> bool)
         (certs : server -> list (signed_cert msg sig)) (pk : server -> spk)
         (connected : list server) (psi : list N) (l : list server) (s : server),
    keys <> [] ->
    get_servers_for_psi seed preferred
      (fun s => permitted verify spk_eqb decode keys (certs s) (pk s) now) connected psi true = Some l ->
    In s l ->
    exists c k, In c (certs s) /\ In k keys /\ cert_grants verify spk_eqb decode k c (pk s) now.
Proof. exact upload_only_to_certified_full. Qed.
Print Assumptions upload_only_to_certified.

(* The [grid_managers] section of tahoe.cfg: a section with entries never comes out as "no grid
   manager" (the empty key list, for which every server is permitted); one unusable entry refuses
   the whole configuration; otherwise every configured key is in force. *)
Theorem configured_grid_manager_never_ignored :
  forall (pubkey : Type) (entries : list (option pubkey)),
    (grid_manager_keys_from_config entries = Some [] -> entries = []) /\
    (In None entries -> grid_manager_keys_from_config entries = None) /\
    (forall keys, grid_manager_keys_from_config entries = Some keys -> entries = map Some keys).
Proof. exact gm_config_never_fails_open_full. Qed.
Print Assumptions configured_grid_manager_never_ignored.

(* ---- published known answers (src/allmydata/test/test_client.py test_permute,
   test_permute_with_preferred): servers "0".."4" with seed = their name ---- *)
Definition ex_srv (pref : list N) (i : N) : srv :=
  {| s_id := i; s_seed := [48 + i]; s_pref := existsb (N.eqb i) pref; s_perm := Permit; s_bad := false |}.
Definition ex_servers (pref : list N) : list srv := map (ex_srv pref) [0; 1; 2; 3; 4].

Example ex_permute_one :
  run_get_servers (ex_servers []) (bytes_of_string "one"%string) false = Some [3; 1; 0; 4; 2].
Proof. vm_compute. reflexivity. Qed.
Example ex_permute_two :
  run_get_servers (ex_servers []) (bytes_of_string "two"%string) false = Some [0; 4; 2; 1; 3].
Proof. vm_compute. reflexivity. Qed.
Example ex_permute_preferred_one :
  run_get_servers (ex_servers [1; 4]) (bytes_of_string "one"%string) false = Some [1; 4; 3; 0; 2].
Proof. vm_compute. reflexivity. Qed.
Example ex_permute_preferred_two :
  run_get_servers (rev (ex_servers [1; 4])) (bytes_of_string "two"%string) true = Some [4; 1; 0; 2; 3].
Proof. vm_compute. reflexivity. Qed.

Example order_input_independent_nonvacuous :
  NoDup (map (permuted s_seed s_pref (bytes_of_string "one"%string)) (ex_servers [1; 4])).
Proof.
  vm_compute. repeat (constructor; [cbn; intuition discriminate|]). constructor.
Qed.

(* update_goal: shares 0..3, server 1 bad, server 2 not permitted, share 0 already on server 0 *)
Definition ex_full : list srv :=
  [ {| s_id := 0; s_seed := []; s_pref := false; s_perm := Permit; s_bad := false |};
    {| s_id := 1; s_seed := []; s_pref := false; s_perm := Permit; s_bad := true |};
    {| s_id := 2; s_seed := []; s_pref := false; s_perm := Deny; s_bad := false |};
    {| s_id := 3; s_seed := []; s_pref := false; s_perm := Permit; s_bad := false |} ].
Example ex_update_goal :
  run_update_goal ex_full [(nth 0 ex_full (ex_srv [] 9), 0); (nth 1 ex_full (ex_srv [] 9), 1)] 4
  = IGGoal [(0, 0); (3, 1); (0, 2); (3, 3)].
Proof. vm_compute. reflexivity. Qed.
Example ex_update_goal_not_enough :
  run_update_goal (firstn 2 (tl ex_full)) [] 2 = IGNotEnough.
Proof. vm_compute. reflexivity. Qed.
