(* C01  Immutable upload/download round-trip.
   Statements only; each is closed by `exact` of a lemma in Proofs/ImmFile*.v.
   The model is Model/ImmFile.v; constants and layout tables come from
   Gen/ImmConsts.v (regenerated from /repo on every run).  The erasure code
   (enc, dec) and the AES-CTR keystream (ksbyte) are universally quantified;
   what is assumed of the code appears as explicit premises (zfec's any-k-of-N
   property, checked against the real library by C36). *)
From Coq Require Import String.
From Coq Require Import List NArith Bool.
From Verif Require Import Gen.ImmConsts Model.ImmFile
     Proofs.ImmFileArith Proofs.ImmFileRead Proofs.ImmFileData Proofs.ImmFileRoundtrip Proofs.ImmFilePins.
Import ListNotations.
Local Open Scope N_scope.

(* The downloader derives, from (size, k, segment size) alone, the numbers the
   uploader used; the share's data section is exactly the blocks put_block takes. *)
Theorem sizes_agree :
  forall size k segsize, 1 <= size -> 1 <= k -> 1 <= segsize -> segsize mod k = 0 ->
  let e := encoder_params size k segsize in
  let d := calculate_sizes size k segsize in
  d_num_segments d = e_num_segments e /\
  d_tail_segment_size d = e_tail_size e /\
  d_tail_segment_padded d = e_padded_tail e /\
  d_block_size d = e_block_size e /\
  d_tail_block_size d = e_tail_block_size e /\
  crs_dec_share_size segsize k = e_block_size e /\
  crs_dec_share_size (d_tail_segment_padded d) k = e_tail_block_size e /\
  e_share_size e = e_block_size e * (e_num_segments e - 1) + e_tail_block_size e /\
  (forall i, i < e_num_segments e ->
     put_block_len (e_share_size e) (e_block_size e) (e_num_segments e) i
     = if i =? e_num_segments e - 1 then e_tail_block_size e else e_block_size e) /\
  1 <= e_num_segments e /\ 1 <= e_tail_size e <= segsize /\
  size = segsize * (e_num_segments e - 1) + e_tail_size e /\
  e_tail_size e <= e_padded_tail e < e_tail_size e + k /\ e_padded_tail e mod k = 0 /\
  e_block_size e * k = segsize /\ e_tail_block_size e * k = e_padded_tail e.
Proof. exact sizes_agree_ok. Qed.
Print Assumptions sizes_agree.

(* the segment size the uploader picks satisfies the premises of sizes_agree,
   and the downloader's first guess equals it when both use the same maximum *)
Theorem upload_segsize_valid :
  forall max_seg size k, 1 <= size -> 1 <= k -> 1 <= max_seg ->
  1 <= upload_segsize max_seg size k /\ upload_segsize max_seg size k mod k = 0.
Proof. exact upload_segsize_ok. Qed.
Print Assumptions upload_segsize_valid.

Theorem guess_matches_upload :
  forall size k max_seg, guessed_segment_size size k max_seg = upload_segsize max_seg size k.
Proof. exact guess_right. Qed.
Print Assumptions guess_matches_upload.

(* Decoding segment i from ANY k distinct shares gives bytes [i*segsize, (i+1)*segsize) of the
   ciphertext, and the decoded segments concatenate to the ciphertext. *)
Theorem segment_exact :
  forall (enc : N -> N -> list (list N) -> list (list N)) (dec : N -> N -> list (N * list N) -> list (list N))
         (k n : N), 1 <= k <= n ->
  (forall pieces bs, length pieces = N.to_nat k -> Forall (fun p => length p = bs) pieces ->
     length (enc k n pieces) = N.to_nat n /\ Forall (fun b => length b = bs) (enc k n pieces)) ->
  (forall pieces bs ids, length pieces = N.to_nat k -> Forall (fun p => length p = bs) pieces -> good_picks k n ids ->
     dec k n (map (fun j => (j, nth (N.to_nat j) (enc k n pieces) [])) ids) = pieces) ->
  forall (ct : list N) (segsize : N),
  1 <= N.of_nat (length ct) -> 1 <= segsize -> segsize mod k = 0 ->
  forall (i : N) (picks : list N),
  i < e_num_segments (encoder_params (N.of_nat (length ct)) k segsize) -> good_picks k n picks ->
  decode_segment dec (N.of_nat (length ct)) k n segsize
                 (upload_shares enc (N.of_nat (length ct)) k n segsize ct) i picks
  = seg_at ct segsize i.
Proof. exact segment_exact_ok. Qed.
Print Assumptions segment_exact.

Theorem segments_partition :
  forall (enc : N -> N -> list (list N) -> list (list N)) (dec : N -> N -> list (N * list N) -> list (list N))
         (k n : N), 1 <= k <= n ->
  (forall pieces bs, length pieces = N.to_nat k -> Forall (fun p => length p = bs) pieces ->
     length (enc k n pieces) = N.to_nat n /\ Forall (fun b => length b = bs) (enc k n pieces)) ->
  (forall pieces bs ids, length pieces = N.to_nat k -> Forall (fun p => length p = bs) pieces -> good_picks k n ids ->
     dec k n (map (fun j => (j, nth (N.to_nat j) (enc k n pieces) [])) ids) = pieces) ->
  forall (ct : list N) (segsize : N),
  1 <= N.of_nat (length ct) -> 1 <= segsize -> segsize mod k = 0 ->
  forall picks : N -> list N,
  (forall i, i < e_num_segments (encoder_params (N.of_nat (length ct)) k segsize) -> good_picks k n (picks i)) ->
  download_ciphertext dec (N.of_nat (length ct)) k n segsize
                      (upload_shares enc (N.of_nat (length ct)) k n segsize ct) picks = ct.
Proof. exact segments_partition_ok. Qed.
Print Assumptions segments_partition.

(* read(offset, size): the Segmentation loop terminates within its fuel
   (num_segments + 2 iterations: one may be spent on a wrong first guess) and
   delivers exactly data[offset : offset+size] (Python slicing: clipped at EOF),
   for every offset, size (None = to the end) and initial guess. *)
Theorem read_range_exact :
  forall (ct : list N) (segsize guess offset : N) (size : option N),
  1 <= N.of_nat (length ct) -> 1 <= segsize -> 1 <= guess ->
  exists ws,
    read_plan (N.of_nat (length ct)) segsize guess offset size = SegDone ws /\
    apply_writes (seg_at ct segsize) ws = py_slice ct offset size /\
    (length ws <= N.to_nat (div_ceil (N.of_nat (length ct)) segsize))%nat /\
    Forall (fun w => w_segnum w < div_ceil (N.of_nat (length ct)) segsize /\ 1 <= w_len w /\
                     w_off w + w_len w <= seg_len (N.of_nat (length ct)) segsize (w_segnum w)) ws.
Proof. exact read_range_exact_ok. Qed.
Print Assumptions read_range_exact.

(* Share layout: sections adjacent and ordered, header fields fit their struct
   fields, v1 refused exactly when a field would not fit, blocks tile the data section. *)
Theorem offsets_layout :
  forall ver bs ds nseg nsh o,
  create_offsets ver bs ds nseg nsh = Some o ->
  let shs := segment_hash_size nseg in
  o_data o = header_size ver /\
  o_plaintext_hash_tree o = o_data o + ds /\
  o_crypttext_hash_tree o = o_plaintext_hash_tree o + shs /\
  o_block_hashes o = o_crypttext_hash_tree o + shs /\
  o_share_hashes o = o_block_hashes o + shs /\
  o_uri_extension o = o_share_hashes o + share_hashtree_size nsh /\
  Forall (fun x => x < field_limit ver) (header_fields 0 bs ds o) /\
  HASH_SIZE <= shs.
Proof. exact offsets_layout_ok. Qed.
Print Assumptions offsets_layout.

Theorem offsets_v1_refused_iff :
  forall bs ds nseg nsh,
  create_offsets 1 bs ds nseg nsh = None <->
  (V1_LIMIT <= bs \/ V1_LIMIT <= ds \/
   V1_LIMIT <= V1_HEADER_SIZE + ds + 3 * segment_hash_size nseg + share_hashtree_size nsh).
Proof. exact v1_refused_iff. Qed.
Print Assumptions offsets_v1_refused_iff.

Theorem offsets_blocks_tile_data :
  forall size k segsize ver nsh o,
  1 <= size -> 1 <= k -> 1 <= segsize -> segsize mod k = 0 ->
  let e := encoder_params size k segsize in
  create_offsets ver (e_block_size e) (e_share_size e) (e_num_segments e) nsh = Some o ->
  forall i, i < e_num_segments e ->
    let len := put_block_len (e_share_size e) (e_block_size e) (e_num_segments e) i in
    o_data o <= block_offset o (e_block_size e) i /\
    block_offset o (e_block_size e) i + len <= o_plaintext_hash_tree o /\
    (i + 1 < e_num_segments e -> block_offset o (e_block_size e) (i + 1) = block_offset o (e_block_size e) i + len) /\
    (i + 1 = e_num_segments e -> block_offset o (e_block_size e) i + len = o_plaintext_hash_tree o).
Proof. exact blocks_layout_ok. Qed.
Print Assumptions offsets_blocks_tile_data.

(* DecryptingConsumer(offset) fed any chunking of ciphertext[offset : offset+size]
   yields plaintext[offset : offset+size]. *)
Theorem ctr_position :
  forall (ksbyte : N -> N) (data : list N) (chunks : list (list N)) (offset : N) (size : option N)
         (writes : list (list N)),
  concat chunks = data ->
  concat writes = py_slice (encrypt_upload ksbyte chunks) offset size ->
  decrypting_consumer ksbyte offset writes = py_slice data offset size.
Proof. exact ctr_range_ok. Qed.
Print Assumptions ctr_position.

(* The whole pipe: encrypt, segment, pad, encode, lay out in shares; then for any
   read(offset, size), any first guess of the segment size and any choice of k
   distinct shares for each segment: plan, fetch blocks, decode, trim, cut,
   decrypt -- gives data[offset : offset+size]. *)
Theorem roundtrip_any_k :
  forall (enc : N -> N -> list (list N) -> list (list N)) (dec : N -> N -> list (N * list N) -> list (list N))
         (ksbyte : N -> N) (k n : N), 1 <= k <= n ->
  (forall pieces bs, length pieces = N.to_nat k -> Forall (fun p => length p = bs) pieces ->
     length (enc k n pieces) = N.to_nat n /\ Forall (fun b => length b = bs) (enc k n pieces)) ->
  (forall pieces bs ids, length pieces = N.to_nat k -> Forall (fun p => length p = bs) pieces -> good_picks k n ids ->
     dec k n (map (fun j => (j, nth (N.to_nat j) (enc k n pieces) [])) ids) = pieces) ->
  forall (max_seg guess : N) (data : list N) (picks : N -> list N) (offset : N) (size : option N),
  1 <= max_seg -> 1 <= guess -> 1 <= N.of_nat (length data) ->
  (forall i, good_picks k n (picks i)) ->
  read_file enc dec ksbyte k n max_seg guess data picks offset size = Some (py_slice data offset size).
Proof. exact roundtrip_any_k_ok. Qed.
Print Assumptions roundtrip_any_k.

Theorem pins :
  (pin_BaseUploadable_get_all_encoding_parameters, pin_Encoder_got_all_encoding_parameters,
   pin_Encoder_encode_segment, pin_Encoder_gather_data, pin_Encoder_get_share_size,
   pin_WriteBucketProxy_init, pin_WriteBucketProxy_get_allocated_size, pin_WriteBucketProxy_put_block,
   pin_make_write_bucket_proxy, pin_DownloadNode_build_guessed_tables, pin_DownloadNode_calculate_sizes,
   pin_DownloadNode_decode_blocks, pin_DownloadNode_read, pin_Segmentation_fetch_next,
   pin_Segmentation_got_segment, pin_DecryptingConsumer_init, pin_DecryptingConsumer_write, pin_overlap,
   pin_CRSEncoder_set_params, pin_CRSDecoder_set_params)
  = ("e74fad7b74b26da8", "531b631b92563778", "4f79c8e5854be6a2", "5470046c97d918dc", "f587d029f3b1f2f3",
     "ee17e59e80853283", "ce00acc96b01f32f", "f4bee6ae705251c2", "9909770779820706", "4c33f3cb5f143a1f",
     "35928de3cae9f6ed", "d4edd272955a07d9", "eb0c28e2f7b04721", "f6706afc2e663f91", "5468803b9bc98785",
     "9e49f09b91262de5", "d18a6b29e10925ac", "dd26fb16711d66b4", "0a1295e05666d233", "e20e28cfa9f63af6")%string.
Proof. exact pins_ok. Qed.
Print Assumptions pins.

(* The hypotheses on the code are satisfiable: replication (zfec for k = 1). *)
Example codec_hypotheses_nonvacuous :
  forall n, 1 <= n ->
  (forall pieces bs, length pieces = N.to_nat 1 -> Forall (fun p => length p = bs) pieces ->
     length (rep_enc 1 n pieces) = N.to_nat n /\ Forall (fun b => length b = bs) (rep_enc 1 n pieces)) /\
  (forall pieces bs ids, length pieces = N.to_nat 1 -> Forall (fun p => length p = bs) pieces -> good_picks 1 n ids ->
     rep_dec 1 n (map (fun j => (j, nth (N.to_nat j) (rep_enc 1 n pieces) [])) ids) = pieces).
Proof. exact rep_hyps. Qed.

(* the model runs: 10 bytes, 1-of-3, max segment 4 (segments 4+4+2), wrong first guess 7,
   read(3, 5) from share 2 *)
Example ex_read_file_runs :
  read_file rep_enc rep_dec (fun p => (7 * p + 3) mod 256) 1 3 4 7 [10; 11; 12; 13; 14; 15; 16; 17; 18; 19]
            (fun _ => [2]) 3 (Some 5) = Some [13; 14; 15; 16; 17].
Proof. vm_compute. reflexivity. Qed.

Example ex_sizes_nonvacuous :
  let e := encoder_params 1000 3 300 in
  (e_num_segments e, e_share_size e, e_tail_size e, e_padded_tail e, e_block_size e, e_tail_block_size e)
  = (4, 334, 100, 102, 100, 34).
Proof. vm_compute. reflexivity. Qed.

Example ex_offsets_nonvacuous :
  create_offsets 1 100 334 4 4 = Some (mk_off 36 370 594 818 1042 1178) /\
  create_offsets 1 (2 ^ 32) 5 1 1 = None /\
  (exists o, create_offsets 2 (2 ^ 32) (2 ^ 33) 2 1 = Some o).
Proof. vm_compute. repeat split; eexists; reflexivity. Qed.

Example ex_layout_tables :
  (V1_SECTIONS, V1_HEADER_FIELDS, V2_HEADER_FIELDS, V2_SECTIONS = V1_SECTIONS,
   (HASH_SIZE, V1_HEADER_SIZE, V1_FIELDSIZE, V1_LIMIT, V2_HEADER_SIZE, V2_FIELDSIZE, V2_LIMIT, READ_HEADER_OFFSET, READ_HEADER_SIZE))
  = ([("data", "data_size"); ("plaintext_hash_tree", "_segment_hash_size"); ("crypttext_hash_tree", "_segment_hash_size");
      ("block_hashes", "_segment_hash_size"); ("share_hashes", "_share_hashtree_size"); ("uri_extension", "")],
     [("=1", 4); ("block_size", 4); ("data_size", 4); ("@data", 4); ("@plaintext_hash_tree", 4); ("@crypttext_hash_tree", 4);
      ("@block_hashes", 4); ("@share_hashes", 4); ("@uri_extension", 4)],
     [("=2", 4); ("block_size", 8); ("data_size", 8); ("@data", 8); ("@plaintext_hash_tree", 8); ("@crypttext_hash_tree", 8);
      ("@block_hashes", 8); ("@share_hashes", 8); ("@uri_extension", 8)],
     V1_SECTIONS = V1_SECTIONS,
     (32, 36, 4, 2 ^ 32, 68, 8, 2 ^ 64, 0, 68))%string.
Proof. exact layout_tables_ok. Qed.
