(* C43  Node and capability identity is consistent.
   Statements only; each is closed by `exact` of a lemma in Proofs/UriIdentity.v
   (or Proofs/UriPins.v).

   Model: Model/UriNodes.v -- cap_eq/cap_ne/cap_hash are uri._BaseURI.__eq__ /
   __ne__ / __hash__ (UnknownURI defines none: object identity), node_eq /
   node_ne / node_hash the methods of ImmutableFileNode (after the `fix:` of
   __ne__), _ImmutableFileNodeBase (LiteralFileNode), MutableFileNode,
   UnknownNode, and the defaults of DirectoryNode and CiphertextFileNode, which
   define none.  Objects carry an identity (`co_id`, node id) standing for id();
   `hkey` is what Python's hash() is a function of.

   Classes that compare by identity violate "equal exactly when the capability
   strings are equal": recorded as known findings with the `_refuted`
   witnesses below (directory-node-identity-equality,
   ciphertext-filenode-identity-equality, unknown-uri-identity-equality); the
   positive theorem carries `compares_by_cap`. *)
From Coq Require Import String List NArith PeanoNat Bool.
From Verif Require Import Lib.Hex Lib.Bytes Gen.Uri Model.UriBase32 Model.Uri Model.UriNodes
  Proofs.UriParse Proofs.UriIdentity Proofs.UriPins.
Import ListNotations.
Local Open Scope N_scope.

(* ------------------------------------------------------ capability objects *)
Theorem cap_eq_iff_same_string :
  forall a b, known (co_cap a) = true -> known (co_cap b) = true ->
  (cap_eq a b = true <-> to_string (co_cap a) = to_string (co_cap b)).
Proof. exact cap_eq_iff_same_string_ok. Qed.
Print Assumptions cap_eq_iff_same_string.

(* for well-formed caps equal strings mean the same capability, field by field *)
Theorem cap_eq_iff_same_cap :
  forall a b, wf_cap (co_cap a) = true -> wf_cap (co_cap b) = true ->
  (cap_eq a b = true <-> co_cap a = co_cap b).
Proof. exact cap_eq_iff_same_cap_ok. Qed.
Print Assumptions cap_eq_iff_same_cap.

Theorem cap_ne_is_negation :
  forall a b, cap_ne a b = negb (cap_eq a b).
Proof. exact cap_ne_is_negation_ok. Qed.
Print Assumptions cap_ne_is_negation.

Theorem cap_eq_implies_same_hash :
  forall a b, cap_eq a b = true -> cap_hash a = cap_hash b.
Proof. exact cap_eq_implies_same_hash_ok. Qed.
Print Assumptions cap_eq_implies_same_hash.

(* ------------------------------------------------------------ node objects *)
(* eq_iff_same_string: file nodes and unknown nodes, every pair of classes *)
Theorem eq_iff_same_string :
  forall a b, node_wf a = true -> node_wf b = true -> compares_by_cap a = true -> compares_by_cap b = true ->
  (node_eq a b = true <-> node_key a = node_key b).
Proof. exact node_eq_iff_same_string_ok. Qed.
Print Assumptions eq_iff_same_string.

(* ne_is_negation: every pair of node classes, no precondition *)
Theorem ne_is_negation :
  forall a b, node_ne a b = negb (node_eq a b).
Proof. exact node_ne_is_negation_ok. Qed.
Print Assumptions ne_is_negation.

(* eq_implies_same_hash: every pair of node classes (UnknownNode is unhashable:
   both sides are HUnhashable, hash() raises TypeError) *)
Theorem eq_implies_same_hash :
  forall a b, node_eq a b = true -> node_hash a = node_hash b.
Proof. exact node_eq_implies_same_hash_ok. Qed.
Print Assumptions eq_implies_same_hash.

Theorem eq_symmetric :
  forall a b, node_eq a b = node_eq b a.
Proof. exact node_eq_sym_ok. Qed.
Print Assumptions eq_symmetric.

(* ------------------------ where the property fails on the code as it stands *)
Theorem eq_iff_same_string_directory_refuted :
  exists a b, node_wf a = true /\ node_wf b = true /\ node_key a = node_key b /\ node_id a <> node_id b /\ node_eq a b = false.
Proof. exact directory_node_eq_refuted. Qed.
Print Assumptions eq_iff_same_string_directory_refuted.

Theorem eq_iff_same_string_ciphertext_refuted :
  exists a b, node_wf a = true /\ node_wf b = true /\ node_key a = node_key b /\ node_id a <> node_id b /\ node_eq a b = false.
Proof. exact ciphertext_node_eq_refuted. Qed.
Print Assumptions eq_iff_same_string_ciphertext_refuted.

Theorem cap_eq_iff_same_string_unknown_refuted :
  exists a b, to_string (co_cap a) = to_string (co_cap b) /\ co_id a <> co_id b /\ cap_eq a b = false.
Proof. exact unknown_uri_eq_refuted. Qed.
Print Assumptions cap_eq_iff_same_string_unknown_refuted.

(* the method texts the model transcribes *)
Theorem identity_pins :
  cap_identity_pins = expected_cap_identity_pins /\ node_identity_pins = expected_node_identity_pins.
Proof. exact identity_pins_ok. Qed.
Print Assumptions identity_pins.

(* ---- satisfiable hypotheses ---- *)
Definition ex_chk1 : capobj := {| co_id := 1; co_cap := CFile (CHK (repeat 1 16) (repeat 2 32) 3 10 1000) |}.
Definition ex_chk2 : capobj := {| co_id := 2; co_cap := CFile (CHK (repeat 1 16) (repeat 2 32) 3 10 1000) |}.
Definition ex_chk3 : capobj := {| co_id := 3; co_cap := CFile (CHK (repeat 1 16) (repeat 2 32) 3 10 1001) |}.

Example ex_equal_nodes_nonvacuous :
  let a := NodeImmutable 10 ex_chk1 in let b := NodeImmutable 11 ex_chk2 in let c := NodeImmutable 12 ex_chk3 in
  node_wf a = true /\ compares_by_cap a = true
  /\ node_eq a b = true /\ node_ne a b = false /\ hkey_eqb (node_hash a) (node_hash b) = true
  /\ node_eq a c = false /\ node_ne a c = true.
Proof. vm_compute. repeat split. Qed.

Example ex_cross_class_nonvacuous :
  let m := NodeMutable 20 {| co_id := 4; co_cap := CFile (SSK (repeat 1 16) (repeat 2 32)) |} in
  let l := NodeLiteral 21 {| co_id := 5; co_cap := CFile (LIT [1; 2; 3]) |} in
  node_wf m = true /\ node_wf l = true /\ node_eq m l = false /\ node_ne m l = true /\ node_eq l m = false
  /\ nkey_eqb (node_key m) (node_key l) = false.
Proof. vm_compute. repeat split. Qed.
