(* C22  Immutable share storage semantics.
   Statements only; each is closed by `exact` of a lemma in Proofs/ImmStore.v.
   Model: Model/ImmStore.v (BucketWriter / ShareFile / allocate_buckets / get_buckets, hand-written,
   tied to /repo by harness/props/c22.py).  A history is any list of operations [ops]; [run ro ops]
   executes it from the empty store on a server whose readonly_storage flag is [ro] and returns the
   final store and the list of (operation, answer) pairs, oldest first.  Writers are addressed by
   (share key, writer id): a handle outlives its writer, and answers RStale afterwards.
   Offsets and lengths are naturals; zero-length writes answer REmpty and change nothing. *)
From Coq Require Import List NArith ZArith Bool Lia.
From Verif Require Import Model.ImmStore Proofs.ImmStoreLib Proofs.ImmStore Proofs.ImmStoreAccept.
Import ListNotations.
Local Open Scope N_scope.

(* A share is returned by get_buckets exactly when one of its uploads was closed (answer ROk;
   close of a writer that is gone answers RStale). *)
Theorem visible_iff_closed :
  forall (ro : bool) (ops : list op) (si sh : N),
    In sh (get_buckets (fst (run ro ops)) si)
    <-> exists wid, In (OClose (si, sh) wid, ROk) (snd (run ro ops)).
Proof. exact visible_iff_closed_ok. Qed.
Print Assumptions visible_iff_closed.

(* ... and a reader obtains data only for such shares. *)
Theorem invisible_share_reads_nothing :
  forall (ro : bool) (ops : list op) (si sh off len : N),
    read (fst (run ro ops)) (si, sh) off len = None
    <-> ~ In sh (get_buckets (fst (run ro ops)) si).
Proof. exact read_none_iff_invisible_ok. Qed.
Print Assumptions invisible_share_reads_nothing.

(* Reads return exactly the bytes written, clipped at the allocated size: a visible share was
   written by the writer [wid] that was closed; its data has the length of an allocation made for
   this share; read(off, len) is data[off : off+len] (Python slicing: clipped at the end, empty
   beyond it); every write of that writer which was accepted (answer RWrote) lies inside the data
   and is found there byte for byte; every other position holds zero. *)
Theorem read_is_written_clipped :
  forall (ro : bool) (ops : list op) (k : key) (wid : N) (data : list N),
    get (fst (run ro ops)) k = Final wid data ->
    let tr := snd (run ro ops) in
    In (OClose k wid, ROk) tr
    /\ (exists shs c av al acc, In (OAlloc (fst k) shs (blen data) c av, RAlloc al acc) tr /\ In (snd k) acc)
    /\ (forall off len, read (fst (run ro ops)) k off len = Some (firstn (N.to_nat len) (skipn (N.to_nat off) data)))
    /\ (forall off d, (exists f, In (OWrite k wid off d, RWrote f) tr) ->
          off + blen d <= blen data
          /\ forall p, off <= p < off + blen d -> nthb data p = nthb d (p - off))
    /\ (forall p, p < blen data ->
          (forall off d, (exists f, In (OWrite k wid off d, RWrote f) tr) -> ~ (off <= p < off + blen d)) ->
          nthb data p = 0).
Proof. exact read_is_written_clipped_ok. Qed.
Print Assumptions read_is_written_clipped.

(* A write that differs, at some position, from a write accepted earlier in the same upload is
   answered ConflictingWriteError; stored bytes, written ranges, every other share and the space
   reservation are unchanged (only the inactivity timeout is postponed). *)
Theorem conflict_rejected_unchanged :
  forall (ro : bool) (ops : list op) (k : key) (w : writer) (off0 : N) (d0 : list N) (off : N) (d : list N) (p : N),
    let s := fst (run ro ops) in
    let tr := snd (run ro ops) in
    get s k = Incoming w ->
    (exists f, In (OWrite k (w_id w) off0 d0, RWrote f) tr) ->
    off0 <= p < off0 + blen d0 -> off <= p < off + blen d ->
    nthb d0 (p - off0) <> nthb d (p - off) ->
    snd (step ro s (OWrite k (w_id w) off d)) = RConflict
    /\ (exists w', get (fst (step ro s (OWrite k (w_id w) off d))) k = Incoming w'
                   /\ w_data w' = w_data w /\ w_ranges w' = w_ranges w /\ w_size w' = w_size w /\ w_id w' = w_id w)
    /\ (forall k', k' <> k -> get (fst (step ro s (OWrite k (w_id w) off d))) k' = get s k')
    /\ allocated_size (fst (step ro s (OWrite k (w_id w) off d))) = allocated_size s.
Proof. exact conflict_rejected_unchanged_ok. Qed.
Print Assumptions conflict_rejected_unchanged.

(* Conversely there are no spurious conflicts, whatever the order and overlap of the partial
   writes: a non-empty write inside the allocated size that agrees, position by position, with
   every write accepted earlier in the same upload is accepted; the share then holds the new bytes
   at the written positions, is unchanged elsewhere, and the written-range map grows by exactly
   the written range. *)
Theorem consistent_write_accepted :
  forall (ro : bool) (ops : list op) (k : key) (w : writer) (off : N) (d : list N),
    let s := fst (run ro ops) in
    let tr := snd (run ro ops) in
    get s k = Incoming w ->
    blen d <> 0 -> off + blen d <= w_size w ->
    (forall off0 d0 p, (exists f, In (OWrite k (w_id w) off0 d0, RWrote f) tr) ->
       off0 <= p < off0 + blen d0 -> off <= p < off + blen d -> nthb d0 (p - off0) = nthb d (p - off)) ->
    exists f w',
      step ro s (OWrite k (w_id w) off d) = (with_slots s (set_slot k (Incoming w') (st_slots s)), RWrote f)
      /\ w_size w' = w_size w /\ w_id w' = w_id w
      /\ (forall p, off <= p < off + blen d -> nthb (w_data w') p = nthb d (p - off))
      /\ (forall p, p < off \/ off + blen d <= p -> nthb (w_data w') p = nthb (w_data w) p)
      /\ (forall p, covered (w_ranges w') p = true <-> (off <= p < off + blen d) \/ covered (w_ranges w) p = true).
Proof. exact consistent_write_accepted_ok. Qed.
Print Assumptions consistent_write_accepted.

(* Abort of an upload in progress: the share is absent, not listed, not readable, exactly its
   allocated size is released, nothing else changes, and the share can be allocated again. *)
Theorem abort_leaves_nothing_and_releases :
  forall (ro : bool) (ops : list op) (si sh : N) (w : writer),
    let s := fst (run ro ops) in
    get s (si, sh) = Incoming w ->
    let s' := fst (step ro s (OAbort (si, sh) (w_id w))) in
    get s' (si, sh) = Absent
    /\ ~ In sh (get_buckets s' si)
    /\ read s' (si, sh) 0 (w_size w) = None
    /\ allocated_size s' + w_size w = allocated_size s
    /\ (forall k', k' <> (si, sh) -> get s' k' = get s k')
    /\ (forall size c, snd (step false s' (OAlloc si [sh] size c None)) = RAlloc (get_buckets s' si) [sh]).
Proof. exact abort_leaves_nothing_ok. Qed.
Print Assumptions abort_leaves_nothing_and_releases.

(* Timeout (clock reaches the deadline, 30 min after the last write or the allocation) and loss
   of the uploader's connection do the same; before the deadline, and for other connections,
   the upload is untouched. *)
Theorem timeout_and_disconnect_leave_nothing_and_release :
  forall (ro : bool) (ops : list op) (si sh : N) (w : writer),
    let s := fst (run ro ops) in
    get s (si, sh) = Incoming w ->
    (forall dt, w_deadline w <= st_now s + dt ->
       let s' := fst (step ro s (OAdvance dt)) in
       get s' (si, sh) = Absent /\ ~ In sh (get_buckets s' si) /\ allocated_size s' + w_size w <= allocated_size s)
    /\ (forall dt, st_now s + dt < w_deadline w -> get (fst (step ro s (OAdvance dt))) (si, sh) = Incoming w)
    /\ (let s' := fst (step ro s (ODisconnect (w_canary w))) in
        get s' (si, sh) = Absent /\ ~ In sh (get_buckets s' si) /\ allocated_size s' + w_size w <= allocated_size s)
    /\ (forall c, c <> w_canary w -> get (fst (step ro s (ODisconnect c))) (si, sh) = Incoming w).
Proof. exact timeout_disconnect_leave_nothing_ok. Qed.
Print Assumptions timeout_and_disconnect_leave_nothing_and_release.

(* ---- the hypotheses are satisfiable; the model computes ---- *)
Definition ex_ops : list op :=
  [ OAlloc 0 [0; 1; 1] 10 1 None;
    OWrite (0, 0) 0 2 [1; 2; 3];          (* positions 2..4 *)
    OWrite (0, 0) 0 4 [3; 9];             (* overlaps position 4 with the same byte: accepted *)
    OWrite (0, 0) 0 3 [7];                (* position 3 holds 2: conflict *)
    OWrite (0, 0) 0 8 [5; 5; 5];          (* past the allocated size *)
    OList 0;                              (* nothing visible yet *)
    OClose (0, 0) 0;
    OWrite (0, 0) 0 0 [4];                (* the writer is gone *)
    ORead (0, 0) 1 100;                   (* clipped at 10 *)
    OAdvance 1800;                        (* share 1 times out *)
    OAlloc 0 [0; 1] 4 2 (Some 4);         (* 0 is alreadygot, 1 can be allocated again and just fits *)
    ODisconnect 2;
    OList 0 ].

Example ex_history :
  observe_from false init ex_ops =
  [ (RAlloc [] [0; 1], 20); (RWrote false, 20); (RWrote false, 20); (RConflict, 20); (RTooLarge, 20);
    (RList [], 20); (ROk, 10); (RStale, 10); (RRead (Some [0; 1; 2; 3; 9; 0; 0; 0; 0]), 10); (ROk, 0);
    (RAlloc [0] [1], 4); (ROk, 0); (RList [0], 0) ].
Proof. vm_compute. reflexivity. Qed.

Example conflict_rejected_nonvacuous :
  exists ops k w off0 d0 off d p,
    get (fst (run false ops)) k = Incoming w
    /\ (exists f, In (OWrite k (w_id w) off0 d0, RWrote f) (snd (run false ops)))
    /\ off0 <= p < off0 + blen d0 /\ off <= p < off + blen d
    /\ nthb d0 (p - off0) <> nthb d (p - off).
Proof.
  exists (firstn 2 ex_ops), (0, 0), (mkWriter 0 10 [(2, 5)] [0; 0; 1; 2; 3; 0; 0; 0; 0; 0] 1800 1), 2, [1; 2; 3], 3, [7], 3.
  split; [vm_compute; reflexivity|]. split; [exists false; vm_compute; auto|].
  vm_compute. repeat split; intros; discriminate.
Qed.

Example read_is_written_nonvacuous :
  exists ops k wid data, get (fst (run false ops)) k = Final wid data /\ data = [0; 0; 1; 2; 3; 9; 0; 0; 0; 0].
Proof. exists (firstn 7 ex_ops), (0, 0), 0, [0; 0; 1; 2; 3; 9; 0; 0; 0; 0]. split; vm_compute; reflexivity. Qed.

Example abort_nonvacuous :
  exists ops si sh w, get (fst (run false ops)) (si, sh) = Incoming w /\ w_size w = 10 /\ w_canary w = 1 /\ w_deadline w = 1800.
Proof.
  exists (firstn 7 ex_ops), 0, 1, (mkWriter 1 10 [] (zeros 10) 1800 1).
  split; [vm_compute; reflexivity|]. repeat split.
Qed.

Example consistent_write_nonvacuous :
  exists ops k w off d,
    get (fst (run false ops)) k = Incoming w /\ blen d <> 0 /\ off + blen d <= w_size w
    /\ (exists off0 d0 f, In (OWrite k (w_id w) off0 d0, RWrote f) (snd (run false ops))
                          /\ off0 < off + blen d /\ off < off0 + blen d0)
    /\ (forall off0 d0 p, (exists f, In (OWrite k (w_id w) off0 d0, RWrote f) (snd (run false ops))) ->
          off0 <= p < off0 + blen d0 -> off <= p < off + blen d -> nthb d0 (p - off0) = nthb d (p - off)).
Proof.
  exists (firstn 2 ex_ops), (0, 0), (mkWriter 0 10 [(2, 5)] [0; 0; 1; 2; 3; 0; 0; 0; 0; 0] 1800 1), 4, [3; 9].
  split; [vm_compute; reflexivity|]. split; [vm_compute; discriminate|]. split; [vm_compute; discriminate|].
  split.
  - exists 2, [1; 2; 3], false. split; [vm_compute; auto|]. vm_compute. split; reflexivity.
  - intros off0 d0 p (f & H) H0 H1. vm_compute in H. destruct H as [H|[H|[]]]; inversion H; subst.
    unfold blen in H0, H1. cbn [length] in H0, H1.
    assert (E : p = 4) by (clear H; Lia.lia). subst p. vm_compute. reflexivity.
Qed.
