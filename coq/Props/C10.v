(* C10  Mutable reads return only published versions.
   Model/MutVerify.v: the chain of checks a reader applies (fingerprint of the verification
   key, signature over the version prefix, block hash tree, share hash tree).  Hashes and the
   signature scheme are abstract; collision-freeness on the values hashed and idealised
   unforgeability are explicit hypotheses of each theorem.  The share `s` is ARBITRARY
   (adversarial); `g` is the published version. *)
From Coq Require Import List NArith Bool.
From Verif Require Import Model.ServerMap Model.MutRetry Proofs.MutRetry.
From Verif Require Import Model.MutVerify Proofs.MutVerify Proofs.MutVerifyComplete.
Import ListNotations.
Local Open Scope N_scope.

(* any version a reader accepts was signed by the key whose hash is in the capability *)
Theorem accepted_version_signed :
  forall (V : Type) (h_fp : V -> V) (verify : V -> V -> V -> bool) (prefix_of : N -> V -> V) (veq : V -> V -> bool),
    (forall a b : V, veq a b = true <-> a = b) ->
    (forall a b : V, h_fp a = h_fp b -> a = b) ->
    forall signed_by : V -> V -> Prop,
    (forall pk sig msg : V, verify pk sig msg = true -> signed_by pk msg) ->
    forall (fingerprint : V) (g : share V),
    h_fp (s_pubkey V g) = fingerprint ->
    forall s : share V,
    version_accepted V h_fp verify prefix_of veq fingerprint s = true ->
    s_pubkey V s = s_pubkey V g /\ signed_by (s_pubkey V g) (prefix_of (s_seqnum V s) (s_root_hash V s)).
Proof. exact accepted_version_signed_ok. Qed.
Print Assumptions accepted_version_signed.

(* a block (and salt) accepted under a published root hash is the published block *)
Theorem retrieved_plaintext_published :
  forall (V : Type) (pair h_blk : V -> V -> V) (veq : V -> V -> bool),
    (forall a b : V, veq a b = true <-> a = b) ->
    (forall a b c d : V, pair a b = pair c d -> a = c /\ b = d) ->
    (forall a b c d : V, h_blk a b = h_blk c d -> a = c /\ b = d) ->
    forall (g : share V) (shnum : N),
    (forall seg : N,
      root_from V pair (root_from V pair (h_blk (s_salt V g seg) (s_block V g seg)) seg (s_block_path V g seg))
                shnum (s_share_path V g) = s_root_hash V g) ->
    forall (s : share V) (seg : N),
    s_root_hash V s = s_root_hash V g ->
    length (s_share_path V s) = length (s_share_path V g) ->
    length (s_block_path V s seg) = length (s_block_path V g seg) ->
    block_accepted V pair h_blk veq s shnum seg = true ->
    s_block V s seg = s_block V g seg /\ s_salt V s seg = s_salt V g seg.
Proof. exact retrieved_block_published_ok. Qed.
Print Assumptions retrieved_plaintext_published.

(* holders of only a read-cap or verify-cap, and storage servers, cannot make readers accept
   a version the write-cap holder did not publish *)
Theorem readcap_cannot_forge :
  forall (V : Type) (h_fp : V -> V) (verify : V -> V -> V -> bool) (prefix_of : N -> V -> V) (veq : V -> V -> bool),
    (forall a b : V, veq a b = true <-> a = b) ->
    (forall a b : V, h_fp a = h_fp b -> a = b) ->
    (forall (n : N) (r : V) (m : N) (q : V), prefix_of n r = prefix_of m q -> n = m /\ r = q) ->
    forall signed_by : V -> V -> Prop,
    (forall pk sig msg : V, verify pk sig msg = true -> signed_by pk msg) ->
    forall (fingerprint : V) (g : share V),
    h_fp (s_pubkey V g) = fingerprint ->
    forall published : N -> V -> Prop,
    (forall m : V, signed_by (s_pubkey V g) m -> exists (n : N) (r : V), m = prefix_of n r /\ published n r) ->
    forall s : share V,
    version_accepted V h_fp verify prefix_of veq fingerprint s = true ->
    published (s_seqnum V s) (s_root_hash V s).
Proof. exact readcap_cannot_forge_ok. Qed.
Print Assumptions readcap_cannot_forge.

(* completeness of the reader's checks ("if k intact shares are reachable the read succeeds", at
   the level of the checks): a share exactly as published -- key matching the cap, signature over
   its own prefix, hash chains consistent with its root -- is accepted; rejection therefore always
   means the share differs from what the write-cap holder stored *)
Theorem genuine_share_accepted :
  forall (V : Type) (pair h_blk : V -> V -> V) (h_fp : V -> V) (verify : V -> V -> V -> bool)
         (prefix_of : N -> V -> V) (veq : V -> V -> bool),
    (forall a b : V, veq a b = true <-> a = b) ->
    forall (fingerprint : V) (g : share V) (shnum seg : N),
      h_fp (s_pubkey V g) = fingerprint ->
      verify (s_pubkey V g) (s_signature V g) (prefix_of (s_seqnum V g) (s_root_hash V g)) = true ->
      root_from V pair (root_from V pair (h_blk (s_salt V g seg) (s_block V g seg)) seg (s_block_path V g seg))
                shnum (s_share_path V g) = s_root_hash V g ->
      read_accepts V pair h_blk h_fp verify prefix_of veq fingerprint g shnum seg = true.
Proof. exact genuine_share_accepted_ok. Qed.
Print Assumptions genuine_share_accepted.

(* "IF AT LEAST k INTACT SHARES OF THE NEWEST PUBLISHED VERSION ARE REACHABLE, THE READ SUCCEEDS":
   version selection and retry of download_best_version (Model/MutRetry.v, the logic as repaired
   in /repo 6b48610).  g has k >= 1 good (= exactly as published, hence accepted, theorem above)
   distinct shares among those located; every other version that sorts at or above g -- e.g. the
   "versions" that shares with an altered, unsigned offset table are filed under -- has fewer than
   k good ones.  Then the read returns g, whichever bad shares each failed attempt happened to
   see (pick is arbitrary but makes progress), within length+1 attempts. *)
Theorem read_finds_newest_with_k_good_shares :
  forall (pick : list gshare -> version -> gshare -> bool),
    (forall l v, (exists s, In s l /\ is_bad_of v s = true) ->
                 exists s, In s l /\ is_bad_of v s = true /\ pick l v s = true) ->
    forall g l,
      1 <= vk g -> vk g <= good_count l g ->
      (forall w, w <> g -> version_leb g w = true -> good_count l w < vk w) ->
      download_best_version pick l = Some g.
Proof. exact download_finds_genuine_ok. Qed.
Print Assumptions read_finds_newest_with_k_good_shares.

(* and the loop never ends with a version that lacks k good distinct shares *)
Theorem read_result_has_k_good_shares :
  forall pick fuel l v, retry pick fuel l = Some v -> vk v <= good_count l v.
Proof. exact retry_sound. Qed.
Print Assumptions read_result_has_k_good_shares.

(* non-vacuity: 2-of-4 file, genuine version (seq 3, tag 5) on shares 0 and 1; shares 2 and 3 carry an
   altered offset table and are filed as version (seq 3, tag 9), which sorts above and looks
   recoverable: two attempts fail on it (one share ruled out each time), the third returns the
   genuine version; a single retry on a NEW map (fuel 2, nothing ruled out) would have given up *)
Definition ex_g := {| seq := 3; vtag := 5; vk := 2 |}.
Definition ex_f := {| seq := 3; vtag := 9; vk := 2 |}.
Definition ex_l : list gshare :=
  [ {| gs_share := {| srv := 1; shnum := 0; ver := ex_g |}; gs_good := true |};
    {| gs_share := {| srv := 2; shnum := 1; ver := ex_g |}; gs_good := true |};
    {| gs_share := {| srv := 3; shnum := 2; ver := ex_f |}; gs_good := false |};
    {| gs_share := {| srv := 4; shnum := 3; ver := ex_f |}; gs_good := false |} ].
Definition ex_pick_first (l : list gshare) (v : version) (s : gshare) : bool :=
  match filter (is_bad_of v) l with x :: _ => shnum (gs_share x) =? shnum (gs_share s) | [] => false end.
Example ex_retry :
  best_recoverable_version (vis ex_l) = Some ex_f /\
  download_best_version ex_pick_first ex_l = Some ex_g /\
  retry ex_pick_first 1 ex_l = None /\ retry ex_pick_first 2 ex_l = Some ex_g /\
  download_best_version (fun _ _ _ => true) ex_l = Some ex_g.
Proof. vm_compute. repeat split. Qed.

(* Merkle binding used above *)
Theorem merkle_path_binds_leaf :
  forall (V : Type) (pair : V -> V -> V),
    (forall a b c d : V, pair a b = pair c d -> a = c /\ b = d) ->
    forall (p q : list V) (l l' : V) (i : N),
    length p = length q -> root_from V pair l i p = root_from V pair l' i q -> l = l'.
Proof. exact root_from_binding. Qed.
Print Assumptions merkle_path_binds_leaf.

(* non-vacuity: the hypotheses are satisfiable (symbolic instance), a genuine share is accepted,
   and single-field forgeries are rejected *)
Definition ex_blk (seg : N) := Atom (100 + seg).
Definition ex_salt (seg : N) := Atom (200 + seg).
Definition ex_bpath (seg : N) : list sym := [Atom (300 + seg)].
Definition ex_spath : list sym := [Atom 400; Atom 401].
Definition ex_root : sym := root_from sym SPair (root_from sym SPair (SBlk (ex_salt 0) (ex_blk 0)) 0 (ex_bpath 0)) 2 ex_spath.
Definition ex_genuine : share sym :=
  {| s_pubkey := Atom 7; s_signature := SSig 7 (SPrefix 5 ex_root); s_seqnum := 5; s_root_hash := ex_root;
     s_share_path := ex_spath; s_block_path := ex_bpath; s_block := ex_blk; s_salt := ex_salt |}.
Example ex_accepts_and_rejects :
  sym_accepts (SFp (Atom 7)) ex_genuine 2 0 = true /\
  (* another key, correctly self-signed *)
  sym_accepts (SFp (Atom 7)) {| s_pubkey := Atom 8; s_signature := SSig 8 (SPrefix 5 ex_root); s_seqnum := 5; s_root_hash := ex_root;
     s_share_path := ex_spath; s_block_path := ex_bpath; s_block := ex_blk; s_salt := ex_salt |} 2 0 = false /\
  (* right key, signature over another seqnum *)
  sym_accepts (SFp (Atom 7)) {| s_pubkey := Atom 7; s_signature := SSig 7 (SPrefix 5 ex_root); s_seqnum := 6; s_root_hash := ex_root;
     s_share_path := ex_spath; s_block_path := ex_bpath; s_block := ex_blk; s_salt := ex_salt |} 2 0 = false /\
  (* altered block *)
  sym_accepts (SFp (Atom 7)) {| s_pubkey := Atom 7; s_signature := SSig 7 (SPrefix 5 ex_root); s_seqnum := 5; s_root_hash := ex_root;
     s_share_path := ex_spath; s_block_path := ex_bpath; s_block := fun _ => Atom 999; s_salt := ex_salt |} 2 0 = false.
Proof. vm_compute. repeat split. Qed.
Example ex_sym_hypotheses :
  (forall a b, sym_eqb a b = true <-> a = b) /\
  (forall a b c d, SPair a b = SPair c d -> a = c /\ b = d) /\
  (forall a b c d, SBlk a b = SBlk c d -> a = c /\ b = d).
Proof. split; [exact sym_eqb_spec|]. split; intros a b c d H; inversion H; auto. Qed.

From Verif Require Import Gen.MutPins.
From Coq Require Import String.
(* Fingerprints (AST, comments and docstrings excluded) of the source functions this model
   transcribes by hand, regenerated from /repo on every run (harness/translate/mutpins.py):
   the model was written for exactly these versions of them. *)
Theorem model_pins_current :
  pins_C10 =
  [("retrieve_validate_block", "9163920a4c81325b")%string;
   ("retrieve_try_to_validate_prefix", "bd285a7dbf4e5606")%string;
   ("servermap_got_signature_one_share", "df7d2e01521ee153")%string;
   ("servermap_try_to_set_pubkey", "9b3fe4c5d6331ab7")%string;
   ("servermap_got_results", "60636861fd94f8ae")%string;
   ("servermap_got_corrupt_share", "bc3bac0912a7b816")%string;
   ("filenode_download_best_version", "6a55fcbaf8500a00")%string;
   ("retrieve_mark_bad_share", "47c61169c350b32c")%string].
Proof. reflexivity. Qed.
Print Assumptions model_pins_current.
