(* C44  Helper-assisted uploads are equivalent to direct uploads.
   Statements only; proofs in Proofs/Helper.v.  Model/Helper.v: CHKCiphertextFetcher (_start_reading,
   _loop, _fetch with resume offset = bytes already in the incoming file), RemoteEncryptedUploadable
   .remote_read_encrypted (no seeking backwards, skip forwards), CHKUploadHelper's encode over the fetched
   file, AssistedUploader._build_verifycap with its four asserts, CHKCheckerAndUEBFetcher.check and
   Helper.remote_upload_chk.
   `encode` / `ueb_hash` (Section variables, universally quantified in every statement): the encoder is the
   same deterministic function of (ciphertext, parameters) on both paths -- CHKUploader.start_encrypted; that
   it is deterministic is C01.  `positive cs`: every round asks for at least one byte (CHUNK_SIZE = 50 kiB in
   the code; a zero chunk size would make _fetch report "all done" at once).  `is_prefix incoming ct`: the
   incoming file was written by earlier sessions for the same storage index (interrupted_leaves_prefix). *)
From Coq Require Import List NArith Arith Bool.
From Verif Require Import Model.Helper Proofs.Helper.
Import ListNotations.

(* for every chunking cs1 of the first session and every interruption point (= length of cs1), every chunking
   cs2 of the resumed session: the resumed transfer ends with exactly the ciphertext, and so does an
   uninterrupted one (chunking cs) *)
Theorem resumed_fetch_equals_uninterrupted :
  forall (ct : bytes) (cs1 cs2 cs : list nat) (f1 : bytes) (r1 : reader),
    positive cs1 -> positive cs2 -> positive cs ->
    fetch_loop cs1 ct fresh_reader [] = (Interrupted f1, r1) ->
    length ct - length f1 <= length cs2 -> length ct <= length cs ->
    fst (fetch_loop cs2 ct fresh_reader f1) = Complete ct
    /\ fst (fetch_loop cs ct fresh_reader []) = Complete ct.
Proof. exact resumed_equals_uninterrupted. Qed.
Print Assumptions resumed_fetch_equals_uninterrupted.

(* what an interruption leaves behind, after any number of earlier sessions: a prefix of the ciphertext *)
Theorem interrupted_leaves_prefix :
  forall (cs : list nat) (ct incoming f : bytes) (r : reader),
    positive cs -> is_prefix incoming ct ->
    fetch_loop cs ct fresh_reader incoming = (Interrupted f, r) -> is_prefix f ct.
Proof. exact interrupted_leaves_prefix_ok. Qed.
Print Assumptions interrupted_leaves_prefix.

(* ... and any such prefix resumes to the ciphertext (a transfer interrupted several times) *)
Theorem resume_from_any_prefix :
  forall (cs : list nat) (ct incoming : bytes),
    positive cs -> is_prefix incoming ct -> length ct - length incoming <= length cs ->
    fst (fetch_loop cs ct fresh_reader incoming) = Complete ct.
Proof. exact resume_from_prefix_ok. Qed.
Print Assumptions resume_from_any_prefix.

(* the loop never reports "done" with anything but the ciphertext, never has a read refused by the client
   (the resume offset is never behind a fresh reader), and a cut leaves a prefix that extends the old file *)
Theorem fetch_loop_sound :
  forall (cs : list nat) (ct : bytes) (r : reader) (file : bytes) (res : fetch_result) (r' : reader),
    positive cs -> is_prefix file ct -> rd_offset r <= length file ->
    fetch_loop cs ct r file = (res, r') ->
    match res with
    | Complete f => f = ct
    | Interrupted f => is_prefix f ct /\ is_prefix file f
    | Refused _ => False
    end.
Proof. exact fetch_loop_inv. Qed.
Print Assumptions fetch_loop_sound.

(* an interruption after j rounds: j reads were served, fewer bytes than the file are on disk *)
Theorem interruption_point :
  forall (cs : list nat) (ct f : bytes) (r : reader),
    positive cs -> fetch_loop cs ct fresh_reader [] = (Interrupted f, r) ->
    is_prefix f ct /\ length f < length ct /\ rd_calls r = length cs.
Proof. exact cut_is_interruption. Qed.
Print Assumptions interruption_point.

(* same key, ciphertext and parameters: the helper-assisted session (from any incoming prefix, any chunking)
   produces the shares and the cap of the direct upload *)
Theorem helper_cap_equals_direct_cap :
  forall (encode : bytes -> params -> list bytes) (ueb_hash : bytes -> params -> bytes)
         (key ct : bytes) (p : params) (cs : list nat) (incoming : bytes),
    positive cs -> is_prefix incoming ct -> length ct - length incoming <= length cs ->
    exists reads,
      assisted_session encode ueb_hash key ct p cs incoming
      = (Complete ct, Some (direct_upload encode ueb_hash key ct p), reads).
Proof. exact helper_equals_direct. Qed.
Print Assumptions helper_cap_equals_direct_cap.

(* all N shares found and a URI extension read: the helper answers "already present", the client serves no
   read_encrypted call; if the shares on the grid are those of (ct, p) the cap is the direct upload's cap *)
Theorem already_present_short_circuits :
  forall (encode : bytes -> params -> list bytes) (ueb_hash : bytes -> params -> bytes)
         (key ct : bytes) (p : params) (cs : list nat) (incoming : bytes) (found : list nat) (u : ueb_info),
    u_n u <= length (nodup Nat.eq_dec found) ->
    upload_chk false found (Some u) = AlreadyPresent (mk_hur (u_hash u) (u_k u) (u_n u) (u_segsize u) (u_size u) 0 0)
    /\ snd (client_upload encode ueb_hash key ct p cs incoming false found (Some u)) = 0
    /\ (u_hash u = ueb_hash ct p -> u_k u = p_k p -> u_n u = p_n p -> u_segsize u = p_segsize p -> u_size u = length ct ->
        fst (client_upload encode ueb_hash key ct p cs incoming false found (Some u))
        = Some (snd (direct_upload encode ueb_hash key ct p))).
Proof. exact already_present. Qed.
Print Assumptions already_present_short_circuits.

(* fewer than N distinct shares, or no readable URI extension: the file is uploaded *)
Theorem incomplete_file_is_uploaded :
  (forall found u active, length (nodup Nat.eq_dec found) < u_n u -> upload_chk active found (Some u) = NeedUpload)
  /\ (forall found active, upload_chk active found None = NeedUpload).
Proof. split; [exact not_all_shares|exact no_ueb]. Qed.
Print Assumptions incomplete_file_is_uploaded.

(* ---- the hypotheses are satisfiable; the model computes the wire traffic ---- *)
Definition ex_ct : bytes := [1; 2; 3; 4; 5; 6; 7; 8; 9; 10]%N.

Example ex_interrupt_resume_nonvacuous :
  fetch_loop [3; 3] ex_ct fresh_reader [] = (Interrupted [1; 2; 3; 4; 5; 6]%N, mk_reader 6 6 2)
  /\ fst (fetch_loop [4; 4] ex_ct fresh_reader [1; 2; 3; 4; 5; 6]%N) = Complete ex_ct
  /\ fetch_requests 20 10 6 4 = [(6, 4)]
  /\ fetch_requests 20 10 0 3 = [(0, 3); (3, 3); (6, 3); (9, 1)].
Proof. vm_compute. repeat split; reflexivity. Qed.

Example ex_helper_equals_direct_nonvacuous :
  let enc := fun (c : bytes) (p : params) => [c; rev c] in
  let ueb := fun (c : bytes) (p : params) => [N.of_nat (length c); N.of_nat (p_k p)] in
  assisted_session enc ueb [9%N] ex_ct (mk_params 1 2 4) [4; 4; 4] [1; 2; 3]%N
  = (Complete ex_ct, Some (direct_upload enc ueb [9%N] ex_ct (mk_params 1 2 4)), 2).
Proof. vm_compute. reflexivity. Qed.

Example ex_already_present_nonvacuous :
  upload_chk false [0; 1; 1; 0] (Some (mk_ueb [7%N] 1 2 4 10)) = AlreadyPresent (mk_hur [7%N] 1 2 4 10 0 0)
  /\ upload_chk false [1; 1] (Some (mk_ueb [7%N] 1 2 4 10)) = NeedUpload.
Proof. vm_compute. split; reflexivity. Qed.
