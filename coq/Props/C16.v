(* C16  Capabilities attenuate correctly.
   Statements only; each is closed by `exact` of a lemma in Proofs/UriAtten.v
   (or Proofs/UriPins.v).

   Model: Model/Uri.v (get_readonly / get_verify_cap / is_readonly / is_mutable
   of every cap class, from_string with the ro./imm. prefixes and the
   deep_immutable context), Model/UriNodes.v (UnknownNode.__init__).  The hash
   derivations are the functions of Gen/Hashutil.v, regenerated from
   hashutil.py (C17 proves them equal to the specification); no property of
   SHA-256 is used: "does not carry the stronger secret" is stated as (i) the
   derived object has no such field and (ii) it is a function of the *hash* of
   the stronger secret only. *)
From Coq Require Import String List NArith PeanoNat Bool.
From Verif Require Import Lib.Hex Lib.Bytes Lib.Decimal Gen.Hashutil Gen.Uri Model.UriBase32 Model.Uri Model.UriNodes
  Proofs.UriParse Proofs.UriAtten Proofs.UriDirStore Proofs.UriPins.
Import ListNotations.
Local Open Scope N_scope.

(* From a write-cap the read-cap and the verify-cap, from a read-cap the
   verify-cap: same storage index, same fingerprint (or UEB hash and encoding
   parameters), and the verify cap does not depend on the route taken. *)
Theorem chain_same_si_fingerprint :
  forall c,
  (forall r, get_readonly c = Some r ->
     storage_index r = storage_index c /\ integrity r = integrity c /\ get_verify_cap r = get_verify_cap c)
  /\ (forall v, get_verify_cap c = Some v -> storage_index v = storage_index c /\ integrity v = integrity c).
Proof. exact chain_same_si_fingerprint_ok. Qed.
Print Assumptions chain_same_si_fingerprint.

(* ... and the chain is the documented derivation writekey -> readkey -> storage index *)
Theorem chain_derivation :
  (forall wk fp, storage_index (CFile (SSK wk fp)) = Some (ssk_storage_index_hash (ssk_readkey_hash wk))
                 /\ get_readonly (CFile (SSK wk fp)) = Some (CFile (SSKRO (ssk_readkey_hash wk) fp))
                 /\ get_verify_cap (CFile (SSK wk fp)) = Some (CFile (SSKVerifier (ssk_storage_index_hash (ssk_readkey_hash wk)) fp)))
  /\ (forall wk fp, storage_index (CFile (MDMF wk fp)) = Some (ssk_storage_index_hash (ssk_readkey_hash wk))
                 /\ get_readonly (CFile (MDMF wk fp)) = Some (CFile (MDMFRO (ssk_readkey_hash wk) fp))
                 /\ get_verify_cap (CFile (MDMF wk fp)) = Some (CFile (MDMFVerifier (ssk_storage_index_hash (ssk_readkey_hash wk)) fp)))
  /\ (forall key ueb k n size, get_verify_cap (CFile (CHK key ueb k n size)) = Some (CFile (CHKVerifier (storage_index_hash key) ueb k n size))).
Proof. exact chain_derivation_ok. Qed.
Print Assumptions chain_derivation.

(* A derived cap never carries the stronger secret. *)
Theorem readonly_has_no_writekey :
  forall c r, get_readonly c = Some r -> writekey_of r = None.
Proof. exact readonly_has_no_writekey_ok. Qed.
Print Assumptions readonly_has_no_writekey.

Theorem verify_has_no_readkey :
  forall c v, get_verify_cap c = Some v -> readkey_of v = None /\ writekey_of v = None.
Proof. exact verify_has_no_readkey_ok. Qed.
Print Assumptions verify_has_no_readkey.

Theorem readonly_factors_through_hash :
  forall wk wk' fp, ssk_readkey_hash wk = ssk_readkey_hash wk' ->
  get_readonly_f (SSK wk fp) = get_readonly_f (SSK wk' fp) /\ get_readonly_f (MDMF wk fp) = get_readonly_f (MDMF wk' fp).
Proof. exact readonly_factors_through_hash_ok. Qed.
Print Assumptions readonly_factors_through_hash.

Theorem verify_factors_through_hash :
  forall rk rk' fp, ssk_storage_index_hash rk = ssk_storage_index_hash rk' ->
  get_verify_f (SSKRO rk fp) = get_verify_f (SSKRO rk' fp) /\ get_verify_f (MDMFRO rk fp) = get_verify_f (MDMFRO rk' fp).
Proof. exact verify_factors_through_hash_ok. Qed.
Print Assumptions verify_factors_through_hash.

(* ... and never reports write or read authority it lacks: a cap says it is
   writeable exactly when it holds a write key; immutable caps hold none;
   diminishing yields read-only caps with the same mutability; verify caps are
   read-only and not mutable; diminishing a read-only cap changes nothing. *)
Theorem flags_sound :
  forall c,
  (is_readonly c = Some false <-> writekey_of c <> None)
  /\ (is_mutable c = Some false -> writekey_of c = None)
  /\ (forall r, get_readonly c = Some r -> is_readonly r = Some true /\ is_mutable r = is_mutable c)
  /\ (forall v, get_verify_cap c = Some v -> is_readonly v = Some true /\ is_mutable v = Some false)
  /\ (is_readonly c = Some true -> get_readonly c = Some c).
Proof. exact flags_sound_ok. Qed.
Print Assumptions flags_sound.

(* the per-class constants and result classes extracted from uri.py are the model's *)
Theorem flags_pins :
  flags_rendered = flags_table /\ wrap_rendered = wrap_table.
Proof. exact flags_pins_ok. Qed.
Print Assumptions flags_pins.

(* A cap marked as alleged read-only or alleged immutable -- or met in a
   deep-immutable context -- is never interpreted as writeable or mutable:
   for EVERY string s. *)
Theorem alleged_prefix_never_upgrades :
  forall di s c,
  (from_string di (ro_prefix ++ s) = Ok c -> is_readonly c <> Some false)
  /\ (from_string di (imm_prefix ++ s) = Ok c -> is_readonly c <> Some false /\ is_mutable c <> Some true)
  /\ (from_string true s = Ok c -> is_readonly c <> Some false /\ is_mutable c <> Some true).
Proof. exact alleged_prefix_never_upgrades_ok. Qed.
Print Assumptions alleged_prefix_never_upgrades.

(* a cap refused because of its context becomes an UnknownURI that keeps the
   whole string (prefix included) and records the violated constraint *)
Theorem constraint_violation_is_unknown :
  forall di u c cbm cbw s dir k g,
  strip_alleged di u = (cbm, cbw, s) ->
  find (fun e => starts_with (entry_prefix e) s) dispatch = Some (dir, k, g) ->
  guard_ok g cbm cbw = false ->
  from_string di u = Ok c -> c = CUnknown u (constraint_error cbm).
Proof. exact constraint_violation_is_unknown_ok. Qed.
Print Assumptions constraint_violation_is_unknown.

(* UnknownNode(given_rw_uri, given_ro_uri, deep_immutable): which caps an
   unknown node keeps. *)
Theorem unknown_node_rules :
  forall rw ro di n, unknown_node rw ro di = UOk n ->
  (di = true -> un_rw n = None)
  /\ (un_error n <> ENone -> un_rw n = None /\ un_ro n = None)
  /\ (forall r, un_ro n = Some r -> starts_with ro_prefix r = true \/ starts_with imm_prefix r = true)
  /\ (di = true -> forall r, un_ro n = Some r -> starts_with imm_prefix r = true)
  /\ (forall w, un_rw n = Some w -> or_none rw = Some w /\ or_none ro <> None /\ un_ro n <> None).
Proof. exact unknown_node_rules_ok. Qed.
Print Assumptions unknown_node_rules.

Theorem unknown_pins :
  unknown_code_pins = expected_unknown_code_pins.
Proof. exact unknown_code_pins_ok. Qed.
Print Assumptions unknown_pins.

(* NodeMaker.create_from_cap: the node cache is transparent.  For every history of
   earlier calls (any caps, either context) and whatever the weak dictionary still
   remembers, the answer is the one an empty cache gives; so a mutable node created
   in the ordinary context is never handed out in a deep-immutable one. *)
Theorem node_cache_transparent :
  forall cache rw ro di, cache_ok cache ->
  fst (create_from_cap cache rw ro di) = create_fresh rw ro di /\ cache_ok (snd (create_from_cap cache rw ro di)).
Proof. exact node_cache_transparent_ok. Qed.
Print Assumptions node_cache_transparent.

Theorem node_cache_may_forget :
  forall cache cache', cache_ok cache -> incl cache' cache -> cache_ok cache'.
Proof. exact cache_ok_forget. Qed.
Print Assumptions node_cache_may_forget.

Theorem created_nodes_respect_context :
  forall rw ro s c,
  (create_fresh rw ro true = MNode c -> is_mutable c <> Some true /\ is_readonly c <> Some false)
  /\ (bigcap rw ro = Some (ro_prefix ++ s) -> forall di, create_fresh rw ro di = MNode c -> is_readonly c <> Some false)
  /\ (bigcap rw ro = Some (imm_prefix ++ s) -> forall di, create_fresh rw ro di = MNode c -> is_mutable c <> Some true /\ is_readonly c <> Some false).
Proof. exact create_fresh_respects_context_ok. Qed.
Print Assumptions created_nodes_respect_context.

Theorem nodemaker_pins :
  nodemaker_code_pins = expected_nodemaker_code_pins
  /\ (nodemaker_memokey_immutable, nodemaker_memokey_mutable) = ("I", "M")%string.
Proof. exact nodemaker_pins_ok. Qed.
Print Assumptions nodemaker_pins.

(* Children stored in a directory and read back (dirnode._pack_normalized_children with
   strip_prefix_for_ro, then DirectoryNode._unpack_contents -> create_from_cap -> UnknownNode):
   `dir_store_read m di view` in Model/UriNodes.v, di = the directory is deep-immutable,
   view = read through a writeable view (the write slot is readable).

   An unknown child keeps an allegation at least as strong as the one its read cap carried
   (imm. stays imm., ro. stays ro. or becomes imm.), always has one, has imm. in an immutable
   directory, and has a write cap only if it had that one and the view is writeable.  (Read
   caps ending in a space are excluded: the unpacker strips trailing spaces, C19; a read cap
   that is the bare prefix stores as the empty string, i.e. as no cap.) *)
Theorem allegation_survives_directory :
  forall n di view n' r,
  un_ro n = Some r -> last r 0 <> 32 -> strip_prefix_for_ro r di <> [] ->
  dir_store_read (MUnknown (UOk n)) di view = Some (MUnknown (UOk n')) ->
  (forall r', un_ro n' = Some r' -> (strength r <= strength r')%nat /\ (1 <= strength r')%nat /\ (di = true -> strength r' = 2%nat))
  /\ (forall w', un_rw n' = Some w' -> exists w, un_rw n = Some w /\ w' = rstrip_spaces w /\ view = true).
Proof. exact allegation_survives_directory_ok. Qed.
Print Assumptions allegation_survives_directory.

(* the prefix-stripping rule itself: what is stored, by strength of the allegation *)
Theorem strip_prefix_rule :
  forall r di,
  match strength r with
  | 2%nat => if di then imm_prefix ++ strip_prefix_for_ro r di = r else strip_prefix_for_ro r di = r
  | 1%nat => ro_prefix ++ strip_prefix_for_ro r di = r
  | _ => strip_prefix_for_ro r di = r
  end.
Proof. exact strip_prefix_for_ro_spec. Qed.
Print Assumptions strip_prefix_rule.

(* ... and when the stored read cap parses as a KNOWN cap on the way back, that cap is not
   writeable if the original was alleged read-only or immutable, not mutable if alleged
   immutable -- provided the original was acceptable when attached *)
Theorem stored_readcap_never_upgrades :
  forall r di c0 c,
  from_string di r = Ok c0 -> (known c0 = true \/ exists s, c0 = CUnknown s ENone) ->
  from_string di (strip_prefix_for_ro r di) = Ok c ->
  ((1 <= strength r)%nat -> is_readonly c <> Some false)
  /\ (strength r = 2%nat -> is_mutable c <> Some true)
  /\ (di = true -> is_readonly c <> Some false /\ is_mutable c <> Some true).
Proof. exact stored_readcap_never_upgrades_ok. Qed.
Print Assumptions stored_readcap_never_upgrades.

(* A child linked with metadata {"no-write": true} (Adder / MetadataSetter call
   DirectoryNode._create_readonly_node, modelled by create_readonly_node) carries no write cap --
   every known cap, and every UnknownNode whose read cap carries an allegation (which
   unknown_node_rules guarantees), in particular an unknown-format (write cap, read cap) pair. *)
Theorem no_write_link_has_no_write_cap :
  forall m,
  (forall n r, m = MUnknown (UOk n) -> un_ro n = Some r -> (1 <= strength r)%nat) ->
  made_write_uri (create_readonly_node m) = None.
Proof. exact no_write_link_has_no_write_cap_ok. Qed.
Print Assumptions no_write_link_has_no_write_cap.

Theorem dirnode_pins :
  dirnode_code_pins = expected_dirnode_code_pins.
Proof. exact dirnode_pins_ok. Qed.
Print Assumptions dirnode_pins.

(* The typed entry points from_string_dirnode / _filenode / _mutable_filenode / _verifier
   forward their keyword arguments: what they return is what from_string returns for the same
   string in the same context (or they raise), so they never upgrade either. *)
Theorem typed_entry_points_agree :
  forall i di u c, typed_from_string i di u = Ok c -> from_string di u = Ok c /\ provides i c = true.
Proof. exact typed_entry_points_agree_ok. Qed.
Print Assumptions typed_entry_points_agree.

Theorem typed_entry_points_never_upgrade :
  forall i di s c,
  (typed_from_string i di (ro_prefix ++ s) = Ok c -> is_readonly c <> Some false)
  /\ (typed_from_string i di (imm_prefix ++ s) = Ok c -> is_readonly c <> Some false /\ is_mutable c <> Some true)
  /\ (typed_from_string i true s = Ok c -> is_readonly c <> Some false /\ is_mutable c <> Some true).
Proof. exact typed_entry_points_never_upgrade_ok. Qed.
Print Assumptions typed_entry_points_never_upgrade.

Theorem typed_entry_pins :
  typed_entry_table = [("from_string_dirnode", "IDirnodeURI", "from_string(s, **kwargs)");
                       ("from_string_filenode", "IFileURI", "from_string(s, **kwargs)");
                       ("from_string_mutable_filenode", "IMutableFileURI", "from_string(s, **kwargs)");
                       ("from_string_verifier", "IVerifierURI", "from_string(s, **kwargs)")]%string.
Proof. exact typed_entry_pins_ok. Qed.
Print Assumptions typed_entry_pins.

(* blacklist.ProhibitedNode (what NodeMaker wraps a blacklisted node in) passes every cap
   accessor through to the wrapped node: the models of create_from_cap and dir_store_read
   treat it as transparent *)
Theorem prohibited_node_pins :
  prohibited_code_pins = expected_prohibited_code_pins.
Proof. exact prohibited_pins_ok. Qed.
Print Assumptions prohibited_node_pins.

(* ---- satisfiable hypotheses, concrete chains (executable SHA-256) ---- *)
Definition ex_wk : bytes := repeat 1 16.
Definition ex_fp : bytes := repeat 2 32.

Example ex_chain_nonvacuous :
  get_readonly (CDir (SSK ex_wk ex_fp)) = Some (CDir (SSKRO (unhex "6d4c7ed53a22b395219d29a61e1898ee") ex_fp))
  /\ get_verify_cap (CDir (SSK ex_wk ex_fp)) = Some (CDir (SSKVerifier (unhex "6cf85b1194b7cab24a72266aed12a451") ex_fp))
  /\ is_readonly (CDir (SSK ex_wk ex_fp)) = Some false.
Proof. vm_compute. repeat split. Qed.

Example ex_ro_prefix_on_writecap :
  let s := to_string (CFile (SSK ex_wk ex_fp)) in
  from_string false (ro_prefix ++ s) = Ok (CUnknown (ro_prefix ++ s) EMustBeReadonly)
  /\ from_string false (imm_prefix ++ s) = Ok (CUnknown (imm_prefix ++ s) EMustBeDeepImmutable)
  /\ from_string true s = Ok (CUnknown s EMustBeDeepImmutable)
  /\ from_string false s = Ok (CFile (SSK ex_wk ex_fp)).
Proof. vm_compute. repeat split. Qed.

Example ex_ro_prefix_on_readcap :
  let s := to_string (CFile (SSKRO ex_wk ex_fp)) in
  from_string false (ro_prefix ++ s) = Ok (CFile (SSKRO ex_wk ex_fp))
  /\ from_string false (imm_prefix ++ s) = Ok (CUnknown (imm_prefix ++ s) EMustBeDeepImmutable).
Proof. vm_compute. repeat split. Qed.

Example ex_unknown_node_nonvacuous :
  unknown_node (Some (bytes_of_string "lafs://future-rw")) (Some (bytes_of_string "lafs://future-ro")) false
  = UOk {| un_error := ENone; un_rw := Some (bytes_of_string "lafs://future-rw"); un_ro := Some (bytes_of_string "ro.lafs://future-ro") |}
  /\ unknown_node None (Some (bytes_of_string "ro.lafs://future-ro")) true
     = UOk {| un_error := ENone; un_rw := None; un_ro := Some (bytes_of_string "imm.lafs://future-ro") |}
  /\ unknown_node (Some (bytes_of_string "lafs://future-rw")) None false
     = UOk {| un_error := EMustNotBeUnknownRW; un_rw := None; un_ro := None |}.
Proof. vm_compute. repeat split. Qed.

Example ex_cache_nonvacuous :
  let s := to_string (CFile (SSK ex_wk ex_fp)) in
  let '(m1, cache1) := create_from_cap [] (Some s) None false in
  let '(m2, cache2) := create_from_cap cache1 (Some s) None true in
  m1 = MNode (CFile (SSK ex_wk ex_fp)) /\ length cache1 = 1%nat
  /\ m2 = MUnknown (UOk {| un_error := EMustNotBeUnknownRW; un_rw := None; un_ro := None |}).
Proof. vm_compute. repeat split. Qed.

Example ex_directory_nonvacuous :
  let imm_future := {| un_error := ENone; un_rw := None; un_ro := Some (bytes_of_string "imm.x-some-future-cap:ab") |} in
  let ro_future := {| un_error := ENone; un_rw := Some (bytes_of_string "x-future-rw:1"); un_ro := Some (bytes_of_string "ro.x-some-future-cap:ab") |} in
  dir_store_read (MUnknown (UOk imm_future)) false true = Some (MUnknown (UOk imm_future))
  /\ dir_store_read (MUnknown (UOk imm_future)) true false = Some (MUnknown (UOk imm_future))
  /\ dir_store_read (MUnknown (UOk ro_future)) false true = Some (MUnknown (UOk ro_future))
  /\ dir_store_read (MUnknown (UOk ro_future)) false false
     = Some (MUnknown (UOk {| un_error := ENone; un_rw := None; un_ro := Some (bytes_of_string "ro.x-some-future-cap:ab") |}))
  /\ strip_prefix_for_ro (bytes_of_string "imm.x-some-future-cap:ab") false = bytes_of_string "imm.x-some-future-cap:ab"
  /\ strip_prefix_for_ro (bytes_of_string "imm.x-some-future-cap:ab") true = bytes_of_string "x-some-future-cap:ab".
Proof. vm_compute. repeat split. Qed.

Example ex_no_write_nonvacuous :
  let pair := MUnknown (UOk {| un_error := ENone; un_rw := Some (bytes_of_string "x-future-rw:1"); un_ro := Some (bytes_of_string "ro.x-some-future-cap:ab") |}) in
  made_write_uri pair = Some (bytes_of_string "x-future-rw:1")
  /\ create_readonly_node pair = MUnknown (UOk {| un_error := ENone; un_rw := None; un_ro := Some (bytes_of_string "ro.x-some-future-cap:ab") |})
  /\ create_readonly_node (MNode (CDir (SSK ex_wk ex_fp))) = MNode (CDir (SSKRO (unhex "6d4c7ed53a22b395219d29a61e1898ee") ex_fp)).
Proof. vm_compute. repeat split. Qed.
