(* C30  HTTP storage API authorization.
   Statements only; each is closed by `exact` of a lemma in Proofs/HttpAuth.v.
   Gen/Routes.v (route table, Secrets, AST pins) is regenerated from
   src/allmydata/storage/http_server.py and http_common.py on every run;
   Model/HttpAuth.v is the hand-written model of _authorization_decorator,
   _extract_secrets, UploadsInProgress and the secret-sensitive handlers.

   "The handler is not invoked" is expressed by quantifying over EVERY backend
   (B, bucket_write, bucket_abort, backend_rtw) and every other handler (AOther f):
   the resulting state is the initial one whatever those functions would do.
   A response `HStatus c` carries no payload: nothing of the server's state. *)
From Coq Require Import List NArith Bool String.
From Verif Require Import Lib.Hex Gen.Routes Model.HttpAuth Proofs.HttpAuth Proofs.HttpBase64.
Import ListNotations.
Local Open Scope N_scope.

(* Every Klein route of HTTPServer is registered through _authorized_route ... *)
Theorem every_route_authorised :
  forall r, In r routes -> r_authorised r = true.
Proof. exact every_route_authorised_ok. Qed.
Print Assumptions every_route_authorised.

(* ... and its handler reads exactly the secrets the route requires. *)
Theorem every_route_reads_required_secrets :
  forall r, In r routes -> secret_set_eqb (r_uses r) (r_required r) = true.
Proof. exact every_route_reads_required_ok. Qed.
Print Assumptions every_route_reads_required_secrets.

Theorem secret_routes_require_their_secret :
  needs "write_share_data" S_UPLOAD = true /\ needs "abort_share_upload" S_UPLOAD = true
  /\ needs "allocate_buckets" S_UPLOAD = true /\ needs "mutable_read_test_write" S_WRITE_ENABLER = true.
Proof. exact secret_routes_ok. Qed.
Print Assumptions secret_routes_require_their_secret.

(* A request whose (first) Authorization header is not exactly the server's
   "Tahoe-LAFS <base64 swissnum>" is answered 401 (400 if the header is not UTF-8), for
   every route, every handler and every backend, and the state is the initial one. *)
Theorem no_swissnum_no_effect :
  forall (B R RTW : Type) bucket_write bucket_abort already_uploaded backend_rtw
         swissnum required rq (a : action B R RTW) st,
    auth_header rq <> Some (swissnum_auth_header swissnum) ->
    serve B R RTW bucket_write bucket_abort already_uploaded backend_rtw swissnum required rq a st
    = (st, HStatus (match auth_header rq with None => 400 | Some _ => 401 end)).
Proof. exact serve_no_swissnum. Qed.
Print Assumptions no_swissnum_no_effect.

(* "Without the server's correct swissnum": base64 loses nothing, so the header built from
   any other swissnum (byte strings) differs from the expected one -> 401, nothing happens. *)
Theorem base64_roundtrip :
  forall b, Forall is_byte b -> b64decode (b64encode b) = Some b.
Proof. exact b64_roundtrip. Qed.
Print Assumptions base64_roundtrip.

Theorem other_swissnum_rejected :
  forall (B R RTW : Type) bucket_write bucket_abort already_uploaded backend_rtw
         swissnum swissnum' required more xauth (a : action B R RTW) st,
    Forall is_byte swissnum -> Forall is_byte swissnum' -> swissnum' <> swissnum ->
    serve B R RTW bucket_write bucket_abort already_uploaded backend_rtw swissnum required
          (mk_request (Some (swissnum_auth_header swissnum') :: map Some more) xauth) a st
    = (st, HStatus 401).
Proof. exact other_swissnum_ok. Qed.
Print Assumptions other_swissnum_rejected.

(* Correct swissnum, but the X-Tahoe-Authorization set is bad: a header that does not
   parse (no space, unknown kind, undecodable or empty base64, lease secret that is not
   32 bytes), a required kind with no header, or a header of a kind the route does not
   require.  400, state unchanged, for every handler. *)
Theorem bad_secrets_rejected_before_handler :
  forall (B R RTW : Type) bucket_write bucket_abort already_uploaded backend_rtw
         swissnum required rq hs (a : action B R RTW) st,
    auth_header rq = Some (swissnum_auth_header swissnum) ->
    all_some (rq_xauth rq) = Some hs ->
    ( (exists h e, In h hs /\ parse_header h = inl e)                                            (* malformed *)
      \/ (exists k, In k required /\ forall h, In h hs -> forall k' v, parse_header h = inr (k', v) -> k' <> k)   (* missing *)
      \/ (exists h k v, In h hs /\ parse_header h = inr (k, v) /\ ~ In k required) ) ->            (* extra *)
    serve B R RTW bucket_write bucket_abort already_uploaded backend_rtw swissnum required rq a st
    = (st, HStatus 400).
Proof. exact bad_secrets_ok. Qed.
Print Assumptions bad_secrets_rejected_before_handler.

(* Duplicated kinds are NOT rejected by the code: when the handler is invoked every header
   parsed, the kinds present are exactly the required ones, and each secret handed to the
   handler is the value of the LAST header of its kind. *)
Theorem duplicate_last_wins :
  forall swissnum required rq d,
    authorize swissnum required rq = Invoke d ->
    auth_header rq = Some (swissnum_auth_header swissnum)
    /\ exists hs, all_some (rq_xauth rq) = Some hs
       /\ (forall h, In h hs -> exists k v, parse_header h = inr (k, v))
       /\ (forall k, dict_get d k = last_of k hs None)
       /\ (forall k, In k required <-> exists v, last_of k hs None = Some v).
Proof. exact duplicate_last_wins_ok. Qed.
Print Assumptions duplicate_last_wins.

(* Writes to and aborts of an in-progress upload need that upload's secret: with any
   other effective upload secret (or none) the state, including the upload's progress and
   its tracking entry, is unchanged and the answer is a bare rejection. *)
Theorem upload_secret_required :
  forall (B R RTW : Type) bucket_write bucket_abort already_uploaded backend_rtw
         swissnum required rq k content_range_ok offset body u (b : B) s,
    up_lookup u k = Some s ->
    effective_secret rq S_UPLOAD <> Some s ->
    (fst (serve B R RTW bucket_write bucket_abort already_uploaded backend_rtw swissnum required rq
                (AWrite k content_range_ok offset body) (u, b)) = (u, b)
     /\ exists c, snd (serve B R RTW bucket_write bucket_abort already_uploaded backend_rtw swissnum required rq
                (AWrite k content_range_ok offset body) (u, b)) = HStatus c /\ is_reject_status c)
    /\ (fst (serve B R RTW bucket_write bucket_abort already_uploaded backend_rtw swissnum required rq
                (AAbort k) (u, b)) = (u, b)
     /\ exists c, snd (serve B R RTW bucket_write bucket_abort already_uploaded backend_rtw swissnum required rq
                (AAbort k) (u, b)) = HStatus c /\ is_reject_status c).
Proof. exact serve_upload_secret. Qed.
Print Assumptions upload_secret_required.

(* ... and at the handler: exactly 401. *)
Theorem upload_secret_mismatch_is_401 :
  forall (B R : Type) bucket_write bucket_abort already_uploaded d k offset body u (b : B) s s',
    up_lookup u k = Some s -> dict_get d S_UPLOAD = Some s' -> s' <> s ->
    h_write B R bucket_write d k true offset body (u, b) = ((u, b), HStatus 401)
    /\ h_abort B R bucket_abort already_uploaded d k (u, b) = ((u, b), HStatus 401).
Proof. exact upload_secret_mismatch_ok. Qed.
Print Assumptions upload_secret_mismatch_is_401.

(* Mutable writes.  What is proved here is the HTTP layer's part: the route requires a
   write-enabler header (secret_routes_require_their_secret), the enabler handed to
   StorageServer.slot_testv_and_readv_and_writev is the effective header value, and the
   server's refusal becomes 401 with the state unchanged.  The refusal itself
   (MutableShareFile.check_write_enabler: a different enabler than the stored one raises
   BadWriteEnablerError before anything is written) is property C24's rule and enters as
   the hypothesis `backend_checks_enabler`. *)
Theorem write_enabler_required :
  forall (B R RTW : Type) bucket_write bucket_abort already_uploaded
         (backend_rtw : B -> list N -> (list N * list N * list N) -> RTW -> option (B * R))
         (slot_enabler : B -> list N -> option (list N)),
    (forall b si we lr lc req e, slot_enabler b si = Some e -> we <> e -> backend_rtw b si (we, lr, lc) req = None) ->
    forall swissnum required rq si rtw u b e,
      slot_enabler b si = Some e ->
      effective_secret rq S_WRITE_ENABLER <> Some e ->
      fst (serve B R RTW bucket_write bucket_abort already_uploaded backend_rtw swissnum required rq (ARtw si rtw) (u, b)) = (u, b)
      /\ exists c, snd (serve B R RTW bucket_write bucket_abort already_uploaded backend_rtw swissnum required rq (ARtw si rtw) (u, b))
                   = HStatus c /\ is_reject_status c.
Proof. exact serve_write_enabler. Qed.
Print Assumptions write_enabler_required.

Theorem write_enabler_passed_unchanged :
  forall (B R RTW : Type) (backend_rtw : B -> list N -> (list N * list N * list N) -> RTW -> option (B * R))
         d si req u b we lr lc,
    dict_get d S_WRITE_ENABLER = Some we -> dict_get d S_LEASE_RENEW = Some lr -> dict_get d S_LEASE_CANCEL = Some lc ->
    h_rtw B R RTW backend_rtw d si req (u, b) =
      match backend_rtw b si (we, lr, lc) req with
      | None => ((u, b), HStatus 401)
      | Some (b', r) => ((u, b'), HBusiness r)
      end.
Proof. exact h_rtw_passes_secrets. Qed.
Print Assumptions write_enabler_passed_unchanged.

(* The hand-written model was written for these definitions (AST fingerprints). *)
Theorem pins :
  (pin_authorization_decorator, pin_authorized_route, pin_extract_secrets, pin_UploadsInProgress,
   pin_StorageIndexUploads, pin_HTTPError, pin_add_error_handling, pin_swissnum_auth_header)
  = ("76de59f014c8757e", "690c3092b3431409", "2803c43c76835969", "3f1f3694b5dfcb59",
     "a9a18daedb02e4fc", "ee5554427c780c9a", "c3342ffc5b0a19b8", "d9ec2bd37416caa6")%string.
Proof. exact pins_ok. Qed.
Print Assumptions pins.

Theorem handler_pins :
  (handler_pin "write_share_data", handler_pin "abort_share_upload", handler_pin "mutable_read_test_write",
   handler_pin "allocate_buckets")
  = ("360860dc48965e6f", "d0bd803e85fb51cb", "4cc5d1b98b169ffd", "169c785c59c5cf7a")%string.
Proof. exact handler_pins_ok. Qed.
Print Assumptions handler_pins.

(* ---- the hypotheses are satisfiable / the model computes what the server does ---- *)
Example ex_authorised_nonvacuous :
  authorize ex_sw [S_UPLOAD] (mk_request [ex_good_auth] [ex_upload_hdr])
  = Invoke [(S_UPLOAD, bytes_of_string "uuuuuuuu")].
Proof. vm_compute. reflexivity. Qed.

Example ex_wrong_swissnum :
  authorize ex_sw [S_UPLOAD] (mk_request [Some (bytes_of_string "Tahoe-LAFS YWJjZQ==")] [ex_upload_hdr])
  = Reject WrongAuthorizationHeader.
Proof. vm_compute. reflexivity. Qed.

Example ex_second_authorization_ignored :
  authorize ex_sw [] (mk_request [Some (bytes_of_string "x"); ex_good_auth] []) = Reject WrongAuthorizationHeader.
Proof. vm_compute. reflexivity. Qed.

Example ex_missing_secret :
  authorize ex_sw [S_UPLOAD] (mk_request [ex_good_auth] []) = Reject (ClientSecrets WrongSecretSet).
Proof. vm_compute. reflexivity. Qed.

Example ex_extra_secret :
  authorize ex_sw [] (mk_request [ex_good_auth] [ex_upload_hdr]) = Reject (ClientSecrets WrongSecretSet).
Proof. vm_compute. reflexivity. Qed.

Example ex_bad_padding :
  authorize ex_sw [S_UPLOAD] (mk_request [ex_good_auth] [Some (bytes_of_string "upload-secret dXV1dXV1dXU")])
  = Reject (ClientSecrets BadHeaderValues).
Proof. vm_compute. reflexivity. Qed.

Example ex_short_lease_secret :
  authorize ex_sw [S_LEASE_RENEW] (mk_request [ex_good_auth] [Some (bytes_of_string "lease-renew-secret dXV1dXV1dXU=")])
  = Reject (ClientSecrets LeaseLength).
Proof. vm_compute. reflexivity. Qed.

Example ex_duplicate_last_wins :
  authorize ex_sw [S_UPLOAD] (mk_request [ex_good_auth] [Some (bytes_of_string "upload-secret eHg="); ex_upload_hdr])
  = Invoke [(S_UPLOAD, bytes_of_string "uuuuuuuu")].
Proof. vm_compute. reflexivity. Qed.

Example ex_upload_secret_mismatch :
  auth_status ex_sw [S_UPLOAD] [((bytes_of_string "si", 3), bytes_of_string "other")]
              (mk_request [ex_good_auth] [ex_upload_hdr]) (TWrite (bytes_of_string "si", 3) true) = Some 401.
Proof. vm_compute. reflexivity. Qed.

Example ex_upload_secret_match :
  auth_status ex_sw [S_UPLOAD] [((bytes_of_string "si", 3), bytes_of_string "uuuuuuuu")]
              (mk_request [ex_good_auth] [ex_upload_hdr]) (TWrite (bytes_of_string "si", 3) true) = None.
Proof. vm_compute. reflexivity. Qed.
