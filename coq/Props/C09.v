(* C09  Mutable files read back what one writer wrote.
   Statements only; each is closed by `exact` of a lemma in Proofs/MutFile*.v.
   Model/MutFile.v: `None` = the real call fails; `represents sdmf maxseg k f d` = version f
   (format, k, segment size, length, stored segments) holds the byte string d;
   maxseg = DEFAULT_MUTABLE_MAX_SEGMENT_SIZE; k = required shares. *)
From Coq Require Import List Arith NArith Bool.
From Verif Require Import Lib.Hex Model.MutFile Proofs.MutFileMain.
Import ListNotations.

(* TransformingUploadable.read: `a` reads of one segment followed by one read of any length
   (every chunking Publish can produce), concatenated, are a prefix of
   start[:fso] ++ newdata ++ end[eoff:][:m] -- whenever the reads before the last do not pass the
   end of the new data and the total stays inside the region. *)
Theorem update_reads_are_region :
  forall data s e off seg m lastlen a,
    seg <> 0 -> off mod seg <= length s ->
    a * seg <= off mod seg + length data ->
    a * seg + lastlen <= length (tu_region data s e off seg m) ->
    concat (tu_reads (tu_init data off seg s e) (repeat seg a ++ [lastlen]))
    = firstn (a * seg + lastlen) (tu_region data s e off seg m).
Proof. exact transforming_reads_ok. Qed.
Print Assumptions update_reads_are_region.

(* update(data, offset), SDMF (re-encode) and MDMF (in place / re-encode for an append at a segment
   boundary): for offset <= size the operation succeeds and the new version holds the splice. *)
Theorem update_is_splice :
  forall sdmf maxseg k f old data off,
    0 < k -> (sdmf = false -> 0 < maxseg) ->
    represents sdmf maxseg k f old -> off <= length old ->
    exists f', do_update maxseg f data off = Some f' /\
               represents sdmf maxseg k f' (splice old data off) /\
               read_all f' = Some (splice old data off).
Proof. exact update_is_splice_ok. Qed.
Print Assumptions update_is_splice.

(* the splice changes only [offset, offset+len) and extends the file iff it writes past the end *)
Theorem update_preserves_rest :
  forall old data off, off <= length old ->
    length (splice old data off) = spec_update_len old data off /\
    (forall i, nth i (splice old data off) 0%N = spec_update_byte old data off i) /\
    (length old < length (splice old data off) <-> length old < off + length data).
Proof. exact update_preserves_rest_ok. Qed.
Print Assumptions update_preserves_rest.

(* offset > size is outside the precondition: MDMF refuses ... *)
Theorem mdmf_update_past_eof_rejected :
  forall maxseg k f old data off,
    0 < k -> 0 < maxseg -> represents false maxseg k f old -> length old < off ->
    do_update maxseg f data off = None.
Proof. exact mdmf_update_past_eof_rejected_ok. Qed.
Print Assumptions mdmf_update_past_eof_rejected.

(* ... SDMF succeeds and puts the data at the old end of file, not at the offset
   (known finding sdmf-update-past-eof-misplaces-data; replayed on the real code by the driver) *)
Theorem sdmf_update_past_eof_refuted :
  exists old data off f f' r,
    length old < off /\
    publish true 128 3 old = Some f /\ do_update 128 f data off = Some f' /\ read_all f' = Some r /\
    length r <> spec_update_len old data off /\ nth off r 0%N <> spec_update_byte old data off off.
Proof.
  exists [1; 2; 3]%N, [9; 9]%N, 5.
  eexists. eexists. eexists.
  split; [vm_compute; repeat constructor|].
  split; [vm_compute; reflexivity|]. split; [vm_compute; reflexivity|]. split; [vm_compute; reflexivity|].
  split; vm_compute; discriminate.
Qed.
Print Assumptions sdmf_update_past_eof_refuted.

(* a whole-file publish stores div_ceil(len, segsize) segments; decoding and trimming each
   (tail segment included) and concatenating gives the data back *)
Theorem segments_roundtrip :
  forall sdmf maxseg k data,
    0 < k -> (sdmf = false -> 0 < maxseg) ->
    exists f, publish sdmf maxseg k data = Some f /\ represents sdmf maxseg k f data /\
              length (mf_segs f) = (if mf_segsize f =? 0 then 0 else div_ceil (length data) (mf_segsize f)) /\
              concat (map (decoded_segment f) (seq 0 (retr_num f))) = data /\
              read_all f = Some data.
Proof. exact segments_roundtrip_ok. Qed.
Print Assumptions segments_roundtrip.

(* Retrieve's first/last segment selection and _set_segment trimming: a read inside the file returns
   exactly data[offset:offset+size]; size None reads to the end; a non-empty read that leaves the file
   is refused (precondition in _start_download), it is not clipped *)
Theorem read_range_exact :
  forall sdmf maxseg k f data off sz,
    0 < k -> (sdmf = false -> 0 < maxseg) -> represents sdmf maxseg k f data ->
    (off + sz <= length data -> retrieve_read f off (Some sz) = Some (slice off (off + sz) data)) /\
    (off <= length data -> retrieve_read f off None = Some (skipn off data)) /\
    (0 < sz -> length data < off + sz -> retrieve_read f off (Some sz) = None) /\
    (length data < off -> retrieve_read f off None = None).
Proof. exact read_range_exact_ok. Qed.
Print Assumptions read_range_exact.

(* any history of overwrite / modify / update operations (update offsets <= current size) succeeds
   and the resulting version reads back, in full and in every range, as the reference byte string *)
Theorem history_refines_bytearray :
  forall sdmf maxseg k init ops,
    0 < k -> (sdmf = false -> 0 < maxseg) -> history_ok init ops ->
    exists f0 f, publish sdmf maxseg k init = Some f0 /\ run_impl maxseg f0 ops = Some f /\
                 represents sdmf maxseg k f (run_spec init ops) /\
                 read_all f = Some (run_spec init ops) /\
                 (forall off sz, off + sz <= length (run_spec init ops) ->
                    retrieve_read f off (Some sz) = Some (slice off (off + sz) (run_spec init ops))).
Proof. exact history_refines_bytearray_ok. Qed.
Print Assumptions history_refines_bytearray.

(* ... and so does every read between two operations *)
Theorem history_every_prefix :
  forall sdmf maxseg k init ops1 ops2,
    0 < k -> (sdmf = false -> 0 < maxseg) -> history_ok init (ops1 ++ ops2) ->
    exists f0 f, publish sdmf maxseg k init = Some f0 /\ run_impl maxseg f0 ops1 = Some f /\
                 read_all f = Some (run_spec init ops1).
Proof. exact history_every_prefix_ok. Qed.
Print Assumptions history_every_prefix.

(* ---- the hypotheses are satisfiable; the model computes ------------------------------------ *)
Definition ex_init : bytes := [1; 2; 3; 4; 5; 6; 7; 8; 9; 10; 11]%N.
Definition ex_ops : list op :=
  [ OpUpdate [21; 22; 23]%N 3;                                 (* inside, crosses a segment boundary (segsize 4) *)
    OpUpdate [31; 32]%N 10;                                    (* reaches past the end: extends to 12 = 3 segments *)
    OpUpdate [41; 42; 43; 44; 45]%N 12;                        (* append at a segment boundary: 5 segments, crosses 4 *)
    OpModify (fun old => Some (firstn 6 old ++ [51]%N));       (* shrink *)
    OpUpdate []%N 7;                                           (* empty append *)
    OpOverwrite [61; 62; 63; 64; 65; 66; 67; 68; 69]%N;
    OpUpdate [71]%N 8 ].

Example ex_history_ok_nonvacuous : history_ok ex_init ex_ops.
Proof. vm_compute. repeat split; repeat constructor. Qed.

Example ex_history_mdmf :
  match publish false 4 2 ex_init with
  | Some f0 => match run_impl 4 f0 ex_ops with
               | Some f => opt_bytes_eqb (read_all f) (Some (run_spec ex_init ex_ops)) &&
                           opt_bytes_eqb (retrieve_read f 3 (Some 5)) (Some [64; 65; 66; 67; 68]%N) &&
                           (mf_segsize f =? 4) && (length (mf_segs f) =? 3)
               | None => false
               end
  | None => false
  end = true.
Proof. vm_compute. reflexivity. Qed.

Example ex_history_sdmf :
  match publish true 4 2 ex_init with
  | Some f0 => match run_impl 4 f0 ex_ops with
               | Some f => opt_bytes_eqb (read_all f) (Some [61; 62; 63; 64; 65; 66; 67; 68; 71]%N)
               | None => false
               end
  | None => false
  end = true.
Proof. vm_compute. reflexivity. Qed.

(* the in-place path stitches the boundary segments: 11 bytes in segments of 4, 3 bytes at offset 3 *)
Example ex_in_place :
  match publish false 4 2 ex_init with
  | Some f => match update_in_place 4 f [21; 22; 23]%N 3 with
              | Some f' => list_bytes_eqb (mf_segs f') [[1; 2; 3; 21]; [22; 23; 7; 8]; [9; 10; 11; 0]]%N
              | None => false
              end
  | None => false
  end = true.
Proof. vm_compute. reflexivity. Qed.

Example ex_read_rejected :
  match publish false 4 2 ex_init with
  | Some f => opt_bytes_eqb (retrieve_read f 9 (Some 3)) None && opt_bytes_eqb (retrieve_read f 9 (Some 2)) (Some [10; 11]%N)
  | None => false
  end = true.
Proof. vm_compute. reflexivity. Qed.
