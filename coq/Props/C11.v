(* C11  Mutable version ordering and rollback resistance.
   Model/ServerMap.v models ServerMap's version bookkeeping, Publish's choice of
   the new sequence number and ServermapUpdater._check_for_done (READ/ANYTHING/CHECK). *)
From Coq Require Import List NArith Bool Sorted.
From Verif Require Import Model.ServerMap Proofs.ServerMap.
Import ListNotations.
Local Open Scope N_scope.

(* A read returns the recoverable version with the highest sequence number (ties broken
   by the rest of the version id, as Python's tuple order does) among those located *)
Theorem best_is_max_recoverable :
  forall m v, best_recoverable_version m = Some v ->
    In v (recoverable_versions m) /\
    forall w, In w (recoverable_versions m) -> version_leb w v = true.
Proof. exact best_is_max_recoverable_ok. Qed.
Print Assumptions best_is_max_recoverable.

Theorem best_has_highest_seqnum :
  forall m v w, best_recoverable_version m = Some v -> In w (recoverable_versions m) -> seq w <= seq v.
Proof. exact best_seq_is_highest. Qed.
Print Assumptions best_has_highest_seqnum.

Theorem no_best_iff_none_recoverable :
  forall m, best_recoverable_version m = None <-> recoverable_versions m = [].
Proof. exact best_none_iff. Qed.
Print Assumptions no_best_iff_none_recoverable.

(* what "recoverable" means: some located share carries the version and at least k
   distinct share numbers of it were located *)
Theorem recoverable_iff_k_distinct :
  forall m v, In v (recoverable_versions m) <->
              (exists s, In s m /\ ver s = v) /\ vk v <= count_shares m v.
Proof. exact recoverable_In. Qed.
Print Assumptions recoverable_iff_k_distinct.

(* the sequence number a publish writes exceeds that of every share its survey observed *)
Theorem new_seqnum_gt_all_seen :
  forall m s, In s m -> seq (ver s) < new_seqnum m.
Proof. exact new_seqnum_gt_all_seen_ok. Qed.
Print Assumptions new_seqnum_gt_all_seen.

(* one writer: if each survey locates at least one share of the previous publish, the
   published sequence numbers strictly increase (every earlier one is below every later one) *)
Theorem one_writer_strictly_increasing :
  forall surveys, observed_chain surveys -> StronglySorted N.lt (map new_seqnum surveys).
Proof. exact one_writer_strictly_increasing_ok. Qed.
Print Assumptions one_writer_strictly_increasing.

(* read-your-writes for an uncontended writer: the version published with new_seqnum of its survey,
   once k distinct shares of it are in a later map that holds nothing the survey had not seen, is
   what that later read returns *)
Theorem publish_then_read :
  forall m_survey m_read v,
    seq v = new_seqnum m_survey ->
    In v (recoverable_versions m_read) ->
    (forall w, In w (versions m_read) -> w <> v -> In w (versions m_survey)) ->
    best_recoverable_version m_read = Some v.
Proof. exact publish_then_read_ok. Qed.
Print Assumptions publish_then_read.

(* MODE_READ keeps querying while a newer unrecoverable version is known and servers remain *)
Theorem mode_read_keeps_querying :
  forall u m, running u = true -> must_query u = false -> (outstanding u || extra u = true) ->
    (exists v, In v (unrecoverable_newer_versions m)) ->
    check_for_done MODE_READ u m = More.
Proof. exact mode_read_keeps_querying_ok. Qed.
Print Assumptions mode_read_keeps_querying.

Theorem mode_read_done_only_if :
  forall u m, check_for_done MODE_READ u m = Done ->
    (outstanding u = false /\ extra u = false) \/
    (to_query u <= completed u /\
     exists hr, best_recoverable_version m = Some hr /\
                forall v, In v (unrecoverable_versions m) -> seq v <= seq hr).
Proof. exact mode_read_done_only_if_ok. Qed.
Print Assumptions mode_read_done_only_if.

(* non-vacuity: 3-of-? file, version 5 recoverable (3 distinct shares), version 7 seen once *)
Definition ex_map : servermap :=
  [ {| srv := 1; shnum := 0; ver := {| seq := 5; vtag := 9; vk := 3 |} |};
    {| srv := 2; shnum := 1; ver := {| seq := 5; vtag := 9; vk := 3 |} |};
    {| srv := 3; shnum := 2; ver := {| seq := 5; vtag := 9; vk := 3 |} |};
    {| srv := 3; shnum := 0; ver := {| seq := 5; vtag := 9; vk := 3 |} |};
    {| srv := 4; shnum := 4; ver := {| seq := 7; vtag := 2; vk := 3 |} |} ].
Example ex_publish_then_read :
  let v8 := {| seq := 8; vtag := 1; vk := 1 |} in
  new_seqnum ex_map = 8 /\ In v8 (recoverable_versions ({| srv := 9; shnum := 0; ver := v8 |} :: ex_map)) /\
  best_recoverable_version ({| srv := 9; shnum := 0; ver := v8 |} :: ex_map) = Some v8.
Proof. vm_compute. repeat split. left. reflexivity. Qed.
Example ex_newer_unrecoverable :
  best_recoverable_version ex_map = Some {| seq := 5; vtag := 9; vk := 3 |} /\
  unrecoverable_newer_versions ex_map = [ {| seq := 7; vtag := 2; vk := 3 |} ] /\
  new_seqnum ex_map = 8 /\
  check_for_done MODE_READ {| running := true; must_query := false; outstanding := false; extra := true;
                              completed := 10; to_query := 5 |} ex_map = More.
Proof. vm_compute. repeat split. Qed.
Example ex_chain : observed_chain [ [] ; [ {| srv := 1; shnum := 0; ver := {| seq := 1; vtag := 0; vk := 1 |} |} ] ].
Proof. apply oc_cons; [eexists; split; [left; reflexivity|reflexivity] | apply oc_one]. Qed.

From Verif Require Import Gen.MutPins.
From Coq Require Import String.
(* Fingerprints (AST, comments and docstrings excluded) of the source functions this model
   transcribes by hand, regenerated from /repo on every run (harness/translate/mutpins.py):
   the model was written for exactly these versions of them. *)
Theorem model_pins_current :
  pins_C11 =
  [("servermap_highest_seqnum", "4871c81fee974c91")%string;
   ("servermap_shares_available", "d787572c6f9a5558")%string;
   ("servermap_recoverable_versions", "7503b41df73f1b99")%string;
   ("servermap_unrecoverable_versions", "e842ac165b6a52f6")%string;
   ("servermap_best_recoverable_version", "d17e5392f2d1ae9d")%string;
   ("servermap_unrecoverable_newer_versions", "86adec526abef15e")%string;
   ("servermap_check_for_done", "74ad7670791d4051")%string;
   ("servermap_got_results", "60636861fd94f8ae")%string;
   ("publish_publish", "0a32e3c41d355f9a")%string;
   ("publish_update", "b510a9f0c086f050")%string].
Proof. reflexivity. Qed.
Print Assumptions model_pins_current.
