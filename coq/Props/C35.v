(* C35  Merkle hash trees accept only genuine leaves.
   Statements only; each is closed by `exact` of a lemma in Proofs/HashTree*.v.
   The model is Model/HashTree.v (IncompleteHashTree.set_hashes with its level sets,
   an arbitrary set.pop() order `ord`, arbitrary -- also negative and out-of-range --
   keys in `hashes`/`leaves`, rollback).  Hash values are abstract:
     pair_hash injective, never the empty byte string;
     truthy h  models  `if self[i]:`  (h is not b"").
   G is the tree that produced the trusted root: G p = pair_hash (G (2p+1)) (G (2p+2)).
   `genuine G T`: every present node of T equals the node of G;  `closed T`: a present
   non-root node has its parent and its sibling present (holds initially and after
   every accepted call: accept_preserves_closed);  `all_truthy T`: no stored b"". *)
From Coq Require Import List ZArith Bool.
From Verif Require Import Model.HashTree Proofs.HashTreeBase Proofs.HashTree Proofs.HashTreeStored Proofs.HashTreeLeaf
  Proofs.HashTreeComplete Proofs.HashTreeBuild Proofs.HashTreeSym.
Import ListNotations.
Local Open Scope Z_scope.

(* Soundness: whatever the adversary supplies, an accepted call leaves only genuine nodes. *)
Theorem accept_implies_genuine :
  forall (H : Type) (H_eqb : H -> H -> bool) (pair_hash : H -> H -> H) (truthy : H -> bool),
    (forall a b, H_eqb a b = true <-> a = b) ->
    (forall a b, truthy (pair_hash a b) = true) ->
  forall (G : Z -> H) (n : Z),
    (forall a b c d, pair_hash a b = pair_hash c d -> a = c /\ b = d) ->
    (forall p, 0 <= p -> 2 * p + 2 < n -> G p = pair_hash (G (2 * p + 1)) (G (2 * p + 2))) ->
    (forall j, 0 <= j < n -> truthy (G j) = true) ->
  forall (fl : Z) (T0 : list (option H)) (hashes leaves : list (Z * H)) (ord : list Z) (T1 : list (option H)),
    zlen T0 = n ->
    genuine H G T0 ->
    slot T0 0 <> None ->
    set_hashes H H_eqb pair_hash truthy fl T0 hashes leaves ord = Accepted H T1 ->
    genuine H G T1.
Proof. exact accepted_genuine. Qed.
Print Assumptions accept_implies_genuine.

(* ... in particular an accepted leaf (any accepted non-empty value) is the genuine one. *)
Theorem accepted_leaf_is_genuine :
  forall (H : Type) (H_eqb : H -> H -> bool) (pair_hash : H -> H -> H) (truthy : H -> bool),
    (forall a b, H_eqb a b = true <-> a = b) ->
    (forall a b, truthy (pair_hash a b) = true) ->
  forall (G : Z -> H) (n : Z),
    (forall a b c d, pair_hash a b = pair_hash c d -> a = c /\ b = d) ->
    (forall p, 0 <= p -> 2 * p + 2 < n -> G p = pair_hash (G (2 * p + 1)) (G (2 * p + 2))) ->
    (forall j, 0 <= j < n -> truthy (G j) = true) ->
  forall (fl : Z) (T0 : list (option H)) (hashes leaves : list (Z * H)) (ord : list Z) (T1 : list (option H)),
    zlen T0 = n ->
    genuine H G T0 ->
    slot T0 0 <> None ->
    set_hashes H H_eqb pair_hash truthy fl T0 hashes leaves ord = Accepted H T1 ->
    (forall leafnum h, In (leafnum, h) leaves -> 0 <= fl + leafnum < n -> truthy h = true -> h = G (fl + leafnum)) /\
    (forall k h, In (k, h) hashes -> 0 <= k < n -> truthy h = true -> h = G k).
Proof. exact accepted_values_genuine. Qed.
Print Assumptions accepted_leaf_is_genuine.

(* Completeness: the genuine values for exactly the nodes needed_hashes(leaf, include_leaf=True)
   asks for (through `hashes`, the leaf optionally through `leaves`), in any dict order and any
   set.pop() order, are accepted and the leaf is then known. *)
Theorem genuine_needed_hashes_accepted :
  forall (H : Type) (H_eqb : H -> H -> bool) (pair_hash : H -> H -> H) (truthy : H -> bool),
    (forall a b, H_eqb a b = true <-> a = b) ->
    (forall a b, truthy (pair_hash a b) = true) ->
  forall (G : Z -> H) (n : Z),
    (forall p, 0 <= p -> 2 * p + 2 < n -> G p = pair_hash (G (2 * p + 1)) (G (2 * p + 2))) ->
    (forall j, 0 <= j < n -> truthy (G j) = true) ->
  forall (fl : Z) (T0 : list (option H)) (leafnum : Z) (nd : list Z) (hashes leaves : list (Z * H)) (ord : list Z),
    zlen T0 = n ->
    genuine H G T0 ->
    closed H T0 ->
    slot T0 0 <> None ->
    needed_hashes H fl T0 leafnum true = Some nd ->
    (forall k h, In (k, h) hashes -> In k nd /\ h = G k) ->
    (forall ln h, In (ln, h) leaves -> ln = leafnum /\ h = G (fl + leafnum)) ->
    (forall k, In k nd -> In k (map fst hashes) \/ (k = fl + leafnum /\ leaves <> [])) ->
    exists T1, set_hashes H H_eqb pair_hash truthy fl T0 hashes leaves ord = Accepted H T1 /\
               slot T1 (fl + leafnum) = Some (G (fl + leafnum)).
Proof. exact needed_accepted. Qed.
Print Assumptions genuine_needed_hashes_accepted.

(* Rollback: every rejection (BadHashError, NotEnoughHashesError, IndexError) leaves the list
   exactly as it was, and the uncaught-exception paths of the code (Crash) are unreachable. *)
Theorem reject_restores_state :
  forall (H : Type) (H_eqb : H -> H -> bool) (pair_hash : H -> H -> H) (truthy : H -> bool),
    (forall a b, H_eqb a b = true <-> a = b) ->
    (forall a b, truthy (pair_hash a b) = true) ->
  forall (fl : Z) (T0 : list (option H)) (hashes leaves : list (Z * H)) (ord : list Z) (e : err) (T1 : list (option H)),
    all_truthy H truthy T0 ->
    set_hashes H H_eqb pair_hash truthy fl T0 hashes leaves ord = Rejected H e T1 ->
    T1 = T0 /\ e <> Crash.
Proof. exact rejected_restores. Qed.
Print Assumptions reject_restores_state.

(* Full statement (without `all_truthy T0`) is refuted by the faithful model: the code tests
   `if self[i]:`, so a stored b"" is overwritten and then rolled back to None.
   Known finding "state-changed-after-rejection:empty-value-present" (replayed on the real code
   from corpus/C35/empty-root-not-restored.json). *)
Theorem reject_restores_state_without_nonempty_refuted :
  exists (T0 : sym_tree) (hashes : list (Z * sym)) (e : err) (T1 : sym_tree),
    sym_set_hashes 1 T0 hashes [] [] = Rejected sym e T1 /\ sym_tree_eqb T1 T0 = false.
Proof. exact empty_value_not_restored. Qed.
Print Assumptions reject_restores_state_without_nonempty_refuted.

(* The preconditions of completeness are invariants of the reachable states. *)
Theorem accept_preserves_closed :
  forall (H : Type) (H_eqb : H -> H -> bool) (pair_hash : H -> H -> H) (truthy : H -> bool),
    (forall a b, H_eqb a b = true <-> a = b) ->
    (forall a b, truthy (pair_hash a b) = true) ->
  forall (fl : Z) (T0 : list (option H)) (hashes leaves : list (Z * H)) (ord : list Z) (T1 : list (option H)),
    all_truthy H truthy T0 -> closed H T0 ->
    set_hashes H H_eqb pair_hash truthy fl T0 hashes leaves ord = Accepted H T1 ->
    closed H T1.
Proof. exact accepted_closed. Qed.
Print Assumptions accept_preserves_closed.

(* HashTree.__init__ produces the Merkle tree over the leaves padded with empty_leaf_hash(i). *)
Theorem hash_tree_is_merkle :
  forall (H : Type) (pair_hash : H -> H -> H) (empty_leaf_hash : Z -> H) (L : list H) (d : H),
    let t := hash_tree H pair_hash empty_leaf_hash L in
    let P := roundup_pow2 (zlen L) in
    zlen t = 2 * P - 1 /\
    (forall i, 0 <= i < zlen L -> nth (Z.to_nat (P - 1 + i)) t d = nth (Z.to_nat i) L d) /\
    (forall i, zlen L <= i < P -> nth (Z.to_nat (P - 1 + i)) t d = empty_leaf_hash i) /\
    (forall p, 0 <= p -> 2 * p + 2 < zlen t ->
       nth (Z.to_nat p) t d = pair_hash (nth (Z.to_nat (2 * p + 1)) t d) (nth (Z.to_nat (2 * p + 2)) t d)).
Proof. exact hash_tree_merkle. Qed.
Print Assumptions hash_tree_is_merkle.

(* ---- non-vacuity: the symbolic hashes satisfy every hypothesis, on a concrete 5-leaf tree ---- *)
Example hypotheses_nonvacuous :
  (forall a b, sym_eqb a b = true <-> a = b) /\
  (forall a b, sym_truthy (Pair a b) = true) /\
  (forall a b c d, Pair a b = Pair c d -> a = c /\ b = d) /\
  (forall p, 0 <= p -> 2 * p + 2 < 15 -> G5 p = Pair (G5 (2 * p + 1)) (G5 (2 * p + 2))) /\
  (forall j, 0 <= j < 15 -> sym_truthy (G5 j) = true) /\
  zlen T5_root = 15 /\ genuine sym G5 T5_root /\ closed sym T5_root /\ slot T5_root 0 <> None.
Proof. exact sym_hypotheses. Qed.

Example ex_needed_5 : sym_needed_hashes 7 T5_root 2 true = Some [10; 3; 2; 9].
Proof. vm_compute. reflexivity. Qed.

(* genuine chain for leaf 2 of 5: accepted, leaf and the computed parents are now known *)
Example ex_genuine_accepted_5 :
  sym_set_hashes 7 T5_root [(10, G5 10); (3, G5 3); (2, G5 2)] [(2, Leaf 2)] [] =
  Accepted sym [Some (G5 0); Some (G5 1); Some (G5 2); Some (G5 3); Some (G5 4); None; None; None; None;
                Some (Leaf 2); Some (Leaf 3); None; None; None; None].
Proof. vm_compute. reflexivity. Qed.

(* same inputs in another dict order and another pop order *)
Example ex_genuine_accepted_5_other_order :
  sym_set_hashes 7 T5_root [(2, G5 2); (9, Leaf 2); (3, G5 3); (10, G5 10)] [] [10; 3; 1; 2] =
  sym_set_hashes 7 T5_root [(10, G5 10); (3, G5 3); (2, G5 2)] [(2, Leaf 2)] [].
Proof. vm_compute. reflexivity. Qed.

(* forged leaf, forged auxiliary hash, a consistent forgery up to level 1: all rejected, state restored *)
Example ex_forged_leaf_rejected :
  sym_set_hashes 7 T5_root [(10, G5 10); (3, G5 3); (2, G5 2)] [(2, Junk 9)] [9] = Rejected sym BadHashError T5_root.
Proof. vm_compute. reflexivity. Qed.

Example ex_consistent_forgery_rejected :
  sym_set_hashes 7 T5_root [(10, G5 10); (4, Pair (Junk 9) (G5 10)); (1, Pair (G5 3) (Pair (Junk 9) (G5 10))); (3, G5 3); (2, G5 2)]
                 [(2, Junk 9)] [] = Rejected sym BadHashError T5_root.
Proof. vm_compute. reflexivity. Qed.

Example ex_missing_hash_rejected :
  sym_set_hashes 7 T5_root [(10, G5 10); (2, G5 2)] [(2, Leaf 2)] [10; 9] = Rejected sym NotEnoughHashesError T5_root.
Proof. vm_compute. reflexivity. Qed.

Example ex_out_of_range_index_rejected :
  sym_set_hashes 7 T5_root [(10, Junk 3); (99, Junk 4)] [] [] = Rejected sym IndexError T5_root.
Proof. vm_compute. reflexivity. Qed.

Example ex_negative_index_rejected :
  sym_set_hashes 7 T5_root [(-1, Junk 3)] [] [] = Rejected sym IndexError T5_root.
Proof. vm_compute. reflexivity. Qed.

Example ex_hash_tree_5 :
  sym_hash_tree leaves5 =
  [Pair (Pair (Pair (Leaf 0) (Leaf 1)) (Pair (Leaf 2) (Leaf 3))) (Pair (Pair (Leaf 4) (Pad 5)) (Pair (Pad 6) (Pad 7)));
   Pair (Pair (Leaf 0) (Leaf 1)) (Pair (Leaf 2) (Leaf 3)); Pair (Pair (Leaf 4) (Pad 5)) (Pair (Pad 6) (Pad 7));
   Pair (Leaf 0) (Leaf 1); Pair (Leaf 2) (Leaf 3); Pair (Leaf 4) (Pad 5); Pair (Pad 6) (Pad 7);
   Leaf 0; Leaf 1; Leaf 2; Leaf 3; Leaf 4; Pad 5; Pad 6; Pad 7].
Proof. vm_compute. reflexivity. Qed.
