(* C23  Mutable share containers behave like byte arrays.
   Statements only; each is closed by `exact` of a lemma in Proofs/MutContainerRefine.v.

   `file` is the byte content of a container file, the operations are the
   byte-level transcription of storage/mutable.py in Model/MutContainer.v,
   `layout_ok maxsz f` is the executable layout invariant of DESIGN.md A.5
   (valid magic, DATA_OFFSET + data_length <= extra_lease_offset <= DATA_OFFSET +
   MAX_SIZE, file ends exactly after the extra-lease block), `abs_data f` the
   readable data (the first data_length bytes of the data region).  `maxsz` is
   MutableShareFile.MAX_SIZE; the theorems hold for every value whose container
   offsets fit the 8-byte header fields (ex_real_max_size: the real one does). *)
From Coq Require Import List NArith Bool.
From Verif Require Import Lib.Hex Gen.MutConsts Model.MutContainer
  Proofs.MutContainerBytes Proofs.MutContainer Proofs.MutContainerRefine.
Import ListNotations.
Local Open Scope N_scope.

(* For every history of test-and-write and read requests against one share --
   existing or missing, a missing share testing as empty, new_length = 0 deleting
   it, a request with a vector beyond MAX_SIZE refused as a whole -- the
   observations (test results, read results, errors) and the final readable data
   are those of the reference growable byte array `run_ref`; the invariant is kept. *)
Theorem refines_bytearray :
  forall maxsz fresh s ops,
    468 + maxsz < 2 ^ 64 ->
    layout_ok maxsz fresh = true -> abs_data fresh = Ok [] ->
    share_ok maxsz s ->
    run_ref maxsz (abs_share s) ops
      = (abs_share (fst (run_share maxsz fresh s ops)), snd (run_share maxsz fresh s ops))
    /\ share_ok maxsz (fst (run_share maxsz fresh s ops)).
Proof. exact refines_bytearray_proof. Qed.
Print Assumptions refines_bytearray.

(* The same at the level of MutableShareFile.writev itself, including the case in
   which a vector exceeds MAX_SIZE and the call raises after earlier vectors were
   applied: file on disk and exception are those of the reference. *)
Theorem writev_refines :
  forall maxsz f dv nl d,
    468 + maxsz < 2 ^ 64 -> layout_ok maxsz f = true -> abs_data f = Ok d ->
    layout_ok maxsz (out_file (writev maxsz f dv nl)) = true /\
    abs_data (out_file (writev maxsz f dv nl)) = Ok (fst (ref_writev maxsz d dv nl)) /\
    out_err (writev maxsz f dv nl) = snd (ref_writev maxsz d dv nl).
Proof. exact writev_refines_proof. Qed.
Print Assumptions writev_refines.

Theorem readv_refines :
  forall maxsz f rv d, layout_ok maxsz f = true -> abs_data f = Ok d -> readv f rv = Ok (ref_readv d rv).
Proof. exact readv_refines_lemma. Qed.
Print Assumptions readv_refines.

Theorem check_testv_refines :
  forall maxsz f tv d, layout_ok maxsz f = true -> abs_data f = Ok d ->
    check_testv f tv = Ok (ref_check_testv d tv).
Proof. exact check_testv_refines_lemma. Qed.
Print Assumptions check_testv_refines.

(* A write that starts past the end of the data: the bytes between the old end
   and the write offset read back as zeros. *)
Theorem gap_zero_filled :
  forall maxsz f off data d,
    468 + maxsz < 2 ^ 64 -> layout_ok maxsz f = true -> abs_data f = Ok d ->
    len d <= off -> off + len data <= maxsz ->
    exists f', writev maxsz f [(off, data)] None = Done f' /\
               read_share_data f' (len d) (off - len d) = Ok (zeros (off - len d)).
Proof. exact gap_zero_filled_proof. Qed.
Print Assumptions gap_zero_filled.

(* Truncate to n, then extend by a write at off >= n: whatever was stored beyond
   n before the truncation is not readable afterwards; the range [n, off) is zeros. *)
Theorem stale_bytes_never_exposed :
  forall maxsz f n off data d,
    468 + maxsz < 2 ^ 64 -> layout_ok maxsz f = true -> abs_data f = Ok d ->
    n <= len d -> n <= off -> off + len data <= maxsz ->
    exists f1 f2, writev maxsz f [] (Some n) = Done f1 /\ writev maxsz f1 [(off, data)] None = Done f2 /\
                  read_share_data f2 n (off - n) = Ok (zeros (off - n)).
Proof. exact stale_bytes_never_exposed_proof. Qed.
Print Assumptions stale_bytes_never_exposed.

(* No data write -- inside the data, extending it, growing the container and
   thereby relocating the extra-lease block, truncating, or failing half way --
   changes any of the lease records (the four header slots and every extra
   lease, empty or not, byte for byte) or the write enabler. *)
Theorem data_writes_preserve_leases :
  forall maxsz f dv nl,
    468 + maxsz < 2 ^ 64 -> layout_ok maxsz f = true ->
    raw_lease_records (out_file (writev maxsz f dv nl)) = raw_lease_records f /\
    read_write_enabler (out_file (writev maxsz f dv nl)) = read_write_enabler f.
Proof. exact data_writes_preserve_leases_proof. Qed.
Print Assumptions data_writes_preserve_leases.

(* A container created by create_mutable_sharefile satisfies the invariant and is empty. *)
Theorem fresh_container_ok :
  forall maxsz v nodeid we,
    layout_ok maxsz (mut_header v nodeid we) = true /\ abs_data (mut_header v nodeid we) = Ok [].
Proof. exact fresh_container_ok_proof. Qed.
Print Assumptions fresh_container_ok.

(* ---- the hypotheses are satisfiable; the definitions compute ---------------------------------- *)
Example ex_real_max_size : 468 + MAX_SIZE < 2 ^ 64.
Proof. reflexivity. Qed.

Definition ex_we : list N := repeat 7 32.
Definition ex_node : list N := repeat 9 20.
Definition ex_fresh : file := mut_header V2 ex_node ex_we.

(* write "abc" at 5 into a new share, truncate to 2, write at 6: bytes 2..5 are zeros, not "\0\0\0a" *)
Example ex_history :
  run_share 100 ex_fresh None
    [OpTW [] [(5, [97; 98; 99])] None; OpRead [(0, 100)];
     OpTW [(5, 3, [97; 98; 99])] [] (Some 2); OpTW [] [(6, [120])] None; OpRead [(0, 100)];
     OpTW [(0, 1, [1])] [(0, [1])] None; OpTW [] [(100, [1])] None; OpTW [] [] (Some 0); OpRead [(0, 1)]]
  = (None,
     [ObsTW (Ok true); ObsRead (Some [[0; 0; 0; 0; 0; 97; 98; 99]]);
      ObsTW (Ok true); ObsTW (Ok true); ObsRead (Some [[0; 0; 0; 0; 0; 0; 120]]);
      ObsTW (Ok false); ObsTW (Err EDataTooLarge); ObsTW (Ok true); ObsRead None]).
Proof. vm_compute. reflexivity. Qed.

Example ex_layout_nonvacuous :
  layout_ok 100 ex_fresh = true /\
  match writev 100 ex_fresh [(90, [1; 2; 3])] None with
  | Done f => layout_ok 100 f = true /\ abs_data f = Ok (zeros 90 ++ [1; 2; 3])
  | Raised _ _ => False
  end.
Proof. vm_compute. auto. Qed.
