(* C45  Immutable check, verify and repair.
   Statements only; each is closed by `exact` of a lemma in Proofs/ImmCheck*.v.
   The model is Model/ImmCheck.v: Checker._download_and_verify (ValidatedExtendedURIProxy,
   ValidatedReadBucketProxy.get_all_sharehashes / get_all_blockhashes / get_all_crypttext_hashes /
   get_block), Checker._format_results, and the repairer's re-encoding; the downloader it uses
   and the genuine file are Model/ImmVerify.v (C02), the Merkle trees Model/HashTree.v (C35).
   Every field of the share handed to the verifier is arbitrary; `s` is the share number the
   server announces it under.  Hash hypotheses as in C02. *)
From Coq Require Import List ZArith NArith Bool.
From Verif Require Import Gen.ImmConsts Model.HashTree Model.ImmFile Model.ImmVerify Model.ImmCheck
  Proofs.ImmFileRead Proofs.ImmVerifyTree Proofs.ImmVerify Proofs.ImmVerifyRead Proofs.ImmCheck Proofs.ImmVerifySym
  Proofs.ImmCheckRepair.
Import ListNotations.
Local Open Scope Z_scope.

(* A share the verifier reports good carries the uploader's UEB; every block it read is the
   uploader's block of THAT share number, and every share-hash-chain entry, crypttext-hash-tree
   node and block-hash-tree node it read is the uploader's. *)
Theorem verified_share_is_genuine :
  forall (H : Type) (H_eqb : H -> H -> bool) (pair_hash : H -> H -> H) (truthy : H -> bool) (empty_leaf : Z -> H)
         (block_hash seg_hash : list N -> H) (UB : Type) (ueb_hash : UB -> H) (parse_ueb : UB -> option (ueb H))
         (ser_ueb : ueb H -> UB),
    (forall a b, H_eqb a b = true <-> a = b) ->
    (forall h, truthy h = true) ->
    (forall a b c d, pair_hash a b = pair_hash c d -> a = c /\ b = d) ->
    (forall a b, block_hash a = block_hash b -> a = b) ->
    (forall a b, ueb_hash a = ueb_hash b -> a = b) ->
    (forall u, parse_ueb (ser_ueb u) = Some u) ->
  forall (f : efile) (key : list N), ef_wf f ->
  let c := g_cap H pair_hash empty_leaf block_hash seg_hash UB ueb_hash ser_ueb key f in
  forall (s : Z) (vs : vshare H UB) (ords0 : nat -> list Z) (ords : nat -> nat -> list Z),
    0 <= s < Z.of_N (ef_n f) ->
    verify_share H H_eqb pair_hash truthy block_hash UB ueb_hash parse_ueb c s vs ords0 ords = VGood ->
    v_ueb vs = UebBytes (ser_ueb (g_ueb H pair_hash empty_leaf block_hash seg_hash f)) /\
    (forall j, 0 <= j < nseg f -> vblock H UB vs j = gblock f s j) /\
    (forall k h l, v_share_hashes vs = Some l -> In (k, h) (pydict l) -> 0 <= k < ns f ->
                   h = Gs H pair_hash empty_leaf block_hash f k) /\
    (forall k h, In (k, h) (enumerate (v_ct_hashes vs)) -> 0 <= k < nc f -> h = Gc H pair_hash empty_leaf seg_hash f k) /\
    (1 <= nseg f -> forall k h, In (k, h) (enumerate (v_block_hashes vs)) -> 0 <= k < nc f ->
                    h = Gb H pair_hash empty_leaf block_hash f s k).
Proof.
  intros H H_eqb pair_hash truthy empty_leaf block_hash seg_hash UB ueb_hash parse_ueb ser_ueb He Ht Hp Hb Hu Hps f key Hwf c.
  exact (verify_share_sound H H_eqb pair_hash truthy empty_leaf block_hash seg_hash UB ueb_hash parse_ueb ser_ueb He Ht Hp Hb Hu Hps f key Hwf).
Qed.
Print Assumptions verified_share_is_genuine.

(* The same statement for the verifier as it was before the fix in /repo (the block hash tree
   root compared with the share hash tree only `if not self.block_hash_tree[0]`) is refuted by the
   faithful model: share 0's bytes, announced as share 1, are reported good.
   Finding "verify-reports-share-good-under-wrong-number" (fixed). *)
Theorem verified_share_is_genuine_before_fix_refuted :
  exists (f : efile) (key : list N) (s : Z) (vs : vshare hs ub),
    ef_wf f /\ 0 <= s < Z.of_N (ef_n f) /\
    sym_verify_share_gen false (sym_g_cap key f) s vs (fun _ => []) (fun _ _ => []) = VGood /\
    zassoc 0 (v_blocks vs) <> Some (gblock f s 0).
Proof.
  exists f1, [], 1, (sym_vshare_of (f1_share 0) 1).
  split; [exact f1_wf|]. split; [vm_compute; split; [discriminate|reflexivity]|]. exact unanchored_verifier_accepts_other_share.
Qed.
Print Assumptions verified_share_is_genuine_before_fix_refuted.

(* Checker._format_results: healthy exactly when the shares found good have N distinct numbers *)
Theorem healthy_iff_N_distinct :
  forall (k n : N) (rs : list server_result) (cr : check_results),
    format_results k n rs = Some cr ->
    (cr_healthy cr = true <->
     exists l, (NoDup l /\ forall s, In s l <-> exists r, In r rs /\ In s (sr_verified r)) /\ N.of_nat (length l) = n).
Proof. exact healthy_iff. Qed.
Print Assumptions healthy_iff_N_distinct.

(* ... recoverable exactly when at least k distinct numbers were found good *)
Theorem recoverable_iff_k_distinct :
  forall (k n : N) (rs : list server_result) (cr : check_results),
    format_results k n rs = Some cr ->
    (cr_recoverable cr = true <->
     exists l, NoDup l /\ N.of_nat (length l) = k /\ forall s, In s l -> exists r, In r rs /\ In s (sr_verified r)).
Proof. exact recoverable_iff. Qed.
Print Assumptions recoverable_iff_k_distinct.

(* ... and it produces results unless more than N distinct numbers were reported (the code's
   `assert len(verifiedshares) <= total_shares`: the check then fails instead of reporting) *)
Theorem format_results_defined_iff :
  forall (k n : N) (rs : list server_result),
    format_results k n rs = None <-> (n < N.of_nat (length (good_shares rs)))%N.
Proof. exact format_results_defined. Qed.
Print Assumptions format_results_defined_iff.

(* Repair.  The repairer learns the segment size from a validated UEB (get_segment_size), reads
   the whole ciphertext through the validating downloader and encodes it again with the cap's k
   and N.  If the read completes, the re-encoded file IS the uploader's: same blocks and hash
   trees, the capability computed from it is the original capability, and every share it writes
   equals the original share of that number (so an existing good share is never contradicted,
   and a share that validates under the cap -- C02, verified_share_is_genuine -- has exactly
   these blocks).
   Full statement: "... and the file can be read from the repaired shares alone".  Proved here:
   the repaired shares equal the original ones, and a download that starts fresh accepts every
   block of every repaired share (last conjunct; the offsets must pass Share._satisfy_offsets, as
   those written by WriteBucketProxy do: C01 offsets_layout).  Missing for the full statement:
   completeness in every later node state (after other shares filled parts of the shared trees)
   and the decoder's any-k-of-N property (C36) to put the accepted blocks back into the
   segment; both are exercised by the examples below and by the grid runs of the driver
   (download from the repaired shares alone), not proved. *)
Theorem repair_output_validates_under_readcap_partial :
  forall (H : Type) (H_eqb : H -> H -> bool) (pair_hash : H -> H -> H) (truthy : H -> bool) (empty_leaf : Z -> H)
         (block_hash seg_hash : list N -> H) (UB : Type) (ueb_hash : UB -> H) (parse_ueb : UB -> option (ueb H))
         (dec : N -> N -> list (N * list N) -> list (list N)) (ser_ueb : ueb H -> UB)
         (enc : N -> N -> list (list N) -> list (list N)),
    (forall a b, H_eqb a b = true <-> a = b) ->
    (forall h, truthy h = true) ->
    (forall a b c d, pair_hash a b = pair_hash c d -> a = c /\ b = d) ->
    (forall a b, block_hash a = block_hash b -> a = b) ->
    (forall a b, seg_hash a = seg_hash b -> a = b) ->
    (forall a b, ueb_hash a = ueb_hash b -> a = b) ->
    (forall u, parse_ueb (ser_ueb u) = Some u) ->
  forall (k n segsize guess : N) (ct key : list N)
         (script : N -> list (Z * share H UB * (nat -> list Z)) * list Z)
         (tries : list (Z * share H UB * (nat -> list Z))) (ord : list Z),
    (1 <= N.of_nat (length ct))%N -> (1 <= k)%N -> (1 <= segsize)%N -> (segsize mod k = 0)%N -> (1 <= guess)%N ->
    let f := encode_file enc k n segsize ct in
    let c := g_cap H pair_hash empty_leaf block_hash seg_hash UB ueb_hash ser_ueb key f in
    forall dn0 r0 ss ws chunks,
      fetch_segment H H_eqb pair_hash truthy block_hash seg_hash UB ueb_hash parse_ueb dec c (node_init H c) 0 tries ord = (dn0, r0) ->
      dn_segsize dn0 = Some ss ->
      read_plan (N.of_nat (length ct)) segsize guess 0 None = SegDone ws ->
      serve H H_eqb pair_hash truthy block_hash seg_hash UB ueb_hash parse_ueb dec c (node_init H c) ws script = (chunks, None) ->
      let f' := repair_encode enc (c_k c) (c_n c) ss (concat chunks) in
      f' = f /\
      g_cap H pair_hash empty_leaf block_hash seg_hash UB ueb_hash ser_ueb key f' = c /\
      (forall ver o i, g_share H pair_hash empty_leaf block_hash seg_hash UB ser_ueb f' ver o i
                       = g_share H pair_hash empty_leaf block_hash seg_hash UB ser_ueb f ver o i) /\
      (forall ver o i j ords,
         check_offsets H UB (g_share H pair_hash empty_leaf block_hash seg_hash UB ser_ueb f' ver o i) = None ->
         0 <= i < Z.of_N n -> 0 <= j < nseg f ->
         exists dn', get_block H H_eqb pair_hash truthy block_hash UB ueb_hash parse_ueb c (node_init H c) i j
                               (g_share H pair_hash empty_leaf block_hash seg_hash UB ser_ueb f' ver o i) ords
                     = (dn', GBlock (gblock f i j))).
Proof. exact repair_equals_original. Qed.
Print Assumptions repair_output_validates_under_readcap_partial.

(* ---- non-vacuity and runs --------------------------------------------------------------------- *)
Example hypotheses_nonvacuous :
  (forall a b, hs_eqb a b = true <-> a = b) /\
  (forall h, sym_truthy h = true) /\
  (forall a b c d, HPair a b = HPair c d -> a = c /\ b = d) /\
  (forall a b, HBlock a = HBlock b -> a = b) /\
  (forall a b, HSeg a = HSeg b -> a = b) /\
  (forall a b, sym_ueb_hash a = sym_ueb_hash b -> a = b) /\
  (forall u, sym_parse_ueb (UbOk u) = Some u).
Proof. exact sym_hypotheses. Qed.

(* genuine shares verify good under their own number; share 0's bytes under number 1 and share 1's
   bytes under number 2 are corrupt for the fixed verifier *)
Example ex_verdicts :
  sym_verify_share f1_cap 1 (sym_vshare_of (f1_share 0) 1) no_ord no_ord2 = VCorrupt /\
  sym_verify_share f1_cap 1 (sym_vshare_of (f1_share 1) 1) no_ord no_ord2 = VGood /\
  sym_verify_share f3_cap 0 (sym_vshare_of (f3_share 0) 1) no_ord no_ord2 = VGood /\
  sym_verify_share f3_cap 1 (sym_vshare_of (f3_share 1) 1) no_ord no_ord2 = VGood /\
  sym_verify_share f3_cap 2 (sym_vshare_of (f3_share 2) 1) no_ord no_ord2 = VGood /\
  sym_verify_share f3_cap 2 (sym_vshare_of (f3_share 1) 1) no_ord no_ord2 = VCorrupt.
Proof. exact anchored_verifier_examples. Qed.

(* the genuine shares 1 and 2 of f3 (what a repair of share 0 would leave next to a corrupt
   share 0) serve the whole file *)
Example ex_read_from_two_genuine_shares :
  sym_serve f3_dec f3_cap (sym_node_init f3_cap) [mk_write 0 0 2; mk_write 1 0 2; mk_write 2 0 1] f3_script
  = ([[1; 2]; [3; 4]; [5]]%N, None).
Proof. exact f3_download_runs. Qed.

Example ex_format_results :
  format_results 2 3 [mkSr 0 [0; 1] [] [] true; mkSr 1 [1; 2] [5] [] true; mkSr 2 [] [] [] false]
  = Some (mkCr true true 3 2 1 0 [0; 1; 2]) /\
  format_results 2 3 [mkSr 0 [0] [] [] true; mkSr 1 [0] [] [] true]
  = Some (mkCr false false 1 2 0 0 [0]) /\
  format_results 2 3 [mkSr 0 [0; 1; 2; 3] [] [] true] = None.
Proof. repeat split; vm_compute; reflexivity. Qed.
