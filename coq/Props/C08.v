(* C08  Happiness value equals a maximum server/share matching.
   Statements only; proofs are in Proofs/Matching.v.  Model: Model/Matching.v
   (servers_of_happiness and the graph helpers of happiness_upload.py).

   FULL STATEMENTS (the property):
     soh_is_matching        forall svm n, soh_servermap svm = Some n ->
                              exists M, is_matching svm M /\ n = Z.of_nat (length M)
     soh_is_maximum         forall svm n, soh_servermap svm = Some n ->
                              0 <= n /\ max_matching_size svm (Z.to_nat n)
     soh_order_independent  forall a b n m, same_edges a b -> soh_servermap a = Some n ->
                              soh_servermap b = Some m -> n = m
   PROVED HERE: the same three with the extra hypothesis `soh_certified svm = true`
   (names ..._partial): the boolean validator accepts the matching (unit flows) and
   the vertex cover (servers the last BFS did not colour, shares it coloured) read off
   the algorithm's final state.  What is missing for the full statements is
   `forall svm, soh_certified svm = true` (augmentation preserves the flow
   invariant, BFS closure, fuel suffices); the harness evaluates soh_certified in Coq
   on every correspondence case (all 74 963 relations <= 4x4 in the thorough tier).
   certificate_checker_sound, max_matching_unique, shares_by_server_transposes are
   unconditional and hold for all graphs. *)
From Coq Require Import List NArith ZArith Bool Permutation.
From Verif Require Import Model.Matching Proofs.Matching.
Import ListNotations.
Local Open Scope N_scope.

(* Koenig, easy direction, as a checker: any graph, any claimed matching and cover. *)
Theorem certificate_checker_sound :
  forall (svm : servermap) (n : Z) (M : list (N * N)) (CL CR : list N),
    valid_certificate svm n M CL CR = true ->
    is_matching svm M /\ n = Z.of_nat (length M) /\ max_matching_size svm (length M).
Proof. exact certificate_sound. Qed.
Print Assumptions certificate_checker_sound.

Theorem max_matching_unique :
  forall a b n m, same_edges a b -> max_matching_size a n -> max_matching_size b m -> n = m.
Proof. exact max_matching_size_unique. Qed.
Print Assumptions max_matching_unique.

Theorem soh_is_matching_partial :
  forall svm n, soh_certified svm = true -> soh_servermap svm = Some n ->
    exists M, is_matching svm M /\ n = Z.of_nat (length M).
Proof. exact soh_matching_of_certified. Qed.
Print Assumptions soh_is_matching_partial.

Theorem soh_is_maximum_partial :
  forall svm n, soh_certified svm = true -> soh_servermap svm = Some n ->
    (0 <= n)%Z /\ max_matching_size svm (Z.to_nat n).
Proof. exact soh_maximum_of_certified. Qed.
Print Assumptions soh_is_maximum_partial.

(* Any two presentations (dict insertion order, set iteration order) of the same
   relation give the same number. *)
Theorem soh_order_independent_partial :
  forall a b n m, same_edges a b -> soh_certified a = true -> soh_certified b = true ->
    soh_servermap a = Some n -> soh_servermap b = Some m -> n = m.
Proof. exact soh_order_independent_of_certified. Qed.
Print Assumptions soh_order_independent_partial.

(* shares_by_server transposes the sharemap, so the graph of the theorems above is the
   relation "server holds share" of the sharemap, and permuting the sharemap's
   association list (or any of its peer lists) leaves that relation unchanged. *)
Theorem shares_by_server_transposes :
  forall sm p s, edge (shares_by_server sm) p s <-> sm_edge sm p s.
Proof. exact shares_by_server_edges. Qed.
Print Assumptions shares_by_server_transposes.

Theorem sharemap_permutation_same_relation :
  forall a b, Permutation a b -> forall p s, sm_edge a p s <-> sm_edge b p s.
Proof. exact sm_edge_perm. Qed.
Print Assumptions sharemap_permutation_same_relation.

(* ---- non-vacuity ------------------------------------------------------------- *)
(* The layout of the servers_of_happiness docstring. *)
Definition ex_doc : servermap := [(1, [1; 2; 3; 4]); (2, [6]); (3, [3]); (4, [4]); (5, [2])].

Example ex_doc_value : soh_servermap ex_doc = Some 5%Z.
Proof. vm_compute. reflexivity. Qed.

Example ex_doc_certified_nonvacuous : soh_certified ex_doc = true.
Proof. vm_compute. reflexivity. Qed.

(* A relation where the greedy first choice must be re-routed (3 servers, Hall-tight). *)
Example ex_reroute_nonvacuous :
  soh_servermap [(1, [1; 2]); (2, [1]); (3, [2; 3])] = Some 3%Z /\
  soh_certified [(1, [1; 2]); (2, [1]); (3, [2; 3])] = true.
Proof. vm_compute. split; reflexivity. Qed.

(* Every servermap over 3 servers and 3 shares (512 relations) is certified. *)
Example ex_all_3x3_certified_nonvacuous :
  forallb soh_certified (all_servermaps [1; 2; 3] [1; 2; 3]) = true /\
  length (all_servermaps [1; 2; 3] [1; 2; 3]) = 512%nat.
Proof. vm_compute. split; reflexivity. Qed.

Example ex_order_nonvacuous :
  servers_of_happiness [(0, [7; 8]); (1, [7])] = Some 2%Z /\
  servers_of_happiness [(1, [7]); (0, [8; 7])] = Some 2%Z.
Proof. vm_compute. split; reflexivity. Qed.
