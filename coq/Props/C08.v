(* C08  Happiness value equals a maximum server/share matching.
   Statements only; proofs are in Proofs/Matching*.v.  Model: Model/Matching.v
   (servers_of_happiness and the graph helpers of happiness_upload.py: re-indexing,
   flow network, BFS with colours and predecessors, augmenting path, residual
   network, augmentation loop).

   The three theorems of the property are proved at full strength for the model:
   whenever the model returns a number (it returns None only when the explicit fuel
   - servers + 1 augmentations, vertices + 1 BFS steps - runs out or Python would
   raise), that number is the size of a matching of the server/share relation, no
   larger matching exists, and it is the same for every presentation of the relation.
   `wf_svm` is the type invariant of the Python value (a dict has no repeated key, a
   set no repeated element); shares_by_server always produces it.
   Proof: flow invariant preserved by each augmentation along the BFS predecessor
   path (Proofs/MatchingAugment.v), BFS closure (Proofs/MatchingBfs.v), Koenig cover
   from the coloured set (Proofs/MatchingLoop.v), re-indexing (Proofs/MatchingNetwork.v).
   Termination is proved too (Proofs/MatchingTotal.v): the fuel always suffices, so
   the model returns a number for every well-formed servermap and every sharemap. *)
From Coq Require Import List NArith ZArith Bool Permutation.
From Verif Require Import Model.Matching Proofs.Matching Proofs.MatchingNetwork Proofs.MatchingFull Proofs.MatchingTotal.
Import ListNotations.
Local Open Scope N_scope.

(* ---- the property, on the servermap servers_of_happiness iterates ------------------ *)

Theorem soh_is_matching :
  forall svm n, wf_svm svm -> soh_servermap svm = Some n ->
    exists M, is_matching svm M /\ n = Z.of_nat (length M).
Proof. exact soh_matching_full. Qed.
Print Assumptions soh_is_matching.

Theorem soh_is_maximum :
  forall svm n, wf_svm svm -> soh_servermap svm = Some n ->
    (0 <= n)%Z /\ max_matching_size svm (Z.to_nat n).
Proof. exact soh_maximum_full. Qed.
Print Assumptions soh_is_maximum.

(* the fuel (servers + 1 augmentations, vertices + 1 BFS steps, vertices path steps) suffices *)
Theorem soh_total : forall svm, wf_svm svm -> exists n, soh_servermap svm = Some n.
Proof. exact soh_servermap_total. Qed.
Print Assumptions soh_total.

(* any two presentations (dict insertion order, set iteration order) of one relation *)
Theorem soh_order_independent :
  forall a b n m, wf_svm a -> wf_svm b -> same_edges a b ->
    soh_servermap a = Some n -> soh_servermap b = Some m -> n = m.
Proof. exact soh_order_independent_full. Qed.
Print Assumptions soh_order_independent.

(* ---- the same at the level of the sharemap argument --------------------------------- *)

Theorem shares_by_server_transposes :
  forall sm p s, edge (shares_by_server sm) p s <-> sm_edge sm p s.
Proof. exact shares_by_server_edges. Qed.
Print Assumptions shares_by_server_transposes.

Theorem shares_by_server_well_formed : forall sm, wf_svm (shares_by_server sm).
Proof. exact shares_by_server_wf. Qed.
Print Assumptions shares_by_server_well_formed.

Theorem servers_of_happiness_is_maximum_matching :
  forall sm n, servers_of_happiness sm = Some n ->
    (0 <= n)%Z /\ max_matching_size (shares_by_server sm) (Z.to_nat n).
Proof. exact servers_of_happiness_correct. Qed.
Print Assumptions servers_of_happiness_is_maximum_matching.

Theorem servers_of_happiness_returns : forall sm, exists n, servers_of_happiness sm = Some n.
Proof. exact servers_of_happiness_total. Qed.
Print Assumptions servers_of_happiness_returns.

Theorem servers_of_happiness_order_independent :
  forall sm sm' n m, Permutation sm sm' ->
    servers_of_happiness sm = Some n -> servers_of_happiness sm' = Some m -> n = m.
Proof. exact servers_of_happiness_perm. Qed.
Print Assumptions servers_of_happiness_order_independent.

Theorem servers_of_happiness_depends_on_relation_only :
  forall sm sm' n m, (forall p s, sm_edge sm p s <-> sm_edge sm' p s) ->
    servers_of_happiness sm = Some n -> servers_of_happiness sm' = Some m -> n = m.
Proof. exact servers_of_happiness_order. Qed.
Print Assumptions servers_of_happiness_depends_on_relation_only.

(* ---- Koenig, easy direction, as a checker (any graph, any claimed matching and cover);
        also used by C07 ---------------------------------------------------------------- *)
Theorem certificate_checker_sound :
  forall (svm : servermap) (n : Z) (M : list (N * N)) (CL CR : list N),
    valid_certificate svm n M CL CR = true ->
    is_matching svm M /\ n = Z.of_nat (length M) /\ max_matching_size svm (length M).
Proof. exact certificate_sound. Qed.
Print Assumptions certificate_checker_sound.

Theorem max_matching_unique :
  forall a b n m, same_edges a b -> max_matching_size a n -> max_matching_size b m -> n = m.
Proof. exact max_matching_size_unique. Qed.
Print Assumptions max_matching_unique.

(* ---- non-vacuity ------------------------------------------------------------------------ *)
(* The layout of the servers_of_happiness docstring. *)
Definition ex_doc : servermap := [(1, [1; 2; 3; 4]); (2, [6]); (3, [3]); (4, [4]); (5, [2])].

Example ex_doc_value_nonvacuous : soh_servermap ex_doc = Some 5%Z.
Proof. vm_compute. reflexivity. Qed.

Example ex_doc_wf_nonvacuous : nodupN (map fst ex_doc) = true /\ forallb (fun e => nodupN (snd e)) ex_doc = true.
Proof. vm_compute. split; reflexivity. Qed.

(* A relation where the first choice must be re-routed along an alternating path. *)
Example ex_reroute_nonvacuous :
  soh_servermap [(1, [1; 2]); (2, [1]); (3, [2; 3])] = Some 3%Z /\
  soh_certified [(1, [1; 2]); (2, [1]); (3, [2; 3])] = true.
Proof. vm_compute. split; reflexivity. Qed.

(* Every servermap over 3 servers and 3 shares (512 relations) returns a number and its
   certificate is accepted. *)
Example ex_all_3x3_certified_nonvacuous :
  forallb soh_certified (all_servermaps [1; 2; 3] [1; 2; 3]) = true /\
  length (all_servermaps [1; 2; 3] [1; 2; 3]) = 512%nat.
Proof. vm_compute. split; reflexivity. Qed.

Example ex_order_nonvacuous :
  servers_of_happiness [(0, [7; 8]); (1, [7])] = Some 2%Z /\
  servers_of_happiness [(1, [7]); (0, [8; 7])] = Some 2%Z.
Proof. vm_compute. split; reflexivity. Qed.
