(* C18  Read-only directory access is transitive.
   Statements only; proofs in Proofs/DirnodeCaps.v, Proofs/DirnodePack.v, Proofs/DirnodeTree.v.
   Model/Dirnode.v: _pack_normalized_children, _unpack_contents with the `writeable` flag,
   _encrypt_rw_uri/_decrypt_rwcapdata (salt and key derivations from Gen/Hashutil.v, AES abstract),
   NodeMaker.create_from_cap(rw, ro), UnknownNode; section 8: list() and get_child_at_path over a grid.
   caps_coherent classify (Proofs/DirnodeCaps.v): what this property needs from uri.py -- a write cap
   prints canonically (no trailing space, no alleged prefix), and so does its read cap, which
   classifies as a read cap.  stableb / ro_slot_okb: Model/Dirnode.v section 10.
   Scope: directories written by the packer.  A directory whose bytes were crafted by hand with a write
   cap in a read-cap field hands that write cap to every reader: the field is stored in clear, the
   writer published it (ex_crafted_ro_slot below).  Cryptographic strength of AES/SHA-256 is not claimed:
   the theorems say which function of which inputs the bytes are. *)
From Coq Require Import List NArith Bool String.
From Verif Require Import Lib.Hex Lib.Netstring Lib.HashPrim Gen.Hashutil Model.Dirnode
     Proofs.DirnodeBase Proofs.DirnodeCaps Proofs.DirnodePack Proofs.DirnodeTree.
Import ListNotations.
Local Open Scope N_scope.

(* unpacking, through a read-only dirnode, the bytes packed for the directory m: every child of m is
   there under its name with its metadata, rebuilt from its read-cap field alone (reread_ro), without
   error, and with rw_uri = None -- for any writekey argument wk' (a reader has none) *)
Theorem ro_unpack_has_no_rw :
  forall (classify : bytes -> capclass) (normalize : bytes -> bytes) (MD : Type)
         (dumps : MD -> bytes) (loads : bytes -> option MD) (enc dec : bytes -> bytes -> bytes),
    (forall m, loads (dumps m) = Some m) ->
    forall (wk wk' : bytes) (m : smap (node * MD)),
      caps_coherent classify ->
      sm_sorted m = true -> names_normal normalize MD m ->
      all_nodes MD (stableb classify) m -> all_nodes MD (ro_slot_okb classify) m ->
      exists data,
        pack_normalized MD dumps enc (fresh MD m) (Some wk) false = inr data /\
        unpack_contents classify normalize MD loads dec false true wk' data
        = inr (with_aux MD dumps enc (reread_ro classify) (Some wk) false m) /\
        forall k n md, In (k, (n, md)) m ->
                       n_err (reread_ro classify n) = None /\ n_rw (reread_ro classify n) = None.
Proof. exact ro_unpack_map. Qed.
Print Assumptions ro_unpack_has_no_rw.

(* the child-level fact behind it *)
Theorem ro_child_has_no_rw :
  forall (classify : bytes -> capclass) (n : node),
    caps_coherent classify -> stableb classify n = true -> ro_slot_okb classify n = true ->
    n_err (reread_ro classify n) = None /\ n_rw (reread_ro classify n) = None.
Proof. exact reread_ro_readonly. Qed.
Print Assumptions ro_child_has_no_rw.

(* whatever an immutable directory holds, none of its children comes out write-capable *)
Theorem immutable_dir_children_readonly :
  forall (classify : bytes -> capclass) (normalize : bytes -> bytes) (MD : Type)
         (loads : bytes -> option MD) (dec : bytes -> bytes -> bytes)
         (w : bool) (wk data : bytes) (children : smap (child MD)),
    unpack_contents classify normalize MD loads dec w false wk data = inr children ->
    forall k c, In (k, c) children -> n_rw (c_node MD c) = None.
Proof. exact immutable_dir_children_no_rw. Qed.
Print Assumptions immutable_dir_children_readonly.

(* induction on the path: starting from a node without write cap, every descendant reached by
   get_child_at_path has no write cap.  grid_ok: every mutable directory on the grid holds the packing
   of stable children outside the excluded class; immutable directories may hold any bytes *)
Theorem descendants_readonly :
  forall (classify : bytes -> capclass) (normalize : bytes -> bytes) (MD : Type)
         (dumps : MD -> bytes) (loads : bytes -> option MD) (enc dec : bytes -> bytes -> bytes),
    (forall m, loads (dumps m) = Some m) ->
    forall (contents : bytes -> option bytes) (writekey_of : bytes -> bytes),
      caps_coherent classify ->
      grid_ok classify normalize MD dumps enc contents ->
      forall (path : list bytes) (n n' : node),
        has_rw n = false ->
        walk classify normalize MD loads dec contents writekey_of n path = Some n' ->
        has_rw n' = false.
Proof. exact walk_readonly. Qed.
Print Assumptions descendants_readonly.

(* the packed bytes, spelled out: names, read-cap fields and metadata in clear; a child's write cap
   enters only as  salt ++ E_key(rwcap) ++ MAC  with  salt = H(rwcap), key = H(salt, writekey of the
   DIRECTORY) -- hashutil.mutable_rwcap_salt_hash / mutable_rwcap_key_hash as regenerated from the source *)
Theorem rwcap_field_depends_on_writekey :
  forall (MD : Type) (dumps : MD -> bytes) (enc : bytes -> bytes -> bytes) (wk : bytes) (m : smap (node * MD)),
    all_nodes MD no_err m ->
    pack_normalized MD dumps enc (fresh MD m) (Some wk) false
    = inr (concat_ns (map (fun kc =>
             netstring (fst kc)
             ++ netstring (stored_ro false (fst (snd kc)))
             ++ netstring (let rw := or_empty (n_rw (fst (snd kc))) in
                           let salt := mutable_rwcap_salt_hash rw in
                           let key := mutable_rwcap_key_hash salt wk in
                           salt ++ enc key rw ++ hmac key (salt ++ enc key rw))
             ++ netstring (dumps (snd (snd kc)))) m)).
Proof. exact packed_form. Qed.
Print Assumptions rwcap_field_depends_on_writekey.

(* the reader of a read-only directory is a function that never receives the writekey ... *)
Theorem ro_reader_never_uses_writekey :
  forall (classify : bytes -> capclass) (normalize : bytes -> bytes) (MD : Type)
         (loads : bytes -> option MD) (dec : bytes -> bytes -> bytes) (mu : bool) (wk1 wk2 data : bytes),
    unpack_contents classify normalize MD loads dec false mu wk1 data
    = unpack_contents classify normalize MD loads dec false mu wk2 data.
Proof. exact ro_reader_ignores_writekey. Qed.
Print Assumptions ro_reader_never_uses_writekey.

(* ... and what it returns is a function (ro_view_of) of the clear fields (ro_proj: name, read-cap field,
   metadata) alone: two directories that differ only in their children's write caps and in their own
   writekeys look the same to a read-cap holder *)
Theorem ro_view_independent_of_write_caps :
  forall (classify : bytes -> capclass) (normalize : bytes -> bytes) (MD : Type)
         (dumps : MD -> bytes) (loads : bytes -> option MD) (enc dec : bytes -> bytes -> bytes),
    (forall m, loads (dumps m) = Some m) ->
    forall (wk1 wk2 wk1' wk2' : bytes) (m1 m2 : smap (node * MD)),
      all_nodes MD no_err m1 -> all_nodes MD no_err m2 -> ro_proj MD m1 = ro_proj MD m2 ->
      exists d1 d2 c1 c2,
        pack_normalized MD dumps enc (fresh MD m1) (Some wk1) false = inr d1 /\
        pack_normalized MD dumps enc (fresh MD m2) (Some wk2) false = inr d2 /\
        unpack_contents classify normalize MD loads dec false true wk1' d1 = inr c1 /\
        unpack_contents classify normalize MD loads dec false true wk2' d2 = inr c2 /\
        view MD c1 = view MD c2.
Proof. exact Proofs.DirnodePack.ro_view_independent_of_write_caps. Qed.
Print Assumptions ro_view_independent_of_write_caps.

(* only a holder of the directory's writekey recovers the children's write caps: with it, the write
   cap field decrypts to the write cap *)
Theorem writekey_recovers_rwcap :
  forall (enc dec : bytes -> bytes -> bytes),
    (forall k d, dec k (enc k d) = d) ->
    forall wk rw, decrypt_rwcapdata dec wk (encrypt_rw_uri enc wk rw) = rw.
Proof. exact decrypt_encrypt. Qed.
Print Assumptions writekey_recovers_rwcap.

(* ---- the excluded class is real (known finding c18-unknown-rw-with-known-writecap-in-ro-slot) ----
   A child given as (rw = unknown future cap, ro = a KNOWN WRITE cap without prefix) is accepted by
   UnknownNode (stable, no error); the packer stores the write cap in clear in the read-cap field, and a
   read-only reader of the directory obtains a write-capable node for it. *)
Definition ex_W : bytes := bytes_of_string "URI:SSK:w".
Definition ex_R : bytes := bytes_of_string "URI:SSK-RO:r".
Definition ex_cls := classify_tbl [(ex_W, KWrite false ex_W ex_R); (ex_R, KRead false ex_R)].

Theorem ro_unpack_has_no_rw_refuted :
  exists n, n = create_from_cap ex_cls false (Some (bytes_of_string "future:w")) (Some ex_W) /\
            stableb ex_cls n = true /\ n_err n = None /\
            ro_slot_okb ex_cls n = false /\
            n_rw (reread_ro ex_cls n) = Some ex_W.
Proof. eexists. split; [reflexivity|]. vm_compute. repeat split; reflexivity. Qed.
Print Assumptions ro_unpack_has_no_rw_refuted.

(* ---- non-vacuity ---- *)
Example ex_coherent_nonvacuous : caps_coherent ex_cls.
Proof.
  intros s d c r H. unfold ex_cls, classify_tbl in H. cbn [assoc_bytes] in H.
  destruct (list_N_eqb s ex_W) eqn:E1.
  - inversion H; subst. repeat split; vm_compute; reflexivity.
  - destruct (list_N_eqb s ex_R); discriminate.
Qed.

Example ex_children_nonvacuous :
  forallb (fun n => stableb ex_cls n && ro_slot_okb ex_cls n)
          [create_from_cap ex_cls false (Some ex_W) None;
           create_from_cap ex_cls false None (Some ex_R);
           create_from_cap ex_cls false (Some (bytes_of_string "future:w")) (Some (bytes_of_string "future:r"));
           create_from_cap ex_cls false None (Some (bytes_of_string "ro.future:r"))] = true.
Proof. vm_compute. reflexivity. Qed.

(* a two-level tree on a toy grid, listed through the read cap: the grandchild (stored with its write
   cap under the subdirectory's writekey) is reached without write cap *)
Definition ex_id (x : bytes) := x.
Definition ex_wk (w : bytes) : bytes := bytes_of_string "0123456789abcdef".
Definition ex_Wd : bytes := bytes_of_string "URI:DIR2:w".
Definition ex_Rd : bytes := bytes_of_string "URI:DIR2-RO:r".
Definition ex_cls2 := classify_tbl [(ex_W, KWrite false ex_W ex_R); (ex_R, KRead false ex_R);
                                    (ex_Wd, KWrite true ex_Wd ex_Rd); (ex_Rd, KRead true ex_Rd)].
Definition ex_sub_data : bytes :=
  match pack_normalized bytes dumps_raw (fun _ d => d)
          (fresh bytes [(bytes_of_string "f", (create_from_cap ex_cls2 false (Some ex_W) None, bytes_of_string "{}"))])
          (Some (ex_wk ex_Wd)) false with inr d => d | inl _ => [] end.
Definition ex_grid (r : bytes) : option bytes := if list_N_eqb r ex_Rd then Some ex_sub_data else None.

Example ex_walk_nonvacuous :
  match walk ex_cls2 ex_id bytes loads_raw (fun _ d => d) ex_grid ex_wk
             (create_from_cap ex_cls2 false None (Some ex_Rd)) [bytes_of_string "f"] with
  | Some n' => obeqb (n_rw n') None && obeqb (n_ro n') (Some ex_R)
  | None => false
  end = true
  /\
  match walk ex_cls2 ex_id bytes loads_raw (fun _ d => d) ex_grid ex_wk
             (create_from_cap ex_cls2 false (Some ex_Wd) None) [bytes_of_string "f"] with
  | Some n' => obeqb (n_rw n') (Some ex_W)
  | None => false
  end = true.
Proof. vm_compute. split; reflexivity. Qed.

(* hand-crafted bytes with a write cap in the read-cap field: outside the theorems' scope *)
Example ex_crafted_ro_slot :
  match unpack_contents ex_cls ex_id bytes loads_raw (fun _ d => d) false true []
          (netstring (netstring (bytes_of_string "x") ++ netstring ex_W ++ netstring [] ++ netstring (bytes_of_string "{}"))) with
  | inr [(_, (n, _, _))] => obeqb (n_rw n) (Some ex_W)
  | _ => false
  end = true.
Proof. vm_compute. reflexivity. Qed.
