(* C29  Share containers survive a server crash.

   Statements only; each is closed by `exact` of a lemma in Proofs/Crash*.v.
   Model/Crash.v gives, for every storage operation `o` in file-system state `s`,
   the list `ops_of o s` of low-level file calls the code issues (creat, pwrite,
   ftruncate, rename, unlink), in the real order; `plain_ops` drops the window
   flags.  A crash at system-call granularity leaves `run_p pre s` for a prefix
   `pre` of that list (`crash_prefixes` = all of them); `recover` is the restart
   (StorageServer.__init__ -> _clean_incomplete); `view_of`/`data_of` are what
   get_buckets+read / slot_readv / get_leases show of a stored file.
   harness/props/c29.py checks the call lists and the post-crash states against
   the real code for every crash point of seeded workloads.

   Granularity (see META of the driver): one write()/truncate()/rename()/unlink()
   is atomic; completed calls survive (process kill). *)
From Coq Require Import String.
From Coq Require Import List NArith Bool.
From Verif Require Import Lib.Hex Lib.FileSys Model.Crash
  Proofs.CrashBytes Proofs.CrashImm Proofs.CrashMut Proofs.Crash Proofs.CrashUpload Proofs.CrashWitness.
Import ListNotations.
Local Open Scope N_scope.

(* ---- 1. every share not being written keeps its data and leases ----------
   For every operation, every state, every crash point: a path the operation
   does not name (`touched`: for allocate_buckets/add_lease/renew_lease the
   shares of that storage index, for write/close/abort the one share, for
   slot_testv_and_readv_and_writev the shares in the write vector) holds
   exactly the bytes it held, before and after the restart. *)
Theorem other_shares_untouched :
  forall (o : sop) (s : state) (pre : list pop) (p : path),
    In pre (crash_prefixes (plain_ops o s)) ->
    ~ In p (touched o) ->
    run_p pre s p = s p /\
    (is_incoming p = false -> recover (run_p pre s) p = s p).
Proof. exact other_shares_untouched_proof. Qed.
Print Assumptions other_shares_untouched.

(* ---- 2. an operation that only adds or renews leases never changes any
        share's data -------------------------------------------------------
   FULL STATEMENT (refuted by the faithful model, see
   lease_ops_preserve_data_refuted below):
     forall o s k, lease_only o = true -> recs_ok o -> Inv s ->
       forall si sh, data_of (recover (run_p (map fst (firstn k (ops_of o s))) s) (Final si sh))
                     = data_of (s (Final si sh)).
   PROVED: the same for every crash point k that does not fall between the two
   writes of the immutable ShareFile.add_lease (`in_window`: the last completed
   call is the lease-record append, the lease-count update has not happened).
   `lease_only`: add_lease, renew_lease, and allocate_buckets (which adds/renews
   leases on the existing shares and starts uploads under incoming/).
   `Inv s`: every stored share file is a well-formed container; `recs_ok`: the
   lease records have the serialised size (72 / 92 bytes).  The own share of the
   operation is included (si, sh are arbitrary). *)
Theorem lease_ops_preserve_data :
  forall (o : sop) (s : state) (k : nat),
    lease_only o = true -> recs_ok o -> Inv s ->
    in_window (firstn k (ops_of o s)) = false ->
    forall si sh,
      data_of (recover (run_p (map fst (firstn k (ops_of o s))) s) (Final si sh))
      = data_of (s (Final si sh)).
Proof. exact lease_ops_preserve_data_proof. Qed.
Print Assumptions lease_ops_preserve_data.

(* the excluded crash point violates the statement: StorageServer.add_lease on
   a 5-byte share with one lease, crash after the first of its two writes *)
Theorem lease_ops_preserve_data_refuted :
  exists o s k si sh,
    lease_only o = true /\ recs_ok o /\ Inv s /\
    in_window (firstn k (ops_of o s)) = true /\
    data_of (recover (run_p (map fst (firstn k (ops_of o s))) s) (Final si sh))
    <> data_of (s (Final si sh)).
Proof. exact lease_ops_preserve_data_refuted_proof. Qed.
Print Assumptions lease_ops_preserve_data_refuted.

(* ... and it does so for EVERY well-formed immutable share and every lease:
   after the record append alone the data region is 72 bytes longer *)
Theorem add_lease_window_always_extends_data :
  forall (f : file) (rec : list N),
    imm_wf f = true -> length rec = 72%nat ->
    length (imm_data (write_at f (imm_lease_offset f + 72 * imm_count f) rec))
    = (length (imm_data f) + 72)%nat.
Proof. exact imm_add_window. Qed.
Print Assumptions add_lease_window_always_extends_data.

(* swapping the two writes is no repair: after the count update alone the data
   region is 72 bytes SHORTER (share data is cut off and read as a lease) *)
Theorem add_lease_count_first_truncates_data :
  forall (f : file),
    imm_wf f = true -> imm_count f + 1 < 2 ^ 32 -> (72 <= length (imm_data f))%nat ->
    (length (imm_data (write_at f 8 (enc 4 (imm_count f + 1)))) + 72 = length (imm_data f))%nat.
Proof. exact imm_add_count_first_window. Qed.
Print Assumptions add_lease_count_first_truncates_data.

(* a completed lease-only operation leaves every share well-formed *)
Theorem lease_ops_preserve_wellformedness :
  forall (o : sop) (s : state),
    lease_only o = true -> recs_ok o -> Inv s -> Inv (run_p (plain_ops o s) s).
Proof. exact lease_ops_preserve_inv. Qed.
Print Assumptions lease_ops_preserve_wellformedness.

(* ---- 3. an immutable share is either absent or complete -------------------
   One upload of a new share = allocate_buckets, any writes, close (close does
   not require completeness).  Crash anywhere, restart: get_buckets does not
   list the share, or the share file is the incoming file as it was when
   close() renamed it ... *)
Theorem immutable_absent_or_complete :
  forall (si sh size : N) (rec : list N) (writes : list (N * list N)) (s : state) (pre : list pop),
    s (Final si sh) = None ->
    In pre (crash_prefixes (upload_ops si sh size rec writes)) ->
    let s' := recover (run_p pre s) in
    s' (Final si sh) = None \/ s' (Final si sh) = Some (file_at_close size rec writes).
Proof. exact upload_absent_or_complete_proof. Qed.
Print Assumptions immutable_absent_or_complete.

(* ... which is a well-formed share holding everything the uploader wrote
   before close (ranges never written read as zeros) and the upload's lease *)
Theorem file_at_close_is_complete :
  forall (size : N) (rec : list N) (writes : list (N * list N)),
    length rec = 72%nat ->
    view_of (Some (file_at_close size rec writes)) = VImm (written_data size writes) [rec].
Proof. exact file_at_close_complete_proof. Qed.
Print Assumptions file_at_close_is_complete.

(* `upload_ops` is the call list of the server operations allocate, write*, close *)
Theorem upload_ops_are_server_operations :
  forall (si sh size : N) (rec : list N) (writes : list (N * list N)) (s : state),
    s (Final si sh) = None -> s (Incoming si sh) = None ->
    sops_ops (upload_sops si sh size rec writes) s = upload_ops si sh size rec writes.
Proof. exact upload_ops_are_the_server_operations. Qed.
Print Assumptions upload_ops_are_server_operations.

(* The same upload over the HTTP storage protocol (HTTPServer.write_share_data):
   there is no explicit close; the bucket is closed by the write for which
   BucketWriter.write() reports the upload finished, i.e. (`covered`) the union
   of the DISTINCT byte ranges written so far is the whole share -- a chunk sent
   twice counts once.  Crash anywhere, restart: the share is absent, or it is
   served with the data of writes whose ranges cover every byte. *)
Theorem http_upload_absent_or_byte_complete :
  forall (si sh size : N) (rec : list N) (writes : list (N * list N)) (s : state) (pre : list pop),
    s (Final si sh) = None -> length rec = 72%nat ->
    In pre (crash_prefixes (http_upload_ops si sh size rec writes)) ->
    let s' := recover (run_p pre s) in
    s' (Final si sh) = None \/
    exists m, covered size (write_ranges size (firstn m writes)) = true /\
              s' (Final si sh) = Some (file_at_close size rec (firstn m writes)) /\
              view_of (s' (Final si sh)) = VImm (written_data size (firstn m writes)) [rec].
Proof. exact http_upload_absent_or_byte_complete_proof. Qed.
Print Assumptions http_upload_absent_or_byte_complete.

Theorem covered_means_every_byte_written :
  forall (size : N) (ranges : list (N * N)),
    covered size ranges = true <->
    forall i, i < size -> exists r, In r ranges /\ fst r <= i /\ i < fst r + snd r.
Proof. exact covered_spec. Qed.
Print Assumptions covered_means_every_byte_written.

Theorem http_upload_ops_are_server_operations :
  forall (si sh size : N) (rec : list N) (writes : list (N * list N)) (s : state),
    s (Final si sh) = None -> s (Incoming si sh) = None ->
    sops_ops (ImmAllocate si [] [sh] size rec true :: http_sops si sh size [] writes) s
    = http_upload_ops si sh size rec writes.
Proof. exact http_upload_ops_are_the_server_operations. Qed.
Print Assumptions http_upload_ops_are_server_operations.

(* ---- 4. uploads still in progress are discarded at restart ---------------- *)
Theorem incoming_discarded :
  forall (s : state) (si sh : N), recover s (Incoming si sh) = None.
Proof. exact incoming_discarded_proof. Qed.
Print Assumptions incoming_discarded.

(* a crash inside the cleanup itself, followed by another restart, ends in the
   same state as an undisturbed restart *)
Theorem restart_cleanup_is_crash_safe :
  forall (s : state) (l : list path) (k : nat) (p : path),
    (forall q, In q l -> is_incoming q = true) ->
    recover (run_p (firstn k (map Unlink l)) s) p = recover s p.
Proof. exact recover_after_partial_cleanup. Qed.
Print Assumptions restart_cleanup_is_crash_safe.

(* ---- the share being written by a mutable operation (excluded by the
        property; what the model says about it) ------------------------------
   Container growth with more than four leases (_change_container_size, "An
   interrupt here will corrupt the leases"): a 10-byte share with six leases, a
   write at offset 30.  After call 1 and 2 of 6 the two extra leases are gone,
   from call 3 on they are back; the data is the old data up to call 4; after
   call 5 (new data length written, new bytes not yet) it is neither the old
   nor the new data. *)
Theorem mutable_growth_window :
  map (fun k => lease_count (mut_view_after mw_grow k)) (seq 0 7)
  = [Some 6; Some 4; Some 4; Some 6; Some 6; Some 6; Some 6]%nat /\
  (forall k, (k <= 4)%nat -> data_of (Some (match mw_state (Final 2 0) with Some f => f | None => [] end))
                           = match mut_view_after mw_grow k with VMut d _ => Some d | _ => None end) /\
  mut_view_after mw_grow 5 <> mut_view_after mw_grow 0 /\
  mut_view_after mw_grow 5 <> mut_view_after mw_grow 6.
Proof. exact mutable_growth_window_proof. Qed.
Print Assumptions mutable_growth_window.

(* A lease that needs a new extra slot on a mutable share (_write_lease_record
   writes the count first, then the record): between the two writes the lease
   list of that share cannot be read at all; its data is unaffected (as
   lease_ops_preserve_data says). *)
Theorem mutable_add_lease_window :
  map (fun k => lease_count (mut_view_after mw_add7 k)) (seq 0 3) = [Some 6; None; Some 7]%nat /\
  forall k, data_of (recover (run_p (firstn k (plain_ops mw_add7 mw_state)) mw_state) (Final 2 0))
            = data_of (mw_state (Final 2 0)).
Proof. exact mutable_add_lease_window_proof. Qed.
Print Assumptions mutable_add_lease_window.

(* ---- the hypotheses are satisfiable, the conclusions are not trivial ------ *)
Example ex_inv_nonvacuous : Inv wit_state.
Proof. exact wit_inv. Qed.

(* the witness operation has exactly two calls; prefixes 0 and 2 satisfy the
   hypothesis of lease_ops_preserve_data, prefix 1 is the window *)
Example ex_window_points_nonvacuous :
  map (fun k => in_window (firstn k (ops_of wit_op wit_state))) [0; 1; 2]%nat = [false; true; false]
  /\ lease_only wit_op = true /\ length (ops_of wit_op wit_state) = 2%nat.
Proof. exact wit_window_points. Qed.

Example ex_witness_states :
  view_of (wit_state (Final 0 0)) = VImm (unhex "68656c6c6f"%string) [wit_rec0] /\
  view_of (recover (run_p (firstn 1 (plain_ops wit_op wit_state)) wit_state) (Final 0 0))
  = VImm (unhex "68656c6c6f"%string ++ wit_rec0) [wit_rec1] /\
  view_of (recover (run_p (firstn 2 (plain_ops wit_op wit_state)) wit_state) (Final 0 0))
  = VImm (unhex "68656c6c6f"%string) [wit_rec0; wit_rec1].
Proof. exact wit_window_state. Qed.

(* an upload whose close completed is present, one cut before the rename is absent *)
Example ex_upload_nonvacuous :
  let ops := upload_ops 0 0 5 wit_rec0 [(0, unhex "68656c6c6f"%string)] in
  length ops = 6%nat /\
  view_of (recover (run_p ops empty_fs) (Final 0 0)) = VImm (unhex "68656c6c6f"%string) [wit_rec0] /\
  view_of (recover (run_p (firstn 5 ops) empty_fs) (Final 0 0)) = VAbsent /\
  run_p (firstn 5 ops) empty_fs (Incoming 0 0) <> None /\
  recover (run_p (firstn 5 ops) empty_fs) (Incoming 0 0) = None.
Proof. exact wit_upload. Qed.

(* a three-chunk share sent as chunk 0, chunk 0 again, chunk 1: three accepted
   writes, nine bytes in total for a nine-byte share, but the union is six bytes:
   not finished, nothing renamed, nothing visible after a restart; with chunk 2
   the last write renames the share into place *)
Example ex_http_resent_chunk_nonvacuous :
  let c0 := (0, [1; 2; 3]) in let c1 := (3, [4; 5; 6]) in let c2 := (6, [7; 8; 9]) in
  covered 9 (write_ranges 9 [c0; c0; c1]) = false /\
  view_of (recover (run_p (http_upload_ops 0 0 9 wit_rec0 [c0; c0; c1]) empty_fs) (Final 0 0)) = VAbsent /\
  covered 9 (write_ranges 9 [c0; c0; c1; c2]) = true /\
  view_of (recover (run_p (http_upload_ops 0 0 9 wit_rec0 [c0; c0; c1; c2]) empty_fs) (Final 0 0))
  = VImm [1; 2; 3; 4; 5; 6; 7; 8; 9] [wit_rec0].
Proof. exact wit_http_resent. Qed.

(* close() whose rename into the final place fails (incoming/ on another file
   system, EXDEV): fileutil.rename gives up, no file call follows; the upload
   stays under incoming/ and is discarded by the restart *)
Example ex_failed_close_writes_nothing :
  forall si sh s, plain_ops (ImmCloseFailed si sh) s = [] /\ touched (ImmCloseFailed si sh) = [].
Proof. intros. split; reflexivity. Qed.

(* other_shares_untouched: the witness operation names share 0/0 only *)
Example ex_touched_nonvacuous :
  touched wit_op = [Final 0 0] /\ ~ In (Final 0 1) (touched wit_op).
Proof. split; [reflexivity|]. simpl. intros [H|[]]. discriminate H. Qed.
