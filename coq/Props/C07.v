(* C07  Share placement is complete, respects read-only servers, maximizes spread.
   Statements only; proofs in Proofs/Placement*.v (and Proofs/Matching*.v for the flow
   algorithm shared with C08).  Model: Model/Placement.v = happiness_upload.share_placement
   and helpers, after the two fixes recorded for C07 in known_findings.jsonl.

   Quantification: every theorem holds for ALL iteration orders `os` (the order in
   which CPython would iterate each set the code loops over) and all inputs; `res` is
   any result the model returns (None = Python would raise / fuel exhausted / `os` is
   not a permutation of the set it orders).  All three clauses are proved at full
   strength for the model:
     placement_total          every share number is assigned
     readonly_only_existing   a read-only server gets only shares it holds; every
                              share goes to a listed server
     placement_maximal        the number of distinct servers used is the size of a
                              maximum matching of the graph (writable server -- every
                              share, read-only server -- shares it holds)
   wf_full states the precondition of the property: writable and read-only servers
   disjoint, at least one writable server, existing shares reported only for listed
   servers and only among the share numbers being placed, no repeated dict key / set
   element.  Not proved: that the model returns a result for every wf input and every
   admissible `os` (no KeyError/IndexError path, fuel suffices inside share_placement);
   the correspondence run finds model = implementation, hence a result, on every case.
   The boolean validator of placements (placement_validator_sound) is kept as an
   independent cross-check evaluated by Coq on every correspondence case. *)
From Coq Require Import List NArith ZArith Bool.
From Verif Require Import Model.Matching Model.Placement Proofs.Matching Proofs.Placement
     Proofs.PlacementStruct Proofs.PlacementReadonly Proofs.PlacementMax.
Import ListNotations.
Local Open Scope N_scope.

(* The graph of the optimality clause is what the property says: a writable server
   may receive any share, a read-only server only a share it already holds. *)
Theorem allowed_graph_is_the_constraint :
  forall peers readonly shares p2s p s,
    edge (allowed peers readonly shares p2s) p s <->
    (In p peers /\ In s shares) \/ (In p readonly /\ In s shares /\ holds p2s p s).
Proof. exact allowed_edge. Qed.
Print Assumptions allowed_graph_is_the_constraint.

Theorem placement_validator_sound :
  forall peers readonly shares p2s res CL CR,
    placement_valid peers readonly shares p2s res CL CR = true ->
    total_spec shares res /\ readonly_spec readonly p2s res /\ known_spec peers readonly res /\
    maximal_spec peers readonly shares p2s res.
Proof. exact placement_valid_sound. Qed.
Print Assumptions placement_validator_sound.

(* clause 1 *)
Theorem placement_total :
  forall os peers readonly shares p2s res,
    NoDup shares -> peers <> [] ->
    share_placement os peers readonly shares p2s = Some res ->
    total_spec shares res.
Proof. exact placement_total_full. Qed.
Print Assumptions placement_total.

(* clause 2.  wf_input: writable and read-only servers are disjoint and existing shares
   are reported only for listed servers. *)
Theorem readonly_only_existing :
  forall os peers readonly shares p2s res,
    wf_input peers readonly p2s ->
    share_placement os peers readonly shares p2s = Some res ->
    readonly_spec readonly p2s res /\ known_spec peers readonly res.
Proof. exact readonly_only_existing_full. Qed.
Print Assumptions readonly_only_existing.

(* clause 3 *)
Theorem placement_maximal :
  forall os peers readonly shares p2s res,
    wf_full peers readonly shares p2s ->
    share_placement os peers readonly shares p2s = Some res ->
    maximal_spec peers readonly shares p2s res.
Proof. exact placement_maximal_full. Qed.
Print Assumptions placement_maximal.

(* the validator route (kept as a cross-check): accepted certificate => the three clauses *)
Theorem placement_certified_sound :
  forall os peers readonly shares p2s res,
    placement_certified os peers readonly shares p2s = true ->
    share_placement os peers readonly shares p2s = Some res ->
    total_spec shares res /\ readonly_spec readonly p2s res /\ known_spec peers readonly res /\
    maximal_spec peers readonly shares p2s res.
Proof. exact placement_of_certified. Qed.
Print Assumptions placement_certified_sound.

(* the number of distinct servers of a placement is well defined *)
Theorem distinct_servers_functional :
  forall res n m, distinct_servers res n -> distinct_servers res m -> n = m.
Proof. exact distinct_servers_unique. Qed.
Print Assumptions distinct_servers_functional.

(* ---- non-vacuity (iteration orders: everything sorted) ------------------------ *)
(* the precondition is decidable; wf_full_b is also what the harness evaluates per case *)
Theorem wf_full_decidable :
  forall peers readonly shares p2s, wf_full_b peers readonly shares p2s = true -> wf_full peers readonly shares p2s.
Proof. exact wf_full_b_sound. Qed.
Print Assumptions wf_full_decidable.

Example ex_wf_full_nonvacuous : wf_full_b [1; 2] [0] [0; 1; 2] [(0, [0]); (1, [1; 2]); (2, [0])] = true.
Proof. vm_compute. reflexivity. Qed.

(* DESIGN section 9 (b): read-only s0 {0}, writable s1 {1,2}, s2 {0}: three servers. *)
Example ex_three_servers_nonvacuous :
  share_placement sorted_orders [1; 2] [0] [0; 1; 2] [(0, [0]); (1, [1; 2]); (2, [0])]
    = Some [(0, 0); (1, 1); (2, 2)] /\
  placement_certified sorted_orders [1; 2] [0] [0; 1; 2] [(0, [0]); (1, [1; 2]); (2, [0])] = true.
Proof. vm_compute. split; reflexivity. Qed.

(* DESIGN section 9 (a): read-only server 0 holds nothing and must not get share 0. *)
Example ex_readonly_nonvacuous :
  share_placement sorted_orders [2] [0; 1] [0] [(1, [0])] = Some [(0, 1)] /\
  placement_certified sorted_orders [2] [0; 1] [0] [(1, [0])] = true.
Proof. vm_compute. split; reflexivity. Qed.

(* more shares than servers: homeless shares, priority queue and round-robin *)
Example ex_homeless_nonvacuous :
  share_placement sorted_orders [1; 2] [] [0; 1; 2; 3; 4] [(1, [0; 1])]
    = Some [(0, 1); (1, 2); (2, 1); (3, 1); (4, 1)] /\
  placement_certified sorted_orders [1; 2] [] [0; 1; 2; 3; 4] [(1, [0; 1])] = true.
Proof. vm_compute. split; reflexivity. Qed.

(* every existing-share relation over read-only 0, writable 1 and 2, shares 0..2 *)
Example ex_all_small_certified_nonvacuous :
  forallb (placement_certified sorted_orders [1; 2] [0] [0; 1; 2])
          (all_servermaps [0; 1; 2] [0; 1; 2]) = true.
Proof. vm_compute. reflexivity. Qed.
