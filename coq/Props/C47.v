(* C47  A successful mutable publish is recoverable.
   Model/Publish.v: the Publish bookkeeping that decides success (writers per share
   number, connection problems, write answers, the surprised flag, the final test in
   _push).  `answers` is the arbitrary sequence in which the servers' answers arrive. *)
From Coq Require Import List NArith Bool.
From Verif Require Import Model.Publish Proofs.Publish.
Import ListNotations.
Local Open Scope N_scope.

(* success => servers acknowledged (wrote = true) the new version's shares for at least
   k distinct share numbers, and "placed" contains only acknowledged writes *)
Theorem success_implies_k_acked :
  forall k ws answers, covered ws answers ->
    publish_outcome k ws answers = Success ->
    let final := handle_all (start ws) answers in
    k <= distinct_shnums (placed final) /\
    (forall w, In w (placed final) -> exists rd, In (w, Answered true rd) answers).
Proof. exact success_implies_k_acked_ok. Qed.
Print Assumptions success_implies_k_acked.

(* success => no unexpected version was met: no test vector failed, no surprise share *)
Theorem success_implies_not_surprised :
  forall k ws answers, publish_outcome k ws answers = Success ->
    surprised (handle_all (start ws) answers) = false /\
    (forall w rd, ~ In (w, Answered false rd) answers).
Proof. exact success_implies_not_surprised_ok. Qed.
Print Assumptions success_implies_not_surprised.

(* fewer than k share numbers whose write did not fail => an error, never success *)
Theorem fewer_than_k_is_error :
  forall k ws answers,
    distinct_shnums (filter (fun w => negb (has_conn_error answers w)) ws) < k ->
    publish_outcome k ws answers <> Success.
Proof. exact fewer_than_k_is_error_ok. Qed.
Print Assumptions fewer_than_k_is_error.

Theorem surprised_is_uncoordinated_write_error :
  forall k s, surprised s = true -> decide k s = UncoordinatedWrite.
Proof. exact surprised_is_ucwe_ok. Qed.
Print Assumptions surprised_is_uncoordinated_write_error.

(* non-vacuity: 3 share numbers on 3 servers, k = 2: one connection error still succeeds,
   a failed test vector gives UncoordinatedWrite, two errors give NotEnoughServers *)
Definition ex_ws := [ {| w_shnum := 0; w_server := 1 |}; {| w_shnum := 1; w_server := 2 |}; {| w_shnum := 2; w_server := 3 |} ].
Example ex_outcomes :
  publish_outcome 2 ex_ws [ ({| w_shnum := 0; w_server := 1 |}, Answered true []);
                            ({| w_shnum := 2; w_server := 3 |}, ConnError);
                            ({| w_shnum := 1; w_server := 2 |}, Answered true []) ] = Success /\
  publish_outcome 2 ex_ws [ ({| w_shnum := 0; w_server := 1 |}, Answered true []);
                            ({| w_shnum := 2; w_server := 3 |}, Answered false [{| r_shnum := 2; r_is_our_checkstring := false |}]);
                            ({| w_shnum := 1; w_server := 2 |}, Answered true []) ] = UncoordinatedWrite /\
  publish_outcome 2 ex_ws [ ({| w_shnum := 0; w_server := 1 |}, ConnError);
                            ({| w_shnum := 2; w_server := 3 |}, ConnError);
                            ({| w_shnum := 1; w_server := 2 |}, Answered true []) ] = NotEnoughServers /\
  covered ex_ws [ ({| w_shnum := 0; w_server := 1 |}, Answered true []);
                  ({| w_shnum := 2; w_server := 3 |}, ConnError);
                  ({| w_shnum := 1; w_server := 2 |}, Answered true []) ].
Proof.
  repeat split; try (vm_compute; reflexivity).
  intros w [H|[H|[H|[]]]]; subst; eexists; cbn; eauto.
Qed.

From Verif Require Import Gen.MutPins.
From Coq Require Import String.
(* Fingerprints (AST, comments and docstrings excluded) of the source functions this model
   transcribes by hand, regenerated from /repo on every run (harness/translate/mutpins.py):
   the model was written for exactly these versions of them. *)
Theorem model_pins_current :
  pins_C47 =
  [("publish_got_write_answer", "166be3157ed17053")%string;
   ("publish_connection_problem", "8866e12b1287c4fd")%string;
   ("publish_push", "e8d2c5fe4539fa11")%string;
   ("publish_failure", "b5ed585237faa250")%string].
Proof. reflexivity. Qed.
Print Assumptions model_pins_current.
