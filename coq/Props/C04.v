(* C04  Random-access and concurrent immutable reads.
   Statements only.  Model/SegQueue.v: the node's segment queue with n concurrent
   Segmentation readers; `ct` is the file (position-wise: the AES-CTR offset handling of
   DecryptingConsumer is C01's ctr_position), `segsize` the real segment size, `guess`
   the guessed one.  Delivered segments carry the file's bytes (integrity is C02). *)
From Coq Require Import List NArith Bool Arith.
From Verif Require Import Model.SegQueue Proofs.SegQueueBase Proofs.SegQueueRange Proofs.SegQueueLive Proofs.SegQueueThm.
Import ListNotations.

(* The read started by `SRead off sz` after any history evs1, at any later moment evs2
   -- any interleaving of other reads, pauses, resumes, stops, segment completions and
   failures, wrong segment-size guesses --: its consumer has received a prefix of
   file[off : off+sz] (Python slicing: clipped at EOF, nothing when off >= EOF, sz = None
   means to EOF) and, when the read has finished successfully, exactly that slice. *)
Theorem range_slice :
  forall (ct : list N) (segsize guess : N) (evs1 : list sev) (off : N) (sz : option N) (evs2 : list sev),
  let i := length (s_readers (fst (srun true ct segsize guess sinit evs1))) in
  let s := fst (srun true ct segsize guess sinit (evs1 ++ SRead off sz :: evs2)) in
  exists r, nth_error (s_readers s) i = Some r /\
    (exists n, concat (rd_written r) = firstn n (py_slice ct off sz)) /\
    (rd_result r = Some RDone -> concat (rd_written r) = py_slice ct off sz).
Proof. exact range_slice_ok. Qed.
Print Assumptions range_slice.

(* All readers at once, in every reachable state: each one's delivered bytes are the
   bytes of the file from its own start offset up to its own current offset, inside its
   own range; and no other reader's cancel / pause / read removes its outstanding
   request: that is still queued, or its delivery is, and has not been cancelled. *)
Theorem readers_independent :
  forall (ct : list N) (segsize guess : N) (evs : list sev),
  guarded ct segsize guess sinit evs ->
  let s := fst (srun true ct segsize guess sinit evs) in
  forall i r, nth_error (s_readers s) i = Some r ->
    (concat (rd_written r) = slice (N.to_nat (rd_off0 r)) (N.to_nat (rd_offset r - rd_off0 r)) ct /\
     (rd_off0 r <= rd_offset r)%N /\ (rd_offset r + rd_size r = rd_off0 r + rd_size0 r)%N /\
     (rd_result r = Some RDone -> rd_size r = 0%N)) /\
    (rd_result r = None ->
     (forall sg rid k, rd_active r = Some (sg, rid, k) ->
        ~ In rid (s_inactive s) /\ (In rid (map r_id (s_reqs s)) \/ In rid (map fst (s_deliveries s)))) /\
     (rd_hungry r = true -> rd_mfn r > 0 \/ rd_active r <> None)).
Proof. exact readers_independent_ok. Qed.
Print Assumptions readers_independent.

(* LiteralFileNode.read: data[offset:offset+size] / data[offset:] *)
Theorem literal_range :
  forall (data : list N) (offset : N) (size : option N),
  literal_read data offset size = slice (N.to_nat offset) (N.to_nat (read_clip (N.of_nat (length data)) offset size)) data /\
  N.of_nat (length (literal_read data offset size)) = read_clip (N.of_nat (length data)) offset size /\
  ((N.of_nat (length data) <= offset)%N -> literal_read data offset size = []).
Proof. exact literal_range_ok. Qed.
Print Assumptions literal_range.

(* two overlapping reads of an 8-byte file with 4-byte segments; the first is stopped by
   its consumer inside its first write, the second still gets bytes 2..5 *)
Example ex_two_readers :
  let s := fst (srun true [10; 11; 12; 13; 14; 15; 16; 17] 4 4 sinit
                     [SRead 1 (Some 6); SRead 2 (Some 4); SLearn; SBlocks true EOther; SDeliver StopInWrite; SDeliver Quiet;
                      SBlocks true EOther; SDeliver Quiet])%N in
  map (fun r => (concat (rd_written r), rd_result r)) (s_readers s)
  = [([11; 12; 13], Some RStopped); ([12; 13; 14; 15], Some RDone)]%N.
Proof. vm_compute. reflexivity. Qed.

Example ex_past_eof :
  py_slice [1; 2; 3]%N 5 (Some 2%N) = [] /\ py_slice [1; 2; 3]%N 1 None = [2; 3]%N /\ py_slice [1; 2; 3]%N 2 (Some 9%N) = [3]%N.
Proof. vm_compute. auto. Qed.
