(* C38  On-disk and wire encodings round-trip.
   "Base32, base62, netstrings, URI extension blocks, lease records and share
    headers decode back to exactly the values that were encoded.  Malformed
    encodings are rejected rather than silently read as a different value."

   Statements only; each is closed by `exact` of a lemma in Proofs/Codecs*.v.
   Models: Model/Base32.v, Base62.v, NetstringCodec.v, Ueb.v, PyInt.v, LeaseRec.v
   over Gen/CodecConsts.v and Gen/Structs.v (regenerated from /repo on every run).

   For every codec:  decode (encode x) = Some x  for all x in the codec's domain
   (stated as a boolean precondition), and the strict converse
   decode s = Some x -> encode x = s.  Where the faithful model of the code in
   /repo REFUTES the converse, the theorem carries the precondition that
   excludes the defect class (and a proof that the encoder's output satisfies
   it), and a `..._refuted` theorem exhibits accepted non-canonical inputs;
   the driver replays those on the implementation (known findings). *)
From Coq Require Import String.
From Coq Require Import List NArith ZArith Bool.
From Verif Require Import Lib.Hex Lib.Decimal Lib.DecimalFacts Lib.Netstring Lib.NetstringFacts Lib.Bytes
     Gen.CodecConsts Gen.Structs
     Model.PyResult Model.PyInt Model.NetstringCodec Model.Ueb Model.Base32 Model.Base62 Model.LeaseRec
     Proofs.CodecsPyInt Proofs.CodecsNetstring Proofs.CodecsUeb Proofs.CodecsBase32 Proofs.CodecsBase62
     Proofs.CodecsStruct Proofs.CodecsPins.
Import ListNotations.
Local Open Scope N_scope.

(* ====================================================================== *)
(* base32                                                                  *)

Theorem base32_decode_encode :
  forall os, bytes_ok os = true -> b32_a2b (b32_b2a os) = Some os.
Proof. exact b32_roundtrip. Qed.
Print Assumptions base32_decode_encode.

(* FALSE without the precondition on the current tree (next theorem but one):
   forall cs x, b32_a2b cs = Some x -> b32_b2a x = cs. *)
Theorem base32_accepts_only_canonical :
  (forall cs x, b32_a2b cs = Some x -> b32_trailing_zero cs = true -> b32_b2a x = cs) /\
  (forall os, b32_trailing_zero (b32_b2a os) = true).
Proof. exact (conj b32_converse_canonical b32_b2a_trailing_zero). Qed.
Print Assumptions base32_accepts_only_canonical.


Theorem base32_accepts_only_canonical_refuted :
  (exists cs x, b32_a2b cs = Some x /\ b32_b2a x <> cs) /\
  (forallb (fun cs => match b32_a2b cs with
                     | Some x => negb (list_N_eqb (b32_b2a x) cs) && negb (b32_trailing_zero cs)
                     | None => false
                     end) b32_noncanonical_witnesses = true).
Proof. exact (conj b32_converse_refuted b32_noncanonical_accepted). Qed.
Print Assumptions base32_accepts_only_canonical_refuted.


Example ex_base32 :
  b32_b2a (bytes_of_string "hello") = bytes_of_string "nbswy3dp" /\
  b32_a2b (bytes_of_string "nbswy3dp") = Some (bytes_of_string "hello") /\
  b32_a2b (bytes_of_string "nbswy3d") = None /\ b32_a2b (bytes_of_string "NBSWY3DP") = None.
Proof. vm_compute. repeat split. Qed.

(* ====================================================================== *)
(* base62                                                                  *)

Theorem base62_decode_encode :
  (forall os, bytes_ok os = true -> exists cs, b62_b2a os = Some cs /\ b62_a2b cs = Some os) /\
  (forall cs, exists x, b62_a2b cs = Some x).
Proof. exact (conj b62_roundtrip b62_a2b_total). Qed.
Print Assumptions base62_decode_encode.


(* FALSE without the precondition on the current tree:
   forall cs x, b62_a2b cs = Some x -> b62_b2a x = Some cs. *)
Theorem base62_accepts_only_canonical :
  (forall cs x, b62_a2b cs = Some x -> b62_canonical cs = true -> b62_b2a x = Some cs) /\
  (forall os cs, bytes_ok os = true -> b62_b2a os = Some cs -> b62_canonical cs = true).
Proof. exact (conj b62_converse_canonical b62_b2a_canonical). Qed.
Print Assumptions base62_accepts_only_canonical.


Theorem base62_accepts_only_canonical_refuted :
  (exists cs x, b62_a2b cs = Some x /\ b62_b2a x <> Some cs) /\
  (forallb b62_accepts_noncanonical
          (b62_witness_out_of_alphabet ++ b62_witness_overflow ++ b62_witness_length) = true).
Proof. exact (conj b62_converse_refuted b62_witnesses_accepted). Qed.
Print Assumptions base62_accepts_only_canonical_refuted.


Example ex_base62 :
  b62_b2a [255] = Some (bytes_of_string "47") /\ b62_a2b (bytes_of_string "47") = Some [255] /\
  b62_b2a [] = Some (bytes_of_string "0") /\ b62_a2b (bytes_of_string "0") = Some [].
Proof. vm_compute. repeat split. Qed.

(* ====================================================================== *)
(* netstrings                                                              *)

(* Part A (Lib/NetstringFacts.v): unique decomposition *)
Theorem netstring_unique_decomposition :
  forall l1 l2 x y,
    concat (map netstring l1) ++ x = concat (map netstring l2) ++ y ->
    length l1 = length l2 -> l1 = l2 /\ x = y.
Proof. exact netstrings_unique. Qed.
Print Assumptions netstring_unique_decomposition.

Theorem netstring_decode_encode :
  (forall l, split_netstring (concat (map netstring l)) (N.of_nat (length l)) 0 (Some []) =
            Ok (l, blen (concat (map netstring l)))) /\
  (forall l x, l <> [] ->
    split_netstring (concat (map netstring l) ++ x) (N.of_nat (length l)) 0 None =
    Ok (l, blen (concat (map netstring l)))).
Proof. exact (conj split_netstring_roundtrip split_netstring_roundtrip_prefix). Qed.
Print Assumptions netstring_decode_encode.


(* the strict reader (length numerals exactly as b"%d" prints them) *)
Theorem netstring_strict_reader :
  (forall data ns els p,
    split_netstring_strict data ns 0 (Some []) = Ok (els, p) ->
    concat (map netstring els) = data /\ p = blen data) /\
  (forall data ns pos t r, split_netstring_strict data ns pos t = Ok r -> split_netstring data ns pos t = Ok r) /\
  (forall l, split_netstring_strict (concat (map netstring l)) (N.of_nat (length l)) 0 (Some []) =
            Ok (l, blen (concat (map netstring l)))).
Proof. exact (conj split_netstring_strict_converse (conj split_netstring_strict_sound split_netstring_strict_roundtrip)). Qed.
Print Assumptions netstring_strict_reader.



(* FALSE without the precondition on the current tree:
   forall data ns els p, split_netstring data ns 0 (Some []) = Ok (els, p) -> concat (map netstring els) = data. *)
Theorem netstring_accepts_only_canonical :
  forall data ns els p,
    split_netstring data ns 0 (Some []) = Ok (els, p) ->
    is_ok (split_netstring_strict data ns 0 (Some [])) = true ->
    concat (map netstring els) = data /\ p = blen data.
Proof. exact split_netstring_converse_canonical. Qed.
Print Assumptions netstring_accepts_only_canonical.

Theorem netstring_accepts_only_canonical_refuted :
  (exists data els p, split_netstring data 1 0 (Some []) = Ok (els, p) /\ concat (map netstring els) <> data) /\
  (forallb (fun data =>
    match split_netstring data 1 0 (Some []) with
    | Ok (els, _) => negb (list_N_eqb (concat (map netstring els)) data)
    | Err _ => false
    end) noncanonical_numeral_witnesses = true).
Proof. exact (conj split_netstring_converse_refuted split_netstring_noncanonical_accepted). Qed.
Print Assumptions netstring_accepts_only_canonical_refuted.


Theorem parser_fuel_suffices :
  (forall rd data ns t, split_netstring_with rd data ns 0 t <> Err EFuel) /\
  (forall rdlen rdint keychk s, ueb_unpack_with rdlen rdint keychk s <> Err EFuel).
Proof. exact (conj split_netstring_fuel_suffices ueb_unpack_fuel_suffices). Qed.
Print Assumptions parser_fuel_suffices.

(* Python's int() reads back what b"%d" prints; the strict readers accept nothing else *)
Theorem pyint_reads_percent_d :
  (forall z, py_int (dec_Z z) = Some z) /\
  (forall l z, strict_int l = Some z -> l = dec_Z z).
Proof. exact (conj py_int_dec_Z strict_int_canonical). Qed.
Print Assumptions pyint_reads_percent_d.


Example ex_netstring :
  split_netstring (bytes_of_string "3:abc,0:,") 2 0 (Some []) = Ok ([bytes_of_string "abc"; []], 9) /\
  split_netstring (bytes_of_string "3:abc") 1 0 None = Err EIndex /\
  split_netstring (bytes_of_string "3:abcd") 1 0 None = Err EAssert /\
  split_netstring (bytes_of_string "x:abc,") 1 0 None = Err EValue /\
  is_ok (split_netstring_strict (bytes_of_string "03:abc,") 1 0 (Some [])) = false.
Proof. vm_compute. repeat split. Qed.

(* ====================================================================== *)
(* URI extension block                                                     *)

Theorem ueb_decode_encode :
  forall d, ueb_wf d = true -> exists s, ueb_pack d = Some s /\ ueb_unpack s = Ok (sort_entries d).
Proof. exact ueb_roundtrip. Qed.
Print Assumptions ueb_decode_encode.

Theorem ueb_strict_reader :
  (forall s d, ueb_unpack_strict s = Ok d -> ueb_pack d = Some s) /\
  (forall s d, ueb_unpack_strict s = Ok d -> ueb_unpack s = Ok d) /\
  (forall d, ueb_wf d = true -> exists s, ueb_pack d = Some s /\ ueb_unpack_strict s = Ok (sort_entries d)).
Proof. exact (conj ueb_strict_converse (conj ueb_strict_sound ueb_strict_roundtrip)). Qed.
Print Assumptions ueb_strict_reader.



(* FALSE without the precondition on the current tree:
   forall s d, ueb_unpack s = Ok d -> ueb_pack d = Some s. *)
Theorem ueb_accepts_only_canonical :
  forall s d, ueb_unpack s = Ok d -> is_ok (ueb_unpack_strict s) = true -> ueb_pack d = Some s.
Proof. exact ueb_converse_canonical. Qed.
Print Assumptions ueb_accepts_only_canonical.

Theorem ueb_accepts_only_canonical_refuted :
  (exists s d, ueb_unpack s = Ok d /\ ueb_pack d <> Some s) /\
  (forallb ueb_accepts_noncanonical
    (ueb_witness_numeral ++ ueb_witness_negative_length ++ ueb_witness_duplicate_key ++
     ueb_witness_unsorted_keys ++ ueb_witness_unencodable_key ++ ueb_witness_int_field) = true).
Proof. exact (conj ueb_converse_refuted ueb_witnesses_accepted). Qed.
Print Assumptions ueb_accepts_only_canonical_refuted.



Example ueb_wf_nonvacuous :
  ueb_wf [(bytes_of_string "size", UInt 1234); (bytes_of_string "codec_name", UBytes (bytes_of_string "crs"));
          (bytes_of_string "crypttext_hash", UBytes (repeat 7 32))] = true /\
  ueb_pack [(bytes_of_string "size", UInt 1234); (bytes_of_string "codec_name", UBytes (bytes_of_string "crs"))]
    = Some (bytes_of_string "codec_name:3:crs,size:4:1234,").
Proof. vm_compute. split; reflexivity. Qed.

(* ====================================================================== *)
(* lease records                                                           *)

Theorem lease_decode_encode :
  (forall l, lease_fits_immutable l = true ->
    exists s, lease_to_immutable l = Some s /\ lease_from_immutable s = Some l /\
              N.of_nat (length s) = lease_immutable_size) /\
  (forall l, lease_fits_mutable l = true ->
    exists s, lease_to_mutable l = Some s /\ lease_from_mutable s = Some l /\
              N.of_nat (length s) = lease_mutable_size).
Proof. exact (conj lease_immutable_roundtrip lease_mutable_roundtrip). Qed.
Print Assumptions lease_decode_encode.

Theorem lease_accepts_only_canonical :
  (forall s l, bytes_ok s = true -> lease_from_immutable s = Some l -> lease_to_immutable l = Some s) /\
  (forall s l, bytes_ok s = true -> lease_from_mutable s = Some l -> lease_to_mutable l = Some s).
Proof. exact (conj lease_immutable_converse lease_mutable_converse). Qed.
Print Assumptions lease_accepts_only_canonical.



(* why the width precondition is needed: struct's "32s" pads and truncates silently *)
Theorem lease_width_precondition_needed :
  exists l s, lease_to_immutable l = Some s /\ lease_from_immutable s <> Some l.
Proof. exact lease_short_secret_not_preserved. Qed.
Print Assumptions lease_width_precondition_needed.

Example lease_fits_nonvacuous :
  lease_fits_immutable (mk_lease (2 ^ 32 - 1) (repeat 255 32) (repeat 0 32) (2 ^ 32 - 1) None) = true /\
  lease_fits_mutable (mk_lease 0 (repeat 1 32) (repeat 2 32) 0 (Some (repeat 3 20))) = true /\
  lease_to_immutable (mk_lease (2 ^ 32) (repeat 255 32) (repeat 0 32) 0 None) = None.
Proof. vm_compute. repeat split. Qed.

(* ====================================================================== *)
(* share container headers                                                 *)

Theorem header_decode_encode :
  (forall version max_size, mem_N version ischema_versions = true ->
    exists s, imm_header version max_size = Some s /\
              imm_header_parse s = Some (version, N.min (2 ^ 32 - 1) max_size, 0) /\
              N.of_nat (length s) = immutable_data_offset) /\
  (forall v nid we, mem_N v mschema_versions = true -> length nid = 20%nat -> length we = 32%nat ->
    exists s, mut_header v nid we = Some s /\
              mut_header_parse (firstn (N.to_nat mutable_HEADER_SIZE) s) =
                Some (mk_mut_hdr v nid we 0 mutable_DATA_OFFSET) /\
              mut_read_data_length s = 0 /\
              mut_read_extra_lease_offset s = mutable_DATA_OFFSET /\
              N.of_nat (length s) = mutable_DATA_OFFSET + 4).
Proof. exact (conj imm_header_roundtrip mut_header_roundtrip). Qed.
Print Assumptions header_decode_encode.

Theorem header_accepts_only_canonical :
  (forall s v u n, bytes_ok s = true -> imm_header_parse s = Some (v, u, n) ->
    struct_pack ischema_header_format [VInt v; VInt u; VInt n] = Some s /\ mem_N v ischema_versions = true) /\
  (forall data h, bytes_ok data = true -> mut_header_parse data = Some h ->
    struct_pack mutable_header_read_format
      [VBytes (mut_magic (mh_version h)); VBytes (mh_nodeid h); VBytes (mh_write_enabler h);
       VInt (mh_data_length h); VInt (mh_extra_lease_offset h)] = Some data
    /\ mem_N (mh_version h) mschema_versions = true).
Proof. exact (conj imm_header_converse mut_header_converse). Qed.
Print Assumptions header_accepts_only_canonical.



(* header recognition (schema_from_header / is_valid_header): a header is taken for a mutable
   container of version v exactly when it starts with the complete 32-byte magic of v;
   nothing shorter than the magic is recognised *)
Theorem mutable_header_recognition :
  (forall v r, mem_N v mschema_versions = true ->
     mut_schema_from_header mschema_versions (mut_magic v ++ r) = Some v) /\
  (forall data v, mut_schema_from_header mschema_versions data = Some v ->
     mem_N v mschema_versions = true /\ exists r, data = mut_magic v ++ r) /\
  (forall data, (length data < 32)%nat -> mut_schema_from_header mschema_versions data = None).
Proof. exact mut_header_recognition. Qed.
Print Assumptions mutable_header_recognition.

(* generic: every struct format the translator can parse round-trips both ways *)
Theorem struct_decode_encode :
  (forall fmt vals, vals_fit fmt vals = true ->
    exists s, struct_pack fmt vals = Some s /\ struct_unpack fmt s = Some vals) /\
  (forall fmt s vals, bytes_ok s = true -> struct_unpack fmt s = Some vals -> struct_pack fmt vals = Some s).
Proof. exact (conj struct_unpack_pack struct_pack_unpack). Qed.
Print Assumptions struct_decode_encode.


(* the sizes, offsets, formats and field orders duplicated across the five source files agree *)
Theorem container_layout_consistent :
  lease_immutable_size = 72 /\ immutable_LEASE_SIZE = lease_immutable_size /\
  lease_mutable_size = 92 /\ mutable_LEASE_SIZE = lease_mutable_size /\
  ischema_header_format = immutable_header_read_format /\
  calcsize ischema_header_format = 12 /\
  immutable_header_read_size = 12 /\ immutable_data_offset = 12 /\ immutable_lease_offset_add = 12 /\
  immutable_lease_count_format_default = [FUInt 4] /\
  mschema_fixed_header_format = mschema_HEADER_FORMAT /\ mutable_header_read_format = mschema_HEADER_FORMAT /\
  mschema_HEADER_SIZE = 100 /\ mutable_HEADER_SIZE = mschema_HEADER_SIZE /\
  mutable_DATA_LENGTH_OFFSET = 84 /\ mutable_EXTRA_LEASE_OFFSET = 92 /\
  mschema_blank_leases_size = 4 * mutable_LEASE_SIZE /\
  mutable_DATA_OFFSET = 468 /\ mschema_EXTRA_LEASE_OFFSET = mutable_DATA_OFFSET /\
  mschema_extra_lease_count_format = [FUInt 4] /\
  forallb (fun b => b) mutable_class_asserts = true /\
  lease_to_immutable_data_fields = lease_from_immutable_data_fields /\
  lease_to_immutable_data_fields = ["owner_num"; "renew_secret"; "cancel_secret"; "expiration_time"]%string /\
  lease_to_mutable_data_fields = lease_from_mutable_data_fields /\
  lease_to_mutable_data_fields = ["owner_num"; "expiration_time"; "renew_secret"; "cancel_secret"; "nodeid"]%string /\
  immutable_header_read_names = ["version"; "unused"; "num_leases"]%string /\
  mutable_header_read_names = ["magic"; "write_enabler_nodeid"; "write_enabler"; "data_length"; "extra_least_offset"]%string /\
  ischema_versions = [2; 1] /\ mschema_versions = [2; 1].
Proof. exact layout_consistent. Qed.
Print Assumptions container_layout_consistent.

(* ====================================================================== *)
(* ties to the source: the hand-written model parts mirror these versions  *)

Theorem model_pins_current :
  (pin_base32_priv_get_trailing_chars_without_lsbs = "63672c1fb573092b"%string /\
  pin_base32_get_trailing_chars_without_lsbs = "e8fb7cfb0000c40c"%string /\
  pin_base32_b2a = "05059245b43d4da2"%string /\
  pin_base32_add_check_array = "09d0f9f9a6abb679"%string /\
  pin_base32_init_s8 = "8c85ad875866cb86"%string /\
  pin_base32_could_be_base32_encoded = "ffa5706cbe065276"%string /\
  pin_base32_a2b = "7b2a5698909ded7d"%string /\
  pin_base62_b2a = "9816967dfa574794"%string /\
  pin_base62_b2a_l = "84c048552736ee8a"%string /\
  pin_base62_num_octets_that_encode_to_this_many_chars = "11c8cc618dd0c879"%string /\
  pin_base62_a2b = "a23cc7a50ab3a837"%string /\
  pin_base62_a2b_l = "e12c9897002219ae"%string /\
  pin_base62_vals = "fca92a83ae954ab0"%string /\
  pin_base62_c2vtranstable = "8dae5841fe6c1d93"%string /\
  pin_base62_v2ctranstable = "75818f2fa66d5688"%string /\
  pin_netstring_netstring = "0efd09404df60bde"%string /\
  pin_netstring_split_netstring = "1915f9e1e84fd630"%string /\
  pin_uri_pack_extension = "6162de0ed43038da"%string /\
  pin_uri_unpack_extension = "a81405bf33550aea"%string) /\
  (base32_chars = bytes_of_string "abcdefghijklmnopqrstuvwxyz234567" /\
  base32_NUM_QS_TO_NUM_OS = [0; 1; 1; 2; 2; 3; 3; 4] /\
  base32_NUM_QS_LEGIT = [1; 0; 1; 0; 1; 1; 0; 1] /\
  base32_bits_per_octet = 8 /\ base32_s8_lsb_minuend = 4 /\ base32_s8_lsb_modulus = 5 /\
  base62_chars = bytes_of_string "0123456789ABCDEFGHIJKLMNOPQRSTUVWXYZabcdefghijklmnopqrstuvwxyz" /\
  netstring_format = bytes_of_string "%d:%s," /\
  ueb_key_regex = bytes_of_string "^[a-zA-Z_\-]+$" /\
  ueb_int_keys = map bytes_of_string ["size"; "segment_size"; "num_segments"; "needed_shares"; "total_shares"]%string) /\
  (pin_lease_from_immutable_data = "e9ae48618a9d800d"%string /\
  pin_lease_from_mutable_data = "68175935751c1a03"%string /\
  pin_lease_validate_nodeid = "36d777967419dc15"%string /\
  pin_immutable_fix_lease_count_format = "f3d1be21d7c49231"%string /\
  pin_immutable_is_valid_header = "9e8311c9eed55552"%string /\
  pin_ischema_schema_from_version = "551f8c5d14275ae7"%string /\
  pin_mschema_magic = "d48468924ce0cc74"%string /\
  pin_mschema_magic_matches = "840b98b15c285b5f"%string /\
  pin_mschema_schema_from_header = "81e6048eb6d5da4e"%string).
Proof. exact (conj codec_pins_current (conj codec_constants_current struct_pins_current)). Qed.
Print Assumptions model_pins_current.


