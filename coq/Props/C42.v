(* C42  Backup database reuses caps only for unchanged content.
   Statements only; each is closed by `exact` of a lemma in Proofs/BackupDB.v or
   Proofs/BackupDBDir.v.  Model/BackupDB.v is the hand model of
   scripts/backupdb.py (tied to the code by harness/props/c42.py); SQLite
   tables are finite maps.  A history is any list of operations, in
   chronological order, each carrying what the code read from its environment
   (os.stat result, time.time(), random.random()); `run dirkey empty_db h` is
   the database after it. *)
From Coq Require Import List NArith Bool String.
From Verif Require Import Lib.Hex Model.BackupDB Proofs.BackupDB Proofs.BackupDBDir.
Import ListNotations.
Local Open Scope N_scope.

(* For every history: check_file tells the tool to reuse a cap only when
   timestamps are trusted and (cap, size, mtime, ctime) are exactly what the most
   recent did_upload_file for this path recorded. *)
Theorem reuse_only_if_unchanged_since_last_upload :
  forall dirkey (h : list op) path use_timestamps size mtime ctime now rnd cap,
    was_uploaded (snd (check_file (run dirkey empty_db h) path use_timestamps size mtime ctime now rnd)) = Some cap ->
    use_timestamps = true /\ last_upload_of h path = Some (cap, size, mtime, ctime).
Proof. exact reuse_only_if_unchanged_lem. Qed.
Print Assumptions reuse_only_if_unchanged_since_last_upload.

(* The clock and the random draw feed should_check only: neither the reuse
   decision nor the database after check_file depends on them. *)
Theorem reuse_decision_independent_of_clock_and_random :
  forall d path use_timestamps size mtime ctime now rnd now' rnd',
    was_uploaded (snd (check_file d path use_timestamps size mtime ctime now rnd))
    = was_uploaded (snd (check_file d path use_timestamps size mtime ctime now' rnd'))
    /\ fst (check_file d path use_timestamps size mtime ctime now rnd)
       = fst (check_file d path use_timestamps size mtime ctime now' rnd').
Proof. exact reuse_independent_of_clock_lem. Qed.
Print Assumptions reuse_decision_independent_of_clock_and_random.

(* should_check() is true only together with a cap (it asks for a re-check, it never adds a reuse). *)
Theorem should_check_only_with_cap :
  forall d path use_timestamps size mtime ctime now rnd,
    fr_should_check (snd (check_file d path use_timestamps size mtime ctime now rnd)) = true ->
    fr_filecap (snd (check_file d path use_timestamps size mtime ctime now rnd)) <> None.
Proof. exact should_check_only_with_cap_lem. Qed.
Print Assumptions should_check_only_with_cap.

(* The byte string that is hashed determines the dict: equal strings, equal
   (name, cap) items (netstrings decompose uniquely). *)
Theorem dirhash_preimage_determines_contents :
  forall c1 c2, dir_data c1 = dir_data c2 -> forall e, In e c1 <-> In e c2.
Proof. exact dir_data_items. Qed.
Print Assumptions dirhash_preimage_determines_contents.

(* For every history in which directories are recorded through the
   DirectoryResult (as tahoe_backup.py does): if the directories key (base32 of
   the hash) is injective, check_directory hands back a dircap only if it is
   the one recorded by the most recent did_create for exactly these contents. *)
Theorem dircap_only_for_same_contents :
  forall dirkey : bytes -> bytes,
    (forall a b, dirkey a = dirkey b -> a = b) ->
    forall (h : list op) contents now rnd cap,
      no_raw_create h ->
      was_created (check_directory dirkey (run dirkey empty_db h) contents now rnd) = Some cap ->
      last_create_for h contents = Some cap.
Proof. exact dircap_only_for_same_contents_lem. Qed.
Print Assumptions dircap_only_for_same_contents.

(* The same for the real key function b2a(SHA-256d(netstring(tag) ++ data)),
   without an injectivity hypothesis: otherwise two different byte strings
   with the same key exist. *)
Theorem dircap_same_contents_or_collision :
  forall (h : list op) contents now rnd cap,
    no_raw_create h ->
    was_created (check_directory real_dirkey (run real_dirkey empty_db h) contents now rnd) = Some cap ->
    last_create_for h contents = Some cap
    \/ exists a b : bytes, a <> b /\ real_dirkey a = real_dirkey b.
Proof. exact (dir_reuse_or_collision_lem real_dirkey). Qed.
Print Assumptions dircap_same_contents_or_collision.

(* what `last_create_for h contents = Some cap` says *)
Theorem last_create_for_meaning :
  forall (h : list op) contents cap,
    last_create_for h contents = Some cap ->
    exists c' now, In (ODidCreateDir cap c' now) h /\ forall e, In e c' <-> In e contents.
Proof. exact last_create_for_meaning_lem. Qed.
Print Assumptions last_create_for_meaning.

(* ---- the hypotheses are satisfiable --------------------------------------- *)
Local Open Scope string_scope.
Definition p1 : bytes := bytes_of_string "/b/f1".
Definition p2 : bytes := bytes_of_string "/b/f2".
Definition capA : bytes := bytes_of_string "URI:CHK:aaaa".
Definition capB : bytes := bytes_of_string "URI:CHK:bbbb".
Definition dcap : bytes := bytes_of_string "URI:DIR2-CHK:dddd".
Definition idkey (x : bytes) : bytes := x.

Definition ex_history : list op :=
  [ OCheckFile p1 true 10 100 100 1000 0;
    ODidUpload capA p1 100 100 10 1000;
    ODidUpload capB p2 200 200 20 1001;
    ODidCreateDir dcap [(bytes_of_string "f2", capB); (bytes_of_string "f1", capA)] 1002 ].

(* unchanged file: reused; size, mtime or ctime changed, timestamps not trusted, renamed: not reused *)
Example ex_reuse_nonvacuous :
  let d := run idkey empty_db ex_history in
  was_uploaded (snd (check_file d p1 true 10 100 100 2000 0)) = Some capA /\
  was_uploaded (snd (check_file d p1 true 11 100 100 2000 0)) = None /\
  was_uploaded (snd (check_file d p1 true 10 101 100 2000 0)) = None /\
  was_uploaded (snd (check_file d p1 true 10 100 101 2000 0)) = None /\
  was_uploaded (snd (check_file d p1 false 10 100 100 2000 0)) = None /\
  was_uploaded (snd (check_file d (bytes_of_string "/b/f3") true 10 100 100 2000 0)) = None.
Proof. vm_compute. repeat split; reflexivity. Qed.

(* a changed file is forgotten: even when the old stat comes back, no reuse until the next upload *)
Example ex_forgotten_after_change :
  let d := fst (check_file (run idkey empty_db ex_history) p1 true 11 100 100 2000 0) in
  was_uploaded (snd (check_file d p1 true 10 100 100 2001 0)) = None.
Proof. vm_compute. reflexivity. Qed.

(* the same dict given in another order is reused; another cap under the same name is not *)
Example ex_dir_reuse_nonvacuous :
  let d := run real_dirkey empty_db ex_history in
  was_created (check_directory real_dirkey d [(bytes_of_string "f1", capA); (bytes_of_string "f2", capB)] 2000 0) = Some dcap /\
  was_created (check_directory real_dirkey d [(bytes_of_string "f1", capB); (bytes_of_string "f2", capB)] 2000 0) = None /\
  no_raw_create ex_history.
Proof.
  vm_compute. repeat split; try reflexivity.
  intros a b c [H|[H|[H|[H|[]]]]]; discriminate.
Qed.

Example ex_idkey_injective_nonvacuous : forall a b, idkey a = idkey b -> a = b.
Proof. intros a b H. exact H. Qed.

(* should_check: never within a month of the last check, always after two *)
Example ex_should_check :
  should_check 2592000 0 0 = false /\ should_check (2 * 2592000) 0 65535 = true /\
  should_check (2592000 + 1296000) 0 32767 = true /\ should_check (2592000 + 1296000) 0 32768 = false.
Proof. vm_compute. repeat split; reflexivity. Qed.
