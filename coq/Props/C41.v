(* C41  Web API never exceeds the authority of the capability used.
   Statements only; proofs in Proofs/WebAuthTable.v (facts computed on the regenerated table) and
   Proofs/WebAuth.v (generic argument).  Model/WebAuth.v: caps as (object, authority class), an abstract
   grid of directories and files, nodemaker / dirnode child selection (write-cap slot only through a
   writeable directory node: C18), the traversal of DirectoryNodeHandler.getChild with its directory
   creation, every render_PUT / render_POST / render_DELETE branch of the /uri and /file handlers as a
   decision tree of node-layer calls, and the guards: web-level `is_readonly()` checks, the
   `is_readonly() -> NotWriteableError` prologue of the DirectoryNode mutators, `assert not is_readonly()`
   of MutableFileVersion -- all three read from Gen/WebOps.v, regenerated from /repo on every run.

   Scope.  grid_wfb: no directory stores a write cap in a read-cap slot (what the packer writes; the
   crafted-directory class is C18's known finding).  Objects created but never linked are not part of the
   abstract grid (creating unlinked objects needs no authority).  `Refused` covers every error response;
   the status code is compared by the driver, not stated here. *)
From Coq Require Import List NArith Bool String.
From Verif Require Import Gen.WebOps Model.WebAuth Proofs.WebAuthTable Proofs.WebAuth.
Import ListNotations.
Local Open Scope string_scope.

(* every entry of the regenerated dispatch table has a script in the model, every node-layer call it
   reaches is classified by the model, and the calls of the script are exactly the calls of the entry *)
Theorem table_covered : forall e, In e web_ops -> entry_covered e = true.
Proof. exact table_covered_ok. Qed.
Print Assumptions table_covered.

(* for every operation of the table: with self.node and self.parentnode not writeable, whatever the
   request arguments and the grid, no mutating node-layer call is carried out and the grid is unchanged *)
Theorem modifying_op_requires_write_authority_entry :
  forall e s, In e web_ops -> op_script (wo_class e) (wo_method e) (wo_t e) = Some s ->
  forall rq self parent g,
    match self with Some n => is_readonly n = true | None => True end ->
    match parent with Some (p, _) => is_readonly p = true | None => True end ->
    snd (run s (rq_t rq) rq (mk_env self parent (wo_calls e)) g Unmodified) = g
    /\ fst (run s (rq_t rq) rq (mk_env self parent (wo_calls e)) g Unmodified) <> Performed.
Proof. exact modifying_op_entry. Qed.
Print Assumptions modifying_op_requires_write_authority_entry.

(* for every request -- method, t=, path, arguments -- made through a root cap that is not writeable
   (read-only, verify or unknown): traversal creates nothing, the handler reached refuses or performs an
   operation without mutating call; the grid is unchanged *)
Theorem modifying_op_requires_write_authority :
  forall g rq,
    grid_wfb g = true -> c_auth (rq_root rq) <> AW ->
    snd (serve g rq) = g /\ fst (serve g rq) <> Performed.
Proof. exact modifying_request. Qed.
Print Assumptions modifying_op_requires_write_authority.

(* ... and the same below any directory node that is not writeable, however it was reached (a writeable
   root and a path through a read-only link: descendants_of_readonly_are_readonly gives the premise) *)
Theorem modifying_op_below_readonly_directory :
  forall g rq n par fuel,
    grid_wfb g = true -> is_readonly n = true ->
    match par with Some (p, _) => is_readonly p = true | None => True end ->
    snd (render fuel (handler_class n) rq (Some n) par g Unmodified) = g
    /\ fst (render fuel (handler_class n) rq (Some n) par g Unmodified) <> Performed.
Proof. exact modifying_below_readonly. Qed.
Print Assumptions modifying_op_below_readonly_directory.

(* what the two possible outcomes mean: `Unmodified` is only reached along a path of the branch that
   contains no mutating node-layer call; every attempted mutating call ends in Refused or Performed *)
Theorem unmodified_means_no_mutating_call :
  forall s t rq ev g g',
    run s t rq ev g Unmodified = (Unmodified, g') ->
    g' = g /\ forall c kd, In c (trace s rq ev) -> call_sem c = Some kd -> is_mutating kd = false.
Proof. exact unmodified_no_mutating_call. Qed.
Print Assumptions unmodified_means_no_mutating_call.

(* each step of the path obtains the child through the parent's authority *)
Theorem descendants_of_readonly_are_readonly :
  forall g path n n',
    grid_wfb g = true -> is_readonly n = true -> walk g n path = Some n' -> is_readonly n' = true.
Proof. exact walk_readonly_ok. Qed.
Print Assumptions descendants_of_readonly_are_readonly.

(* rename / relink into a destination that is not writeable is refused, whatever the source *)
Theorem relink_needs_writeable_destination :
  forall t rq n par ec g c,
    rq_to_dir rq = Some c -> c_auth c <> AW ->
    exists r, do_call KMove t rq (mk_env (Some n) par ec) g = inl r.
Proof. exact relink_destination_refused. Qed.
Print Assumptions relink_needs_writeable_destination.

(* t=json of a directory reached from a root cap that is not writeable: no rw_uri for the directory, none
   for any child, and no cap of write authority anywhere in it *)
Theorem readonly_listing_has_no_rw_uri :
  forall g c path n self kids,
    grid_wfb g = true -> c_auth c <> AW ->
    walk g (root_node g c) path = Some n -> dir_json g n = Some (self, kids) ->
    d_rw self = None /\ c_auth (d_ro self) <> AW
    /\ forall x d, In (x, d) kids -> d_rw d = None /\ c_auth (d_ro d) <> AW.
Proof. exact readonly_listing_path. Qed.
Print Assumptions readonly_listing_has_no_rw_uri.

(* t=json of a file / unknown node that is not writeable *)
Theorem readonly_node_json_has_no_rw_uri :
  forall n, is_readonly n = true -> n_urw n = None ->
    d_rw (describe n) = None /\ c_auth (d_ro (describe n)) <> AW.
Proof. exact readonly_describe. Qed.
Print Assumptions readonly_node_json_has_no_rw_uri.

(* the node layer the model was written for: which DirectoryNode methods modify, and through which calls *)
Theorem dirnode_mutator_structure :
  dn_mutator_structure =
  [ ("set_metadata_for", true, []); ("set_uri", false, ["self.set_node"]); ("set_children", true, []);
    ("set_node", true, []); ("set_nodes", true, []); ("add_file", false, ["self.set_node"]);
    ("delete", true, []); ("create_subdirectory", true, []);
    ("move_child_to", false, ["new_parent.set_node"; "self.delete"]) ].
Proof. exact dn_structure_ok. Qed.
Print Assumptions dirnode_mutator_structure.

(* verify caps and unknown caps are served by a handler without PUT/POST/DELETE, /file is GET/HEAD only,
   unmatched t= values are refused, no other getChild reaches a mutating call, and every 'rw_uri' the JSON
   renderers emit is <node>.get_write_uri() *)
Theorem passive_surfaces :
  assoc "UnknownNodeHandler" handler_methods = Some [] /\ assoc "FileHandler" handler_methods = Some []
  /\ file_handler_get_head_only = true /\ defaults_ok = true /\ other_getchild_ok = true
  /\ rw_uri_emitters = [("_file_json_metadata", "filenode"); ("_directory_json_metadata", "dirnode");
                        ("_directory_json_metadata", "childnode"); ("UnknownJSONMetadata", "node")].
Proof.
  destruct passive_handlers_ok as [A [B C]].
  split; [exact A|]. split; [exact B|]. split; [exact C|]. split; [exact defaults_refuse_ok|].
  split; [exact other_getchild_passive_ok|exact rw_uri_emitters_ok].
Qed.
Print Assumptions passive_surfaces.

(* ---- the hypotheses are satisfiable and the model computes what the web API does ---- *)
(* objects: 1 root directory, 2 immutable file, 3 mutable file, 4 sub-directory (write link),
   5 directory linked read-only; names 10..13 *)
Definition ex_grid : grid :=
  [ (1%N, ODir true [ (10%N, mk_edge None (mk_cap 2 AR));
                      (11%N, mk_edge (Some (mk_cap 3 AW)) (mk_cap 3 AR));
                      (12%N, mk_edge (Some (mk_cap 4 AW)) (mk_cap 4 AR));
                      (13%N, mk_edge None (mk_cap 5 AR)) ]);
    (2%N, OFile false [1%N; 2%N]);
    (3%N, OFile true [3%N]);
    (4%N, ODir true []);
    (5%N, ODir true [ (10%N, mk_edge (Some (mk_cap 3 AW)) (mk_cap 3 AR)) ]) ].

Definition ex_req (m : meth) (t : string) (root : cap) (path : list N) (name : option N) : request :=
  mk_req m t root path name None None true false false (mk_cap 2 AR) [] [7%N] false 100%N.

Example ex_grid_wf_nonvacuous : grid_wfb ex_grid = true.
Proof. vm_compute. reflexivity. Qed.

(* PUT of a new file through the read cap: refused by the dirnode guard; through the write cap: done *)
Example ex_put_new_file_nonvacuous :
  fst (serve ex_grid (ex_req PUT "" (mk_cap 1 AR) [20%N] None)) = Refused RNotWriteable
  /\ fst (serve ex_grid (ex_req PUT "" (mk_cap 1 AW) [20%N] None)) = Performed
  /\ names_of (snd (serve ex_grid (ex_req PUT "" (mk_cap 1 AW) [20%N] None))) 1 = [10; 11; 12; 13; 20]%N.
Proof. vm_compute. repeat split; reflexivity. Qed.

(* PUT to the mutable file through the directory's read cap: the web-level guard answers;
   POST t=upload to it: the MutableFileVersion assertion *)
Example ex_mutable_file_nonvacuous :
  fst (serve ex_grid (ex_req PUT "" (mk_cap 1 AR) [11%N] None)) = Refused RWebGuard
  /\ fst (serve ex_grid (ex_req POST "upload" (mk_cap 1 AR) [11%N] None)) = Refused RAssertion
  /\ fst (serve ex_grid (ex_req PUT "" (mk_cap 1 AW) [11%N] None)) = Performed
  /\ fst (serve ex_grid (ex_req PUT "" (mk_cap 3 AV) [] None)) = Refused RNotAllowed.
Proof. vm_compute. repeat split; reflexivity. Qed.

(* a writeable root and a path through the directory linked read-only *)
Example ex_through_readonly_link_nonvacuous :
  fst (serve ex_grid (ex_req PUT "" (mk_cap 1 AW) [13%N; 20%N] None)) = Refused RNotWriteable
  /\ fst (serve ex_grid (ex_req PUT "" (mk_cap 1 AW) [13%N; 10%N] None)) = Refused RWebGuard
  /\ fst (serve ex_grid (ex_req POST "mkdir" (mk_cap 1 AW) [13%N; 30%N; 31%N] None)) = Refused RNotWriteable
  /\ fst (serve ex_grid (ex_req POST "mkdir" (mk_cap 1 AW) [12%N; 30%N; 31%N] None)) = Performed
  /\ fst (serve ex_grid (ex_req POST "set_children" (mk_cap 5 AR) [] None)) = Refused RAssertion
  /\ fst (serve ex_grid (ex_req DELETE "" (mk_cap 1 AR) [10%N] None)) = Refused RNotWriteable
  /\ fst (serve ex_grid (ex_req POST "unlink" (mk_cap 1 AW) [] (Some 10%N))) = Performed.
Proof. vm_compute. repeat split; reflexivity. Qed.

(* the listing through the read cap has no rw_uri, through the write cap it has *)
Example ex_listing_nonvacuous :
  observe_listing ex_grid (mk_cap 1 AR) [] =
    Some ((0, 5), [(10, (0, 9)); (11, (0, 13)); (12, (0, 17)); (13, (0, 21))])%N
  /\ observe_listing ex_grid (mk_cap 1 AW) [] =
    Some ((5, 5), [(10, (0, 9)); (11, (13, 13)); (12, (17, 17)); (13, (0, 21))])%N.
Proof. vm_compute. repeat split; reflexivity. Qed.
