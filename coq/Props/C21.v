(* C21  Deep traversal visits every reachable object exactly once.
   Statements only; each is closed by `exact` of a lemma in Proofs/TraverseThm.v.
   Model/Traverse.v is the hand model of DirectoryNode.deep_traverse (tied to
   the code by harness/props/c21.py).  `traverse_fuel g fuel root = Some out`
   means: the walk from `root` finishes and `out` is the sequence of
   walker.add_node(node, path) calls.

   The property text says "every file and directory ... exactly once".  For
   objects that have a verify cap this is proved (with_verifier_exactly_once).
   For objects without one (LIT files, LIT directories, unknown nodes) the
   code hands the object to the walker once per link: see
   every_object_exactly_once_refuted; the driver replays the witnesses on the
   implementation (known finding). *)
From Coq Require Import List NArith Bool.
From Verif Require Import Model.Traverse Proofs.Traverse Proofs.TraverseThm.
Import ListNotations.
Local Open Scope N_scope.

(* Every object reachable from the root is handed to the walker at least once
   (through some cap of it), for graphs with shared subdirectories, cycles,
   read-only and read-write caps of the same directory, LIT and unknown nodes. *)
Theorem visits_all_reachable :
  forall g root nr,
    wf_graph g -> lookup g root = Some nr -> n_kind nr = KDir ->
    forall fuel out, traverse_fuel g fuel root = Some out ->
    forall i n, reachable g root i -> lookup g i = Some n ->
    exists q j m, In (q, j) out /\ lookup g j = Some m /\ n_obj m = n_obj n.
Proof. exact visits_all_reachable_lem. Qed.
Print Assumptions visits_all_reachable.

(* Every reachable object that has a verify cap is handed to the walker exactly
   once, however many parents link to it, through whichever caps, cycles included. *)
Theorem with_verifier_exactly_once :
  forall g root nr,
    wf_graph g -> lookup g root = Some nr -> n_kind nr = KDir ->
    forall fuel out, traverse_fuel g fuel root = Some out ->
    forall i n v, reachable g root i -> lookup g i = Some n -> n_verifier n = Some v ->
    count_obj g (n_obj n) out = 1%nat.
Proof. exact with_verifier_exactly_once_lem. Qed.
Print Assumptions with_verifier_exactly_once.

(* Each reported path, followed from the root through directories by child
   name, leads to the node reported for it. *)
Theorem paths_lead_to_nodes :
  forall g root nr,
    wf_graph g -> lookup g root = Some nr -> n_kind nr = KDir ->
    forall fuel out, traverse_fuel g fuel root = Some out ->
    forall q j, In (q, j) out -> walk g root q = Some j.
Proof. exact paths_lead_to_nodes_lem. Qed.
Print Assumptions paths_lead_to_nodes.

(* The walk ends, cycles or not, within one directory walk per graph node plus
   one, when every directory has a verify cap (LIT directories are the only
   ones without; they are immutable and cannot lie on a cycle). *)
Theorem terminates_on_cycles :
  forall g, dirs_have_verifier g -> forall root, exists out, traverse g root = Some out.
Proof. exact traverse_terminates. Qed.
Print Assumptions terminates_on_cycles.

(* The result does not depend on the fuel once it suffices. *)
Theorem result_independent_of_fuel :
  forall g root f out, traverse_fuel g f root = Some out ->
  forall f', (f <= f')%nat -> traverse_fuel g f' root = Some out.
Proof. exact traverse_fuel_mono. Qed.
Print Assumptions result_independent_of_fuel.

(* wf_graphb (evaluated by the driver on every generated graph) decides wf_graph. *)
Theorem wf_graphb_decides :
  forall g, wf_graphb g = true -> wf_graph g.
Proof. exact wf_graphb_sound. Qed.
Print Assumptions wf_graphb_decides.

(* The full statement "every reachable object exactly once" does NOT hold of the
   code: an object without a verify cap that is linked twice is handed to the
   walker twice (LIT file, LIT directory, unknown node). *)
Theorem every_object_exactly_once_refuted :
  forall k, In k [KFileLit; KDir; KUnknown] ->
  exists g root nr out i n,
    wf_graph g /\ lookup g root = Some nr /\ n_kind nr = KDir /\ traverse g root = Some out /\
    reachable g root i /\ lookup g i = Some n /\ n_kind n = k /\ n_verifier n = None /\
    count_obj g (n_obj n) out = 2%nat.
Proof. exact no_verifier_once_per_link. Qed.
Print Assumptions every_object_exactly_once_refuted.

(* ---- the hypotheses are satisfiable: a graph with a shared subdirectory, a
        cycle back to the root, the same directory under its write cap (node 1)
        and its read cap (node 2), a CHK file linked twice, a LIT file and an
        unknown node ------------------------------------------------------- *)
Definition ex_graph : graph :=
  [ (0, mkNode 0 KDir (Some 100) None [([115], 1); ([116], 2); ([102], 3)]);     (* root: s -> D(rw), t -> D(ro), f -> F *)
    (1, mkNode 1 KDir (Some 101) None [([117], 0); ([102], 3); ([108], 4); ([120], 5)]);  (* D via write cap: u -> root (cycle), f -> F, l -> LIT, x -> unknown *)
    (2, mkNode 1 KDir (Some 101) None [([117], 6); ([102], 3); ([108], 4); ([120], 7)]);  (* D via read cap: children seen read-only *)
    (3, mkNode 3 KFileImm (Some 103) (Some 1000) []);
    (4, mkNode 4 KFileLit None (Some 5) []);
    (5, mkNode 5 KUnknown None None []);
    (6, mkNode 0 KDir (Some 100) None [([115], 2); ([116], 2); ([102], 3)]);     (* root via read cap *)
    (7, mkNode 5 KUnknown None None []) ].

Example ex_graph_wf_nonvacuous : wf_graphb ex_graph = true /\ dirs_have_verifierb ex_graph = true.
Proof. vm_compute. split; reflexivity. Qed.

Example ex_graph_traverse :
  traverse ex_graph 0 =
  Some [([], 0); ([[102]], 3); ([[115]], 1); ([[115]; [120]], 5); ([[115]; [108]], 4)].
Proof. vm_compute. reflexivity. Qed.

Example ex_graph_stats :
  option_map (fun out => stats_list (deep_stats ex_graph out)) (traverse ex_graph 0)
  = Some [1; 0; 1; 2; 2; 1; 1000; 5; 0; 0; 4; 1000].
Proof. vm_compute. reflexivity. Qed.

(* a LIT directory on a cycle (impossible in a real grid) exhausts any fuel: None, not a wrong answer *)
Example ex_litdir_cycle_nonterminating :
  traverse [(0, mkNode 0 KDir None None [([97], 0)])] 0 = None.
Proof. vm_compute. reflexivity. Qed.
