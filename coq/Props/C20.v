(* C20  Directory edits behave like a name map.
   Statements only; proofs in Proofs/DirnodeEdits.v (refinement) and Proofs/DirnodeMap.v (map properties).
   Model/Dirnode.v section 7: b_run applies Adder/Deleter/MetadataSetter.modify and move_child_to to the
   packed bytes of (writekey, contents) directories (unpack, edit the AuxValueDict, re-pack with the cached
   entries); a_run applies the same operations to maps  name -> (child, metadata).
   dir_ok / store_ok / op_ok / conc (Proofs/DirnodeEdits.v): directories are sorted maps with normalised
   names whose children the node maker reproduces from their own caps (goodb, Model/Dirnode.v: also after
   the 'no-write' diminishing); added children are such nodes or error nodes (which make the add fail).
   Metadata: JSON dicts (jobj); update_metadata as in dirnode.py; the model covers dicts whose 'tahoe' entry,
   if present, is a dict (md_ok; update_metadata re-establishes it: Proofs.DirnodeMap.update_md_ok). *)
From Coq Require Import List NArith ZArith Bool String.
From Verif Require Import Lib.Hex Model.Dirnode Proofs.DirnodeBase Proofs.DirnodeEdits Proofs.DirnodeMap.
Import ListNotations.
Local Open Scope N_scope.

(* any history of add / replace / delete / rename / set-metadata applied to the packed bytes gives the
   same outcomes as on the maps, and leaves exactly the packing of the resulting maps *)
Theorem edits_refine_map :
  forall (classify : bytes -> capclass) (normalize : bytes -> bytes)
         (dumps : jobj -> bytes) (loads : bytes -> option jobj) (enc dec : bytes -> bytes -> bytes),
    (forall x, normalize (normalize x) = normalize x) ->
    (forall m, loads (dumps m) = Some m) ->
    (forall k d, dec k (enc k d) = d) ->
    forall (ops : list (op * jval)) (wks : list bytes) (dirs : list amap),
      store_ok classify normalize wks dirs ->
      Forall (fun on => op_ok classify (fst on)) ops ->
      b_run classify normalize dumps loads enc dec (conc dumps enc wks dirs) ops
      = (fst (a_run classify normalize dirs ops), conc dumps enc wks (snd (a_run classify normalize dirs ops)))
      /\ store_ok classify normalize wks (snd (a_run classify normalize dirs ops)).
Proof. exact run_refines. Qed.
Print Assumptions edits_refine_map.

(* overwrite=False (set_node, set_children, set_nodes, and the add half of move_child_to): whatever
   the outcome, every entry that existed is still there, unchanged *)
Theorem no_overwrite_never_replaces :
  forall (classify : bytes -> capclass) (normalize : bytes -> bytes)
         (dirs : list amap) (d : nat) (entries : list (bytes * node * option jobj)) (now : jval)
         (out : outcome) (dirs' : list amap),
    a_add classify normalize dirs d entries OvFalse now = (out, dirs') ->
    forall i m k v, nth_error dirs i = Some m -> sm_get k m = Some v ->
                    exists m', nth_error dirs' i = Some m' /\ sm_get k m' = Some v.
Proof. exact add_no_overwrite. Qed.
Print Assumptions no_overwrite_never_replaces.

(* overwrite=ONLY_FILES: every entry that was a directory is still there, unchanged *)
Theorem only_files_never_replaces_dir :
  forall (classify : bytes -> capclass) (normalize : bytes -> bytes)
         (dirs : list amap) (d : nat) (entries : list (bytes * node * option jobj)) (now : jval)
         (out : outcome) (dirs' : list amap),
    a_add classify normalize dirs d entries OvOnlyFiles now = (out, dirs') ->
    forall i m k n md, nth_error dirs i = Some m -> sm_get k m = Some (n, md) -> is_dir n = true ->
                       exists m', nth_error dirs' i = Some m' /\ sm_get k m' = Some (n, md).
Proof. exact add_only_files. Qed.
Print Assumptions only_files_never_replaces_dir.

(* move_child_to adds to the new parent first and deletes from the old one afterwards: when the
   operation fails, no directory has changed -- in particular the child is still linked under its old name *)
Theorem failed_rename_keeps_source :
  forall (classify : bytes -> capclass) (normalize : bytes -> bytes),
    (forall x, normalize (normalize x) = normalize x) ->
    forall (dirs : list amap) (src : nat) (namex : bytes) (dst : nat) (new_namex : option bytes)
           (ov : overwrite) (now : jval) (e : derr) (dirs' : list amap),
      a_step classify normalize dirs (OMove src namex dst new_namex ov) now = (Failed e, dirs') -> dirs' = dirs.
Proof. exact failed_move_changes_nothing. Qed.
Print Assumptions failed_rename_keeps_source.

(* link times under a clock that does not go backwards (T = latest time used so far, z = time of this
   operation): every entry that is still there after the operation keeps its linkcrtime, and its
   linkmotime does not decrease (it is either untouched or becomes z) *)
Theorem linkcrtime_preserved_linkmotime_advances :
  forall (classify : bytes -> capclass) (normalize : bytes -> bytes)
         (dirs : list amap) (o : op) (T z : Z) (out : outcome) (dirs' : list amap),
    sorted_dirs dirs -> motime_le T dirs -> (T <= z)%Z ->
    a_step classify normalize dirs o (JNum z) = (out, dirs') ->
    motime_le z dirs' /\
    forall i m k v m' v', nth_error dirs i = Some m -> sm_get k m = Some v ->
                          nth_error dirs' i = Some m' -> sm_get k m' = Some v' ->
                          (forall t, linkcrtime (snd v) = Some t -> linkcrtime (snd v') = Some t) /\
                          (forall a, linkmotime (snd v) = Some (JNum a) ->
                                     exists b, linkmotime (snd v') = Some (JNum b) /\ (a <= b)%Z).
Proof. exact step_advances. Qed.
Print Assumptions linkcrtime_preserved_linkmotime_advances.

(* the same without assuming anything about the clock: untouched, or rewritten with linkmotime = now *)
Theorem link_times_step :
  forall (classify : bytes -> capclass) (normalize : bytes -> bytes)
         (dirs : list amap) (o : op) (now : jval) (out : outcome) (dirs' : list amap),
    sorted_dirs dirs -> a_step classify normalize dirs o now = (out, dirs') ->
    sorted_dirs dirs' /\ TO now dirs dirs' /\
    (forall i m k v t m' v', nth_error dirs i = Some m -> sm_get k m = Some v -> linkcrtime (snd v) = Some t ->
                             nth_error dirs' i = Some m' -> sm_get k m' = Some v' -> linkcrtime (snd v') = Some t).
Proof. exact step_link_times. Qed.
Print Assumptions link_times_step.

(* update_metadata itself *)
Theorem update_metadata_times :
  forall (m : jobj) (new : option jobj) (now t : jval),
    linkmotime (update_metadata (Some m) new now) = Some now /\
    (linkcrtime m = Some t -> linkcrtime (update_metadata (Some m) new now) = Some t) /\
    md_ok (update_metadata (Some m) new now) = true.
Proof. exact update_metadata_all. Qed.
Print Assumptions update_metadata_times.

(* ---- non-vacuity: a history computed inside Coq ---- *)
Definition ex_cls := classify_tbl [(bytes_of_string "W", KWrite true (bytes_of_string "W") (bytes_of_string "R"));
                                   (bytes_of_string "R", KRead true (bytes_of_string "R"));
                                   (bytes_of_string "C", KImm false (bytes_of_string "C"))].
Definition ex_file := create_from_cap ex_cls false None (Some (bytes_of_string "C")).
Definition ex_dir := create_from_cap ex_cls false (Some (bytes_of_string "W")) None.
Definition ex_ops : list (op * jval) :=
  [(OAdd 0 [(bytes_of_string "a", ex_file, None); (bytes_of_string "d", ex_dir, Some [(bytes_of_string "k", JNum 1%Z)])] OvTrue, JNum 10%Z);
   (OAdd 0 [(bytes_of_string "a", ex_file, None)] OvFalse, JNum 11%Z);            (* ExistingChildError *)
   (OAdd 0 [(bytes_of_string "d", ex_file, None)] OvOnlyFiles, JNum 12%Z);        (* ExistingChildError: d is a directory *)
   (OMove 0 (bytes_of_string "a") 1 (Some (bytes_of_string "d")) OvTrue, JNum 13%Z);
   (OMove 0 (bytes_of_string "a") 1 None OvTrue, JNum 14%Z);                       (* NoSuchChildError *)
   (OSetMd 1 (bytes_of_string "d") [(bytes_of_string "x", JBool true)], JNum 15%Z);
   (ODelete 0 (bytes_of_string "d") true false true, JNum 16%Z)].                  (* ChildOfWrongTypeError *)

Example ex_run_nonvacuous :
  let r := a_run ex_cls (fun x => x) [[]; []] ex_ops in
  forallb (fun p => outcome_eqb (fst p) (snd p))
          (combine (fst r) [Done; Failed EExists; Failed EExists; Done; Failed ENoSuchChild; Done; Failed EWrongType]) = true
  /\ map (map fst) (snd r) = [[bytes_of_string "d"]; [bytes_of_string "d"]]
  /\ match nth_error (snd r) 1 with
     | Some m => match sm_get (bytes_of_string "d") m with
                 | Some (_, md) => linkcrtime md = Some (JNum 13%Z) /\ linkmotime md = Some (JNum 15%Z)
                 | None => False
                 end
     | None => False
     end.
Proof. vm_compute. repeat split; reflexivity. Qed.

Example ex_good_nodes_nonvacuous : forallb (goodb ex_cls) [ex_file; ex_dir] = true.
Proof. vm_compute. reflexivity. Qed.

(* the bytes-level run on the packed store agrees (identity cipher, a toy injective serialiser is not
   needed: the outcomes do not depend on dumps when loads . dumps = id) -- checked on the model side by
   the theorem above; the driver compares a_run with the implementation. *)
