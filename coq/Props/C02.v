(* C02  Immutable downloads never return wrong bytes.
   Statements only; each is closed by `exact` of a lemma in Proofs/ImmVerify*.v.
   The model is Model/ImmVerify.v: Share._get_satisfaction (offset-table rules, UEB against the
   cap, share hash chain, block hash tree root = the share's leaf of the share hash tree, block
   hash tree, crypttext hash tree, block hash), DownloadNode._decode_blocks/_check_ciphertext_hash,
   SegmentFetcher, Segmentation (through C01's read_plan).  The Merkle trees are the C35 model of
   hashtree.py (set_hashes with an arbitrary set.pop() order), used through its theorems
   accept_implies_genuine / accepted_leaf_is_genuine / reject_restores_state.

   Quantification.  `sh`, `tries`, `script` are arbitrary: every field of every share is the
   adversary's, a share may be offered under any share number, any number of times, and a
   different `share` value on each call is a server that changes its answers.  `dn` is any node
   state satisfying the invariant `node_inv` (it holds initially and after every call, whatever
   the outcome: first conjunct of each theorem).
   Hash hypotheses: equality test exact, hash values are non-empty strings, pair_hash /
   block_hash / crypttext_segment_hash / uri_extension_hash injective on the values hashed,
   unpack_extension inverts pack_extension (C38).  The erasure code is arbitrary: no property of
   the decoder is used (the crypttext hash tree decides). *)
From Coq Require Import List ZArith NArith Bool.
From Verif Require Import Gen.ImmConsts Model.HashTree Model.ImmFile Model.ImmVerify
  Proofs.ImmFileRead Proofs.ImmVerifyTree Proofs.ImmVerify Proofs.ImmVerifyComplete Proofs.ImmVerifyRead Proofs.ImmVerifySym Proofs.ImmCheckRepair.
Import ListNotations.
Local Open Scope Z_scope.

(* A block accepted for (share number s, segment j) is the block the uploader produced. *)
Theorem accepted_block_genuine :
  forall (H : Type) (H_eqb : H -> H -> bool) (pair_hash : H -> H -> H) (truthy : H -> bool) (empty_leaf : Z -> H)
         (block_hash seg_hash : list N -> H) (UB : Type) (ueb_hash : UB -> H) (parse_ueb : UB -> option (ueb H))
         (ser_ueb : ueb H -> UB),
    (forall a b, H_eqb a b = true <-> a = b) ->
    (forall h, truthy h = true) ->
    (forall a b c d, pair_hash a b = pair_hash c d -> a = c /\ b = d) ->
    (forall a b, block_hash a = block_hash b -> a = b) ->
    (forall a b, ueb_hash a = ueb_hash b -> a = b) ->
    (forall u, parse_ueb (ser_ueb u) = Some u) ->
  forall (f : efile) (key : list N), ef_wf f ->
  let c := g_cap H pair_hash empty_leaf block_hash seg_hash UB ueb_hash ser_ueb key f in
  forall (dn : dnode H) (s j : Z) (sh : share H UB) (ords : nat -> list Z) (dn' : dnode H) (r : gres),
    node_inv H pair_hash empty_leaf block_hash seg_hash f dn ->
    get_block H H_eqb pair_hash truthy block_hash UB ueb_hash parse_ueb c dn s j sh ords = (dn', r) ->
    node_inv H pair_hash empty_leaf block_hash seg_hash f dn' /\
    (forall b, r = GBlock b -> 0 <= s < Z.of_N (ef_n f) -> b = gblock f s j).
Proof.
  intros H H_eqb pair_hash truthy empty_leaf block_hash seg_hash UB ueb_hash parse_ueb ser_ueb He Ht Hp Hb Hu Hps f key Hwf c.
  exact (get_block_sound H H_eqb pair_hash truthy empty_leaf block_hash seg_hash UB ueb_hash parse_ueb ser_ueb He Ht Hp Hb Hu Hps f key Hwf).
Qed.
Print Assumptions accepted_block_genuine.

(* A segment delivered by DownloadNode.get_segment is the uploader's ciphertext segment, whatever
   blocks went into the decoder and whatever the decoder is. *)
Theorem segment_genuine :
  forall (H : Type) (H_eqb : H -> H -> bool) (pair_hash : H -> H -> H) (truthy : H -> bool) (empty_leaf : Z -> H)
         (block_hash seg_hash : list N -> H) (UB : Type) (ueb_hash : UB -> H) (parse_ueb : UB -> option (ueb H))
         (dec : N -> N -> list (N * list N) -> list (list N)) (ser_ueb : ueb H -> UB),
    (forall a b, H_eqb a b = true <-> a = b) ->
    (forall h, truthy h = true) ->
    (forall a b c d, pair_hash a b = pair_hash c d -> a = c /\ b = d) ->
    (forall a b, block_hash a = block_hash b -> a = b) ->
    (forall a b, seg_hash a = seg_hash b -> a = b) ->
    (forall a b, ueb_hash a = ueb_hash b -> a = b) ->
    (forall u, parse_ueb (ser_ueb u) = Some u) ->
  forall (f : efile) (key : list N), ef_wf f ->
  let c := g_cap H pair_hash empty_leaf block_hash seg_hash UB ueb_hash ser_ueb key f in
  forall (dn : dnode H) (j : Z) (tries : list (Z * share H UB * (nat -> list Z))) (ord : list Z)
         (dn' : dnode H) (r : list N + verr),
    node_inv H pair_hash empty_leaf block_hash seg_hash f dn ->
    fetch_segment H H_eqb pair_hash truthy block_hash seg_hash UB ueb_hash parse_ueb dec c dn j tries ord = (dn', r) ->
    node_inv H pair_hash empty_leaf block_hash seg_hash f dn' /\
    (forall seg, r = inl seg -> 0 <= j < nseg f -> seg = gsegment f j).
Proof.
  intros H H_eqb pair_hash truthy empty_leaf block_hash seg_hash UB ueb_hash parse_ueb dec ser_ueb He Ht Hp Hb Hs Hu Hps f key Hwf c.
  exact (fetch_segment_sound H H_eqb pair_hash truthy empty_leaf block_hash seg_hash UB ueb_hash parse_ueb dec ser_ueb He Ht Hp Hb Hs Hu Hps f key Hwf).
Qed.
Print Assumptions segment_genuine.

(* ... also when the fetcher is bypassed: any blocks at all into decode + ciphertext hash check *)
Theorem decoded_segment_genuine :
  forall (H : Type) (H_eqb : H -> H -> bool) (pair_hash : H -> H -> H) (truthy : H -> bool) (empty_leaf : Z -> H)
         (block_hash seg_hash : list N -> H) (UB : Type) (ueb_hash : UB -> H)
         (dec : N -> N -> list (N * list N) -> list (list N)) (ser_ueb : ueb H -> UB),
    (forall a b, H_eqb a b = true <-> a = b) ->
    (forall h, truthy h = true) ->
    (forall a b c d, pair_hash a b = pair_hash c d -> a = c /\ b = d) ->
    (forall a b, seg_hash a = seg_hash b -> a = b) ->
  forall (f : efile) (key : list N), ef_wf f ->
  let c := g_cap H pair_hash empty_leaf block_hash seg_hash UB ueb_hash ser_ueb key f in
  forall (dn : dnode H) (j : Z) (blocks : list (N * list N)) (ord : list Z) (dn' : dnode H) (r : list N + verr),
    node_inv H pair_hash empty_leaf block_hash seg_hash f dn ->
    decode_and_check H H_eqb pair_hash truthy seg_hash dec c dn j blocks ord = (dn', r) ->
    node_inv H pair_hash empty_leaf block_hash seg_hash f dn' /\
    (forall seg, r = inl seg -> 0 <= j < nseg f -> seg = gsegment f j).
Proof.
  intros H H_eqb pair_hash truthy empty_leaf block_hash seg_hash UB ueb_hash dec ser_ueb He Ht Hp Hs f key Hwf c.
  exact (decode_and_check_sound H H_eqb pair_hash truthy empty_leaf block_hash seg_hash UB ueb_hash dec ser_ueb He Ht Hp Hs f key Hwf).
Qed.
Print Assumptions decoded_segment_genuine.

(* The node a download starts from satisfies the invariant. *)
Theorem initial_node_ok :
  forall (H : Type) (pair_hash : H -> H -> H) (empty_leaf : Z -> H) (block_hash seg_hash : list N -> H)
         (UB : Type) (ueb_hash : UB -> H) (ser_ueb : ueb H -> UB) (f : efile) (key : list N),
    node_inv H pair_hash empty_leaf block_hash seg_hash f
             (node_init H (g_cap H pair_hash empty_leaf block_hash seg_hash UB ueb_hash ser_ueb key f)).
Proof. exact node_init_inv. Qed.
Print Assumptions initial_node_ok.

(* The other direction, on a new node: every block of every share the uploader wrote (with an offset
   table that passes Share._satisfy_offsets) is accepted, through all the stages, whatever the
   set.pop() orders.  (The theorems above are therefore not vacuous, and a correct tree is not refused.) *)
Theorem genuine_block_accepted_on_new_node :
  forall (H : Type) (H_eqb : H -> H -> bool) (pair_hash : H -> H -> H) (truthy : H -> bool) (empty_leaf : Z -> H)
         (block_hash seg_hash : list N -> H) (UB : Type) (ueb_hash : UB -> H) (parse_ueb : UB -> option (ueb H))
         (ser_ueb : ueb H -> UB),
    (forall a b, H_eqb a b = true <-> a = b) ->
    (forall h, truthy h = true) ->
    (forall u, parse_ueb (ser_ueb u) = Some u) ->
  forall (f : efile) (key : list N), ef_wf f ->
  let c := g_cap H pair_hash empty_leaf block_hash seg_hash UB ueb_hash ser_ueb key f in
  forall (ver : N) (o : offsets) (i j : Z) (ords : nat -> list Z),
    check_offsets H UB (g_share H pair_hash empty_leaf block_hash seg_hash UB ser_ueb f ver o i) = None ->
    0 <= i < Z.of_N (ef_n f) -> 0 <= j < nseg f ->
    exists dn',
      get_block H H_eqb pair_hash truthy block_hash UB ueb_hash parse_ueb c (node_init H c) i j
                (g_share H pair_hash empty_leaf block_hash seg_hash UB ser_ueb f ver o i) ords
      = (dn', GBlock (gblock f i j)).
Proof.
  intros H H_eqb pair_hash truthy empty_leaf block_hash seg_hash UB ueb_hash parse_ueb ser_ueb He Ht Hps f key Hwf c.
  exact (new_node_accepts_genuine_block H H_eqb pair_hash truthy empty_leaf block_hash seg_hash UB ueb_hash parse_ueb ser_ueb He Ht Hps f key Hwf).
Qed.
Print Assumptions genuine_block_accepted_on_new_node.

(* read(offset, size) of a file encoded with (k, n, segsize): for every plan of shares to try,
   every share content and every pop order, the chunks written to the consumer before the read
   ends concatenate to a prefix of ciphertext[offset : offset+size] (Python slicing), and to all
   of it when the read completes without error. *)
Theorem delivered_prefix :
  forall (H : Type) (H_eqb : H -> H -> bool) (pair_hash : H -> H -> H) (truthy : H -> bool) (empty_leaf : Z -> H)
         (block_hash seg_hash : list N -> H) (UB : Type) (ueb_hash : UB -> H) (parse_ueb : UB -> option (ueb H))
         (dec : N -> N -> list (N * list N) -> list (list N)) (ser_ueb : ueb H -> UB)
         (enc : N -> N -> list (list N) -> list (list N)),
    (forall a b, H_eqb a b = true <-> a = b) ->
    (forall h, truthy h = true) ->
    (forall a b c d, pair_hash a b = pair_hash c d -> a = c /\ b = d) ->
    (forall a b, block_hash a = block_hash b -> a = b) ->
    (forall a b, seg_hash a = seg_hash b -> a = b) ->
    (forall a b, ueb_hash a = ueb_hash b -> a = b) ->
    (forall u, parse_ueb (ser_ueb u) = Some u) ->
  forall (k n segsize guess offset : N) (size : option N) (ct key : list N)
         (script : N -> list (Z * share H UB * (nat -> list Z)) * list Z),
    (1 <= N.of_nat (length ct))%N -> (1 <= k)%N -> (1 <= segsize)%N -> (segsize mod k = 0)%N -> (1 <= guess)%N ->
    let f := encode_file enc k n segsize ct in
    let c := g_cap H pair_hash empty_leaf block_hash seg_hash UB ueb_hash ser_ueb key f in
    exists ws,
      read_plan (N.of_nat (length ct)) segsize guess offset size = SegDone ws /\
      forall chunks res,
        serve H H_eqb pair_hash truthy block_hash seg_hash UB ueb_hash parse_ueb dec c (node_init H c) ws script = (chunks, res) ->
        (exists rest, py_slice ct offset size = concat chunks ++ rest) /\
        (res = None -> concat chunks = py_slice ct offset size).
Proof. exact delivered_prefix_ok. Qed.
Print Assumptions delivered_prefix.

(* ---- the hypotheses are satisfiable and the model runs ------------------------------------------- *)
Example hypotheses_nonvacuous :
  (forall a b, hs_eqb a b = true <-> a = b) /\
  (forall h, sym_truthy h = true) /\
  (forall a b c d, HPair a b = HPair c d -> a = c /\ b = d) /\
  (forall a b, HBlock a = HBlock b -> a = b) /\
  (forall a b, HSeg a = HSeg b -> a = b) /\
  (forall a b, sym_ueb_hash a = sym_ueb_hash b -> a = b) /\
  (forall u, sym_parse_ueb (UbOk u) = Some u).
Proof. exact sym_hypotheses. Qed.

Example ex_file_wellformed : ef_wf f3 /\ ef_wf f1.
Proof. split; [exact f3_wf|exact f1_wf]. Qed.

(* the genuine share 1 of f3 is accepted for segment 2 on a new node *)
Example ex_genuine_block_accepted :
  snd (sym_get_block f3_cap (sym_node_init f3_cap) 1 2 (f3_share 1) no_ord) = GBlock [0%N].
Proof. vm_compute. reflexivity. Qed.

(* share 0's bytes offered as share 1: its chain holds share 1's leaf, and the block hash tree
   does not hang under it *)
Example ex_other_share_number_rejected :
  snd (sym_get_block f3_cap (sym_node_init f3_cap) 1 0 (f3_share 0) no_ord) = GErr (EHash BadHashError).
Proof. vm_compute. reflexivity. Qed.

(* share 1's bytes offered as share 2: its chain does not even hold share 2's leaf
   (set_block_hash_root(None): AssertionError, the Share is abandoned) *)
Example ex_other_share_number_no_leaf :
  snd (sym_get_block f3_cap (sym_node_init f3_cap) 2 0 (f3_share 1) no_ord) = GErr ECrash.
Proof. vm_compute. reflexivity. Qed.

(* a share of another file (f1) under this cap: the UEB hash differs *)
Example ex_other_file_rejected :
  snd (sym_get_block f3_cap (sym_node_init f3_cap) 0 0 (f1_share 0) no_ord) = GErr (EHash BadHashError).
Proof. vm_compute. reflexivity. Qed.

(* a whole read with share 0's blocks corrupted: shares 1 and 2 deliver the file *)
Example ex_download_runs :
  sym_serve f3_dec f3_cap (sym_node_init f3_cap) [mk_write 0 0 2; mk_write 1 0 2; mk_write 2 0 1] f3_script
  = ([[1; 2]; [3; 4]; [5]]%N, None).
Proof. exact f3_download_runs. Qed.

(* with too few good shares nothing is delivered *)
Example ex_download_fails_cleanly :
  sym_serve f3_dec f3_cap (sym_node_init f3_cap) [mk_write 0 0 2; mk_write 1 0 2; mk_write 2 0 1]
            (fun _ => ([(0, f3_bad0, no_ord); (1, f3_share 1, no_ord)], [])) = ([], Some ENotEnoughShares).
Proof. exact f3_download_fails_cleanly. Qed.
