"""Stand-in for the third-party ``collections_extended`` package, which is not
installed in this sandbox.  Only ``RangeMap`` as used by
allmydata.storage.immutable / http_client is provided: half-open integer
ranges mapped to values; adjacent ranges with equal values are merged, as the
real library does.  Part of the verification trusted base (DESIGN.md s.7)."""
from collections import namedtuple

MappedRange = namedtuple("MappedRange", ["start", "stop", "value"])


class RangeMap(object):
    def __init__(self):
        self._r = []  # sorted, disjoint [start, stop, value]

    def _normalise(self):
        out = []
        for s, e, v in sorted(self._r):
            if s >= e:
                continue
            if out and out[-1][1] == s and out[-1][2] == v:
                out[-1][1] = e
            else:
                out.append([s, e, v])
        self._r = out

    def delete(self, start=None, stop=None):
        if start is None:
            start = float("-inf")
        if stop is None:
            stop = float("inf")
        out = []
        for s, e, v in self._r:
            if e <= start or s >= stop:
                out.append([s, e, v])
                continue
            if s < start:
                out.append([s, start, v])
            if e > stop:
                out.append([stop, e, v])
        self._r = out
        self._normalise()

    def set(self, value, start=None, stop=None):
        if start is None or stop is None:
            raise NotImplementedError("shim supports bounded ranges only")
        if start >= stop:
            return
        self.delete(start, stop)
        self._r.append([start, stop, value])
        self._normalise()

    def ranges(self, start=None, stop=None):
        res = []
        for s, e, v in self._r:
            cs = s if start is None else max(s, start)
            ce = e if stop is None else min(e, stop)
            if cs < ce:
                res.append(MappedRange(cs, ce, v))
        return res

    def empty(self):
        return not self._r

    def __len__(self):
        return len(self._r)

    def __iter__(self):
        return iter(self.ranges())

    def __repr__(self):
        return "RangeMap(%r)" % (self.ranges(),)
