def create(*a, **kw):
    raise NotImplementedError("wormhole shim")
