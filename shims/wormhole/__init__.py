"""Stand-in for magic-wormhole (import only)."""
from . import wormhole  # noqa
