"""Stand-in for the third-party ``filelock`` package (import only; the
verification harness never starts a tahoe node process)."""


class Timeout(Exception):
    pass


class FileLock(object):
    def __init__(self, path, timeout=-1):
        self.path = path

    def __enter__(self):
        return self

    def __exit__(self, *a):
        return False
