#!/venv/bin/python
"""Developer aid: run the quick check of every property that has a driver and a Props file
(or the ids given), N at a time, and print one summary line each."""
import concurrent.futures
import glob
import os
import subprocess
import sys
import time

V = os.path.dirname(os.path.dirname(os.path.abspath(__file__)))


def one(pid):
    t = time.time()
    p = subprocess.run(["timeout", "1500", "/venv/bin/python", os.path.join(V, "harness", "check.py"), pid, "--tier", os.environ.get("VERIF_TIER", "quick")],
                       cwd=V, stdout=subprocess.PIPE, stderr=subprocess.STDOUT, text=True)
    lines = [l for l in p.stdout.split("\n") if l.startswith(("VIOLATION", "KNOWN-FINDING", pid + " "))]
    return pid, p.returncode, time.time() - t, lines, p.stdout


def main():
    ids = [a for a in sys.argv[1:] if not a.startswith("-")]
    if not ids:
        ids = sorted(os.path.basename(p)[:-3].upper() for p in glob.glob(os.path.join(V, "harness", "props", "c[0-9][0-9].py"))
                     if os.path.exists(os.path.join(V, "coq", "Props", os.path.basename(p)[:-3].upper() + ".v")))
    jobs = int(os.environ.get("JOBS", "3"))
    with concurrent.futures.ThreadPoolExecutor(max_workers=jobs) as ex:
        for pid, rc, dt, lines, out in ex.map(one, ids):
            print("%s exit=%d %.0fs  %s" % (pid, rc, dt, " | ".join(l[:160] for l in lines[-3:])))
            if rc != 0 and "-v" in sys.argv:
                print(out[-1500:])


if __name__ == "__main__":
    main()
