"""mutable/*.py, nodemaker-free  ->  coq/Gen/MutPins.v

AST fingerprints (docstrings and comments excluded) of the functions whose
decision logic Model/ServerMap.v (C11), Model/TestAndSet.v + Model/SlotAnswer.v
(C12), Model/Serializer.v (C13), Model/MutCheck.v (C14), Model/MutVerify.v (C10)
and Model/Publish.v (C47) transcribe by hand.  Props/C10..C14, C47 each state
the fingerprints their model was written for (theorem model_pins_current), so
an edit of one of these functions breaks that obligation and starts the search
for a failing input; the differential correspondence remains the behavioural tie.
A function that is missing aborts the translator (fail closed).
"""
import ast

from .common import HEADER, TranslatorAbort, dump_hash, emit, read_source

SERVERMAP = "src/allmydata/mutable/servermap.py"
REPAIRER = "src/allmydata/mutable/repairer.py"
CHECKER = "src/allmydata/mutable/checker.py"
PUBLISH = "src/allmydata/mutable/publish.py"
RETRIEVE = "src/allmydata/mutable/retrieve.py"
FILENODE = "src/allmydata/mutable/filenode.py"
SERVER = "src/allmydata/storage/server.py"
LAYOUT = "src/allmydata/mutable/layout.py"

# property -> [(pin name, source, class, function)]
PINS = {
    "C10": [("retrieve_validate_block", RETRIEVE, "Retrieve", "_validate_block"),
            ("retrieve_try_to_validate_prefix", RETRIEVE, "Retrieve", "_try_to_validate_prefix"),
            ("servermap_got_signature_one_share", SERVERMAP, "ServermapUpdater", "_got_signature_one_share"),
            ("servermap_try_to_set_pubkey", SERVERMAP, "ServermapUpdater", "_try_to_set_pubkey"),
            ("servermap_got_results", SERVERMAP, "ServermapUpdater", "_got_results"),
            ("servermap_got_corrupt_share", SERVERMAP, "ServermapUpdater", "_got_corrupt_share"),
            ("filenode_download_best_version", FILENODE, "MutableFileNode", "_download_best_version"),
            ("retrieve_mark_bad_share", RETRIEVE, "Retrieve", "_mark_bad_share")],
    "C11": [("servermap_highest_seqnum", SERVERMAP, "ServerMap", "highest_seqnum"),
            ("servermap_shares_available", SERVERMAP, "ServerMap", "shares_available"),
            ("servermap_recoverable_versions", SERVERMAP, "ServerMap", "recoverable_versions"),
            ("servermap_unrecoverable_versions", SERVERMAP, "ServerMap", "unrecoverable_versions"),
            ("servermap_best_recoverable_version", SERVERMAP, "ServerMap", "best_recoverable_version"),
            ("servermap_unrecoverable_newer_versions", SERVERMAP, "ServerMap", "unrecoverable_newer_versions"),
            ("servermap_check_for_done", SERVERMAP, "ServermapUpdater", "_check_for_done"),
            ("servermap_got_results", SERVERMAP, "ServermapUpdater", "_got_results"),
            ("publish_publish", PUBLISH, "Publish", "publish"),
            ("publish_update", PUBLISH, "Publish", "update")],
    "C12": [("server_slot_testv_and_readv_and_writev", SERVER, "StorageServer", "slot_testv_and_readv_and_writev"),
            ("server_evaluate_test_vectors", SERVER, "StorageServer", "_evaluate_test_vectors"),
            ("server_evaluate_read_vectors", SERVER, "StorageServer", "_evaluate_read_vectors"),
            ("publish_got_write_answer", PUBLISH, "Publish", "_got_write_answer")],
    "C13": [("filenode_do_serialized", FILENODE, "MutableFileNode", "_do_serialized"),
            ("filenode_modify", FILENODE, "MutableFileNode", "modify"),
            ("filenode_overwrite", FILENODE, "MutableFileNode", "overwrite"),
            ("filenode_upload", FILENODE, "MutableFileNode", "upload"),
            ("filenode_get_best_mutable_version", FILENODE, "MutableFileNode", "get_best_mutable_version")],
    "C14": [("servermap_needs_merge", SERVERMAP, "ServerMap", "needs_merge"),
            ("repairer_got_full_servermap", REPAIRER, "Repairer", "_got_full_servermap"),
            ("repairer_start", REPAIRER, "Repairer", "start"),
            ("checker_make_checker_results", CHECKER, "MutableChecker", "_make_checker_results"),
            ("checker_maybe_repair", CHECKER, "MutableCheckAndRepairer", "_maybe_repair")],
    "C47": [("publish_got_write_answer", PUBLISH, "Publish", "_got_write_answer"),
            ("publish_connection_problem", PUBLISH, "Publish", "_connection_problem"),
            ("publish_push", PUBLISH, "Publish", "_push"),
            ("publish_failure", PUBLISH, "Publish", "_failure")],
}


def _find(tree, src, cls, fn):
    cs = [n for n in tree.body if isinstance(n, ast.ClassDef) and n.name == cls]
    if len(cs) != 1:
        raise TranslatorAbort("%s: class %s not found exactly once" % (src, cls))
    fs = [n for n in cs[0].body if isinstance(n, (ast.FunctionDef, ast.AsyncFunctionDef)) and n.name == fn]
    if len(fs) != 1:
        raise TranslatorAbort("%s: %s.%s not found exactly once" % (src, cls, fn))
    return fs[0]


def pins():
    trees = {}
    out = {}
    for pid, lst in sorted(PINS.items()):
        out[pid] = []
        for name, src, cls, fn in lst:
            if src not in trees:
                trees[src] = read_source(src)[1]
            out[pid].append((name, dump_hash(_find(trees[src], src, cls, fn))))
    return out


def generate():
    ps = pins()
    lines = [HEADER % ("mutpins.py", ", ".join(sorted(set(s for l in PINS.values() for (_n, s, _c, _f) in l))))]
    lines.append("From Coq Require Import List String.")
    lines.append("Import ListNotations.\n")
    for pid in sorted(ps):
        lines.append("(* functions hand-modelled for %s *)" % pid)
        lines.append("Definition pins_%s : list (string * string) :=\n  [" % pid + ";\n   ".join(
            '("%s", "%s")%%string' % (n, h) for n, h in ps[pid]) + "].\n")
    emit("MutPins.v", "\n".join(lines))
    return ps


if __name__ == "__main__":
    import json
    print(json.dumps(generate(), indent=1))
