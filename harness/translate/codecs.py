"""util/base32.py, util/base62.py, util/netstring.py, uri.py (pack_extension /
unpack_extension)  ->  coq/Gen/CodecConsts.v

Regenerated on every run: the alphabets, the NUM_QS_* tables of base32, the two
integers of `4-(NUM_QS_TO_NUM_BITS[lenmod8]%5)` in init_s8, the netstring
format literal, the key regex of pack_extension, the integer-valued keys of
unpack_extension, and AST fingerprints of every function that Model/Base32.v,
Model/Base62.v, Model/NetstringCodec.v and Model/Ueb.v mirror by hand.
Fail closed."""
import ast

from .common import HEADER, TranslatorAbort, coq_bytes, coq_string, dump_hash, emit, read_source

B32 = "src/allmydata/util/base32.py"
B62 = "src/allmydata/util/base62.py"
NS = "src/allmydata/util/netstring.py"
URI = "src/allmydata/uri.py"


def top(tree, kind, name, rel):
    for n in tree.body:
        if isinstance(n, kind) and getattr(n, "name", None) == name:
            return n
    raise TranslatorAbort("%s: %s %s not found" % (rel, kind.__name__, name))


def assign(tree, name, rel):
    for n in tree.body:
        if isinstance(n, ast.Assign) and len(n.targets) == 1 and isinstance(n.targets[0], ast.Name) and n.targets[0].id == name:
            return n.value
    raise TranslatorAbort("%s: assignment to %s not found" % (rel, name))


def bytes_const(v, what):
    if isinstance(v, ast.Constant) and isinstance(v.value, bytes):
        return v.value
    raise TranslatorAbort("%s is not a bytes literal" % what)


def int_tuple(v, what):
    if isinstance(v, ast.Tuple) and all(isinstance(e, ast.Constant) and isinstance(e.value, int) and not isinstance(e.value, bool) and e.value >= 0 for e in v.elts):
        return [e.value for e in v.elts]
    raise TranslatorAbort("%s is not a tuple of non-negative integer literals" % what)


def pins(out, tree, rel, prefix, names):
    for n in names:
        out.append('Definition pin_%s_%s : string := "%s"%%string.\n' % (prefix, ("priv" + n) if n.startswith("_") else n, dump_hash(top(tree, ast.FunctionDef, n, rel))))


def generate():
    out = []
    # ---- base32 -----------------------------------------------------------------
    _, t = read_source(B32)
    out.append("(* ---- %s ---- *)\n" % B32)
    alpha = bytes_const(assign(t, "rfc3548_alphabet", B32), "base32.rfc3548_alphabet")
    ch = assign(t, "chars", B32)
    if not (isinstance(ch, ast.Name) and ch.id == "rfc3548_alphabet"):
        raise TranslatorAbort("base32.chars is not rfc3548_alphabet")
    out.append("Definition base32_chars : list N := %s.\n" % coq_bytes(alpha))
    out.append("Definition base32_NUM_QS_TO_NUM_OS : list N := [%s].\n" % "; ".join(map(str, int_tuple(assign(t, "NUM_QS_TO_NUM_OS", B32), "NUM_QS_TO_NUM_OS"))))
    out.append("Definition base32_NUM_QS_LEGIT : list N := [%s].\n" % "; ".join(map(str, int_tuple(assign(t, "NUM_QS_LEGIT", B32), "NUM_QS_LEGIT"))))
    # NUM_QS_TO_NUM_BITS = tuple([_x*8 for _x in NUM_QS_TO_NUM_OS])
    nb = assign(t, "NUM_QS_TO_NUM_BITS", B32)
    ok = (isinstance(nb, ast.Call) and isinstance(nb.func, ast.Name) and nb.func.id == "tuple" and len(nb.args) == 1
          and isinstance(nb.args[0], ast.ListComp) and isinstance(nb.args[0].elt, ast.BinOp) and isinstance(nb.args[0].elt.op, ast.Mult)
          and isinstance(nb.args[0].elt.right, ast.Constant) and isinstance(nb.args[0].generators[0].iter, ast.Name)
          and nb.args[0].generators[0].iter.id == "NUM_QS_TO_NUM_OS")
    if not ok:
        raise TranslatorAbort("base32.NUM_QS_TO_NUM_BITS has an unexpected form")
    out.append("Definition base32_bits_per_octet : N := %d.\n" % nb.args[0].elt.right.value)
    # init_s8: add_check_array(get_trailing_chars_without_lsbs(A-(NUM_QS_TO_NUM_BITS[lenmod8]%B)), s8)
    init = top(t, ast.FunctionDef, "init_s8", B32)
    found = None
    for n in ast.walk(init):
        if isinstance(n, ast.BinOp) and isinstance(n.op, ast.Sub) and isinstance(n.left, ast.Constant) and isinstance(n.right, ast.BinOp) \
                and isinstance(n.right.op, ast.Mod) and isinstance(n.right.right, ast.Constant) and isinstance(n.right.left, ast.Subscript):
            if found is not None:
                raise TranslatorAbort("base32.init_s8: more than one lsb expression")
            found = (n.left.value, n.right.right.value)
    if found is None:
        raise TranslatorAbort("base32.init_s8: lsb expression not found")
    out.append("Definition base32_s8_lsb_minuend : N := %d.\n" % found[0])
    out.append("Definition base32_s8_lsb_modulus : N := %d.\n" % found[1])
    pins(out, t, B32, "base32", ["_get_trailing_chars_without_lsbs", "get_trailing_chars_without_lsbs", "b2a", "add_check_array", "init_s8", "could_be_base32_encoded", "a2b"])
    # ---- base62 -----------------------------------------------------------------
    _, t = read_source(B62)
    out.append("(* ---- %s ---- *)\n" % B62)
    out.append("Definition base62_chars : list N := %s.\n" % coq_bytes(bytes_const(assign(t, "chars", B62), "base62.chars")))
    pins(out, t, B62, "base62", ["b2a", "b2a_l", "num_octets_that_encode_to_this_many_chars", "a2b", "a2b_l"])
    # the translation tables are built from chars/vals by maketrans: pin those three assignments
    for name in ("vals", "c2vtranstable", "v2ctranstable"):
        out.append('Definition pin_base62_%s : string := "%s"%%string.\n' % (name, dump_hash(assign(t, name, B62))))
    # ---- netstring --------------------------------------------------------------
    _, t = read_source(NS)
    out.append("(* ---- %s ---- *)\n" % NS)
    fn = top(t, ast.FunctionDef, "netstring", NS)
    fmt = None
    for n in ast.walk(fn):
        if isinstance(n, ast.Return) and isinstance(n.value, ast.BinOp) and isinstance(n.value.op, ast.Mod):
            fmt = bytes_const(n.value.left, "netstring format")
    if fmt is None:
        raise TranslatorAbort("netstring.netstring: format literal not found")
    out.append("Definition netstring_format : list N := %s.\n" % coq_bytes(fmt))
    pins(out, t, NS, "netstring", ["netstring", "split_netstring"])
    # ---- uri.pack_extension / unpack_extension ----------------------------------
    _, t = read_source(URI)
    out.append("(* ---- %s ---- *)\n" % URI)
    pk = top(t, ast.FunctionDef, "pack_extension", URI)
    rx = None
    for n in ast.walk(pk):
        if isinstance(n, ast.Call) and isinstance(n.func, ast.Attribute) and n.func.attr == "match" and n.args and isinstance(n.args[0], ast.Constant):
            rx = bytes_const(n.args[0], "pack_extension key regex")
    if rx is None:
        raise TranslatorAbort("uri.pack_extension: key regex not found")
    out.append("Definition ueb_key_regex : list N := %s.\n" % coq_bytes(rx))
    un = top(t, ast.FunctionDef, "unpack_extension", URI)
    keys = None
    for n in ast.walk(un):
        if isinstance(n, ast.For) and isinstance(n.iter, ast.Tuple) and all(isinstance(e, ast.Constant) and isinstance(e.value, str) for e in n.iter.elts):
            keys = [e.value for e in n.iter.elts]
    if keys is None:
        raise TranslatorAbort("uri.unpack_extension: integer key tuple not found")
    out.append("Definition ueb_int_keys : list (list N) := [%s].\n" % "; ".join(coq_bytes(k.encode("utf-8")) for k in keys))
    pins(out, t, URI, "uri", ["pack_extension", "unpack_extension"])
    body = (HEADER % ("codecs.py", ", ".join([B32, B62, NS, URI]))
            + "From Coq Require Import List NArith Bool String.\n"
            + "From Verif Require Import Lib.Hex.\n"
            + "Import ListNotations.\nLocal Open Scope string_scope.\nLocal Open Scope N_scope.\n\n"
            + "\n".join(out))
    emit("CodecConsts.v", body)
    return body


if __name__ == "__main__":
    print(generate())
