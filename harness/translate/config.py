"""src/allmydata/util/time_format.py + src/allmydata/util/abbreviate.py  ->  coq/Gen/Config.v

Extracted as data (so the model's tables ARE the source's):
  * ParseDurationUnitFormat members and, through parse_duration's local
    constants and `time_map`, the (unit spelling, seconds) table;
  * the regex template / flags of parse_duration, the regex / flags of
    parse_date's `_date_re` and of parse_abbreviated_size, as strings;
  * parse_abbreviated_size's multiplier dict;
  * abbreviate_space's small-size limit, the two unit bases, the suffixes, the
    format strings and the ladder of (threshold power, divisor power, prefix).
Pinned (AST fingerprint, compared by theorem `pins` in Props/C48.v; Model/Config.v
was written for exactly these bodies): ParseDurationUnitFormat, parse_duration,
parse_date, iso_utc_time_to_seconds, parse_abbreviated_size, abbreviate_space.
Anything that does not have the expected shape aborts."""
import ast

from .common import HEADER, TranslatorAbort, coq_bytes, coq_string, dump_hash, emit, read_source

SRC_TIME = "src/allmydata/util/time_format.py"
SRC_ABBR = "src/allmydata/util/abbreviate.py"


def _pin(node):
    """Fingerprint of a function body with the *messages* of raised exceptions blanked
    (the exception class stays): rewording an error text does not change behaviour
    the model describes."""
    import copy
    node = copy.deepcopy(node)
    for n in ast.walk(node):
        if isinstance(n, ast.Raise) and isinstance(n.exc, ast.Call):
            n.exc.args = []
            n.exc.keywords = []
    return dump_hash(node)


def _fn(tree, name, kind=ast.FunctionDef):
    for st in tree.body:
        if isinstance(st, kind) and st.name == name:
            return st
    raise TranslatorAbort("%s not found" % name)


def _const_int(e, env, where):
    """Integer constant expression over +,*,** of literals and earlier names."""
    if isinstance(e, ast.Constant) and isinstance(e.value, int) and not isinstance(e.value, bool):
        return e.value
    if isinstance(e, ast.Name) and e.id in env:
        return env[e.id]
    if isinstance(e, ast.BinOp) and isinstance(e.op, (ast.Mult, ast.Add, ast.Pow)):
        a, b = _const_int(e.left, env, where), _const_int(e.right, env, where)
        if isinstance(e.op, ast.Mult):
            return a * b
        if isinstance(e.op, ast.Add):
            return a + b
        if b > 64:
            raise TranslatorAbort("%s: exponent too large" % where)
        return a ** b
    raise TranslatorAbort("%s: not a constant integer expression: %s" % (where, ast.dump(e)[:100]))


def _re_flags(e, where):
    """re.X | re.Y ... -> ["X", "Y"] (sorted, canonical long names)."""
    long = {"I": "IGNORECASE", "A": "ASCII", "IGNORECASE": "IGNORECASE", "ASCII": "ASCII"}
    if isinstance(e, ast.BinOp) and isinstance(e.op, ast.BitOr):
        return sorted(set(_re_flags(e.left, where) + _re_flags(e.right, where)))
    if isinstance(e, ast.Attribute) and isinstance(e.value, ast.Name) and e.value.id == "re" and e.attr in long:
        return [long[e.attr]]
    raise TranslatorAbort("%s: unsupported regex flags %s" % (where, ast.dump(e)[:100]))


def _str(e, where):
    if isinstance(e, ast.Constant) and isinstance(e.value, str):
        return e.value
    raise TranslatorAbort("%s: expected a string literal" % where)


def _is_call(e, mod, attr):
    return (isinstance(e, ast.Call) and isinstance(e.func, ast.Attribute) and e.func.attr == attr
            and isinstance(e.func.value, ast.Name) and e.func.value.id == mod)


# ---- time_format.py ----------------------------------------------------------
def duration(tree):
    cls = _fn(tree, "ParseDurationUnitFormat", ast.ClassDef)
    members = []
    for st in cls.body:
        if isinstance(st, ast.Assign) and len(st.targets) == 1 and isinstance(st.targets[0], ast.Name):
            members.append((st.targets[0].id, _str(st.value, "ParseDurationUnitFormat." + st.targets[0].id)))
        elif isinstance(st, ast.FunctionDef) and st.name == "list_values":
            continue
        elif isinstance(st, ast.Expr) and isinstance(st.value, ast.Constant):
            continue
        else:
            raise TranslatorAbort("ParseDurationUnitFormat: unexpected member %s" % ast.dump(st)[:80])
    if not members:
        raise TranslatorAbort("ParseDurationUnitFormat has no members")
    fn = _fn(tree, "parse_duration")
    env = {}
    time_map = None
    template = None
    flags = None
    for st in ast.walk(fn):
        if isinstance(st, ast.Assign) and len(st.targets) == 1 and isinstance(st.targets[0], ast.Name):
            name, v = st.targets[0].id, st.value
            if name == "time_map":
                if not isinstance(v, ast.Dict):
                    raise TranslatorAbort("parse_duration: time_map is not a dict literal")
                time_map = {}
                for k, val in zip(v.keys, v.values):
                    if not (isinstance(k, ast.Attribute) and isinstance(k.value, ast.Name) and k.value.id == "ParseDurationUnitFormat"):
                        raise TranslatorAbort("parse_duration: time_map key %s" % ast.dump(k)[:80])
                    if k.attr in time_map:
                        raise TranslatorAbort("parse_duration: duplicate time_map key " + k.attr)
                    time_map[k.attr] = _const_int(val, env, "time_map[%s]" % k.attr)
            elif name == "pattern":
                if not isinstance(v, ast.JoinedStr):
                    raise TranslatorAbort("parse_duration: pattern is not an f-string")
                parts = []
                for p in v.values:
                    if isinstance(p, ast.Constant) and isinstance(p.value, str):
                        parts.append(p.value)
                    elif (isinstance(p, ast.FormattedValue) and isinstance(p.value, ast.Name) and p.value.id == "unit_pattern"
                          and p.conversion == -1 and p.format_spec is None):
                        parts.append("{unit_pattern}")
                    else:
                        raise TranslatorAbort("parse_duration: unexpected f-string part")
                template = "".join(parts)
            elif name == "match":
                if not (_is_call(v, "re", "match") and len(v.args) == 3 and not v.keywords
                        and isinstance(v.args[0], ast.Name) and v.args[0].id == "pattern"
                        and isinstance(v.args[1], ast.Name) and v.args[1].id == "s"):
                    raise TranslatorAbort("parse_duration: unexpected re.match call")
                flags = _re_flags(v.args[2], "parse_duration")
            elif name in ("unit_pattern", "valid_units", "number", "unit"):
                continue
            else:
                env[name] = _const_int(v, env, "parse_duration." + name)
    if time_map is None or template is None or flags is None:
        raise TranslatorAbort("parse_duration: time_map / pattern / re.match not found")
    table = []
    for name, spelling in members:          # enum order = alternation order in the regex
        if name not in time_map:
            table.append((spelling, None))  # would be a KeyError at run time
        else:
            table.append((spelling, time_map[name]))
    for name in time_map:
        if name not in dict(members):
            raise TranslatorAbort("parse_duration: time_map key %s is not an enum member" % name)
    for spelling, _ in table:
        if not (spelling and all("a" <= c <= "z" for c in spelling)):
            # re.escape is the identity exactly on these; the model assumes lower-case ASCII letters
            raise TranslatorAbort("unit spelling %r is not lower-case ASCII letters" % spelling)
    return table, template, flags, env


def date(tree):
    fn = _fn(tree, "parse_date")
    if [a.arg for a in fn.args.args] != ["s", "_date_re"] or len(fn.args.defaults) != 1:
        raise TranslatorAbort("parse_date: unexpected signature")
    d = fn.args.defaults[0]
    if not (_is_call(d, "re", "compile") and len(d.args) == 2 and not d.keywords):
        raise TranslatorAbort("parse_date: _date_re default is not re.compile(regex, flags)")
    how = None
    for n in ast.walk(fn):
        if isinstance(n, ast.Call) and isinstance(n.func, ast.Attribute) and isinstance(n.func.value, ast.Name) and n.func.value.id == "_date_re":
            if how is not None:
                raise TranslatorAbort("parse_date: _date_re used twice")
            how = n.func.attr
    if how is None:
        raise TranslatorAbort("parse_date: _date_re unused")
    return _str(d.args[0], "parse_date regex"), _re_flags(d.args[1], "parse_date"), how


# ---- abbreviate.py -----------------------------------------------------------
def size(tree):
    fn = _fn(tree, "parse_abbreviated_size")
    regex = flags = table = None
    for n in ast.walk(fn):
        if _is_call(n, "re", "match"):
            if regex is not None:
                raise TranslatorAbort("parse_abbreviated_size: two re.match calls")
            if not (len(n.args) == 3 and not n.keywords and isinstance(n.args[1], ast.Name) and n.args[1].id == "s"):
                raise TranslatorAbort("parse_abbreviated_size: unexpected re.match call")
            regex = _str(n.args[0], "parse_abbreviated_size regex")
            flags = _re_flags(n.args[2], "parse_abbreviated_size")
        if isinstance(n, ast.Dict):
            if table is not None:
                raise TranslatorAbort("parse_abbreviated_size: two dict literals")
            table = []
            for k, v in zip(n.keys, n.values):
                key = _str(k, "multiplier key")
                if key in dict(table):
                    raise TranslatorAbort("duplicate multiplier key %r" % key)
                table.append((key, _const_int(v, {}, "multiplier[%r]" % key)))
    if regex is None or table is None:
        raise TranslatorAbort("parse_abbreviated_size: regex / multiplier dict not found")
    return regex, flags, table


def _upower(e, where):
    """U, U*U, U*U*U ... (optionally parenthesised) -> exponent."""
    if isinstance(e, ast.Name) and e.id == "U":
        return 1
    if isinstance(e, ast.BinOp) and isinstance(e.op, ast.Mult):
        return _upower(e.left, where) + _upower(e.right, where)
    raise TranslatorAbort("%s: not a power of U: %s" % (where, ast.dump(e)[:80]))


def _r_call(e, where):
    """r(s/<U-power>, "<prefix>") -> (power, prefix)."""
    if not (isinstance(e, ast.Call) and isinstance(e.func, ast.Name) and e.func.id == "r" and len(e.args) == 2 and not e.keywords):
        raise TranslatorAbort("%s: expected r(s/U.., prefix)" % where)
    q = e.args[0]
    if not (isinstance(q, ast.BinOp) and isinstance(q.op, ast.Div) and isinstance(q.left, ast.Name) and q.left.id == "s"):
        raise TranslatorAbort("%s: expected s/U.." % where)
    return _upower(q.right, where), _str(e.args[1], where)


def space(tree):
    fn = _fn(tree, "abbreviate_space")
    if [a.arg for a in fn.args.args] != ["s", "SI"] or not (len(fn.args.defaults) == 1 and isinstance(fn.args.defaults[0], ast.Constant) and fn.args.defaults[0].value is True):
        raise TranslatorAbort("abbreviate_space: unexpected signature")
    out = {"steps": []}
    body = [st for st in fn.body if not (isinstance(st, ast.Expr) and isinstance(st.value, ast.Constant))]
    # if s is None: return "unknown"
    st = body.pop(0)
    if not (isinstance(st, ast.If) and isinstance(st.test, ast.Compare) and isinstance(st.test.ops[0], ast.Is)):
        raise TranslatorAbort("abbreviate_space: expected the None test first")
    # if SI: U = 1000.0; isuffix = "B" else: U = 1024.0; isuffix = "iB"
    st = body.pop(0)
    if not (isinstance(st, ast.If) and isinstance(st.test, ast.Name) and st.test.id == "SI" and len(st.body) == 2 and len(st.orelse) == 2):
        raise TranslatorAbort("abbreviate_space: expected the SI switch")
    for tag, branch in (("si", st.body), ("bin", st.orelse)):
        vals = {}
        for a in branch:
            if not (isinstance(a, ast.Assign) and len(a.targets) == 1 and isinstance(a.targets[0], ast.Name) and isinstance(a.value, ast.Constant)):
                raise TranslatorAbort("abbreviate_space: unexpected statement in the SI switch")
            vals[a.targets[0].id] = a.value.value
        if set(vals) != {"U", "isuffix"} or not isinstance(vals["U"], float) or vals["U"] != int(vals["U"]) or not isinstance(vals["isuffix"], str):
            raise TranslatorAbort("abbreviate_space: SI switch must set U (integral float) and isuffix")
        out["U_" + tag] = int(vals["U"])
        out["isuffix_" + tag] = vals["isuffix"]
    # def r(count, suffix): return "%.2f %s%s" % (count, suffix, isuffix)
    st = body.pop(0)
    if not (isinstance(st, ast.FunctionDef) and st.name == "r" and len(st.body) == 1 and isinstance(st.body[0], ast.Return)):
        raise TranslatorAbort("abbreviate_space: expected helper r")
    rv = st.body[0].value
    if not (isinstance(rv, ast.BinOp) and isinstance(rv.op, ast.Mod) and isinstance(rv.right, ast.Tuple)
            and [getattr(e, "id", None) for e in rv.right.elts] == ["count", "suffix", "isuffix"]):
        raise TranslatorAbort("abbreviate_space: helper r has an unexpected body")
    out["fmt_r"] = _str(rv.left, "r format")
    # if s < 1024: return "%d B" % s
    st = body.pop(0)
    if not (isinstance(st, ast.If) and isinstance(st.test, ast.Compare) and len(st.test.ops) == 1 and isinstance(st.test.ops[0], ast.Lt)
            and isinstance(st.test.left, ast.Name) and st.test.left.id == "s" and not st.orelse and len(st.body) == 1 and isinstance(st.body[0], ast.Return)):
        raise TranslatorAbort("abbreviate_space: expected the small-size test")
    out["small_limit"] = _const_int(st.test.comparators[0], {}, "small-size limit")
    rv = st.body[0].value
    if not (isinstance(rv, ast.BinOp) and isinstance(rv.op, ast.Mod) and isinstance(rv.right, ast.Name) and rv.right.id == "s"):
        raise TranslatorAbort("abbreviate_space: small-size return")
    out["fmt_small"] = _str(rv.left, "small format")
    # ladder
    while body:
        st = body.pop(0)
        if isinstance(st, ast.If):
            if not (isinstance(st.test, ast.Compare) and len(st.test.ops) == 1 and isinstance(st.test.ops[0], ast.Lt)
                    and isinstance(st.test.left, ast.Name) and st.test.left.id == "s" and not st.orelse
                    and len(st.body) == 1 and isinstance(st.body[0], ast.Return)):
                raise TranslatorAbort("abbreviate_space: unexpected ladder step")
            tp = _upower(st.test.comparators[0], "ladder threshold")
            dp, prefix = _r_call(st.body[0].value, "ladder return")
            out["steps"].append((tp, dp, prefix))
        elif isinstance(st, ast.Return) and not body:
            out["last"] = _r_call(st.value, "final return")
        else:
            raise TranslatorAbort("abbreviate_space: unexpected statement %s" % ast.dump(st)[:80])
    if "last" not in out or not out["steps"]:
        raise TranslatorAbort("abbreviate_space: ladder incomplete")
    return out


def _pairs(items, val):
    return "[" + "; ".join("(%s, %s)" % (coq_bytes(k.encode("ascii")), val(v)) for k, v in items) + "]"


def generate():
    _, ttree = read_source(SRC_TIME)
    _, atree = read_source(SRC_ABBR)
    table, template, dflags, denv = duration(ttree)
    dregex, dateflags, datehow = date(ttree)
    sregex, sflags, stable = size(atree)
    sp = space(atree)
    pins = {
        "ParseDurationUnitFormat": _pin(_fn(ttree, "ParseDurationUnitFormat", ast.ClassDef)),
        "parse_duration": _pin(_fn(ttree, "parse_duration")),
        "parse_date": _pin(_fn(ttree, "parse_date")),
        "iso_utc_time_to_seconds": _pin(_fn(ttree, "iso_utc_time_to_seconds")),
        "parse_abbreviated_size": _pin(_fn(atree, "parse_abbreviated_size")),
        "abbreviate_space": _pin(_fn(atree, "abbreviate_space")),
    }
    o = []
    o.append(HEADER % ("config.py", SRC_TIME + " and " + SRC_ABBR))
    o.append("From Coq Require Import List NArith Bool String.\nFrom Verif Require Import Lib.Hex.\nImport ListNotations.\nLocal Open Scope N_scope.\n\n")
    o.append("(* AST fingerprints of the hand-modelled function bodies (Model/Config.v was written for these) *)\n")
    for k, v in sorted(pins.items()):
        o.append('Definition pin_%s : string := "%s"%%string.\n' % (k, v))
    o.append("\n(* parse_duration: ParseDurationUnitFormat spellings in enum (= regex alternation) order with\n"
             "   time_map's value in seconds; None = the enum member is missing from time_map (KeyError) *)\n")
    o.append("Definition duration_units : list (list N * option N) :=\n  [%s].\n" % ";\n   ".join(
        "(%s, %s)" % (coq_bytes(k.encode("ascii")), "None" if v is None else "Some %d" % v) for k, v in table))
    o.append("Definition duration_regex_template : string := %s%%string.\n" % coq_string(template))
    o.append("Definition duration_regex_flags : string := %s%%string.\n" % coq_string("|".join(dflags)))
    o.append("\n(* parse_date *)\n")
    o.append("Definition date_regex : string := %s%%string.\n" % coq_string(dregex))
    o.append("Definition date_regex_flags : string := %s%%string.\n" % coq_string("|".join(dateflags)))
    o.append("Definition date_regex_method : string := %s%%string.\n" % coq_string(datehow))
    o.append("\n(* parse_abbreviated_size *)\n")
    o.append("Definition size_regex : string := %s%%string.\n" % coq_string(sregex))
    o.append("Definition size_regex_flags : string := %s%%string.\n" % coq_string("|".join(sflags)))
    o.append("Definition size_multipliers : list (list N * N) :=\n  %s.\n" % _pairs(stable, lambda v: "%d" % v))
    o.append("\n(* abbreviate_space *)\n")
    o.append("Definition abbrev_small_limit : N := %d.\n" % sp["small_limit"])
    o.append("Definition abbrev_fmt_small : string := %s%%string.\n" % coq_string(sp["fmt_small"]))
    o.append("Definition abbrev_fmt_r : string := %s%%string.\n" % coq_string(sp["fmt_r"]))
    o.append("Definition abbrev_U_si : N := %d.\nDefinition abbrev_U_bin : N := %d.\n" % (sp["U_si"], sp["U_bin"]))
    o.append("Definition abbrev_isuffix_si : list N := %s.\nDefinition abbrev_isuffix_bin : list N := %s.\n" % (
        coq_bytes(sp["isuffix_si"].encode("ascii")), coq_bytes(sp["isuffix_bin"].encode("ascii"))))
    o.append("(* ladder: (k, j, prefix) means  if s < U^k: return r(s / U^j, prefix) *)\n")
    o.append("Definition abbrev_steps : list (N * N * list N) :=\n  [%s].\n" % "; ".join(
        "(%d, %d, %s)" % (tp, dp, coq_bytes(p.encode("ascii"))) for tp, dp, p in sp["steps"]))
    o.append("Definition abbrev_last : N * list N := (%d, %s).\n" % (sp["last"][0], coq_bytes(sp["last"][1].encode("ascii"))))
    emit("Config.v", "".join(o))
    return {"duration": table, "size": stable, "space": sp, "pins": pins}


if __name__ == "__main__":
    print(generate())
