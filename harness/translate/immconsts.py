"""Immutable-file constants and layout tables  ->  coq/Gen/ImmConsts.v

Translated (fail closed, every shape is checked):
  interfaces.py   HASH_SIZE, DEFAULT_IMMUTABLE_MAX_SEGMENT_SIZE (integer constant expressions)
  client.py       _Client.DEFAULT_ENCODING_PARAMETERS  k / happy / n
  upload.py       Uploader.URI_LIT_SIZE_THRESHOLD, BLOCKSIZE of FileHandle._get_encryption_key_convergent,
                  EncryptAnUploadable.CHUNKSIZE
  layout.py       WriteBucketProxy / WriteBucketProxy_v2: fieldsize, fieldstruct and, from the two
                  `_create_offsets` bodies, the size limit, the header size (initial x), the ordered
                  table of (section name, size attribute) and the struct format + field order of the
                  header; ReadBucketProxy._fetch_header read size
Pinned by AST fingerprint (hand-modelled in Model/ImmFile.v, Model/Codec.v, Model/Convergence.v):
  the functions listed in PINS.  The expected fingerprints are stated in Props/C01.v, C36.v, C05.v.
"""
import ast

from .common import HEADER, TranslatorAbort, coq_string, dump_hash, emit, read_source

PINS = [
    ("src/allmydata/immutable/upload.py", "BaseUploadable.get_all_encoding_parameters"),
    ("src/allmydata/immutable/upload.py", "FileHandle._get_encryption_key_convergent"),
    ("src/allmydata/immutable/upload.py", "FileHandle._get_encryption_key_random"),
    ("src/allmydata/immutable/upload.py", "FileHandle.get_encryption_key"),
    ("src/allmydata/immutable/upload.py", "Uploader.upload"),
    ("src/allmydata/immutable/upload.py", "LiteralUploader.start"),
    ("src/allmydata/immutable/upload.py", "EncryptAnUploadable._read_encrypted"),
    ("src/allmydata/immutable/upload.py", "EncryptAnUploadable._hash_and_encrypt_plaintext"),
    ("src/allmydata/immutable/encode.py", "Encoder._got_all_encoding_parameters"),
    ("src/allmydata/immutable/encode.py", "Encoder._encode_segment"),
    ("src/allmydata/immutable/encode.py", "Encoder._gather_data"),
    ("src/allmydata/immutable/encode.py", "Encoder._get_share_size"),
    ("src/allmydata/immutable/layout.py", "WriteBucketProxy.__init__"),
    ("src/allmydata/immutable/layout.py", "WriteBucketProxy.get_allocated_size"),
    ("src/allmydata/immutable/layout.py", "WriteBucketProxy.put_block"),
    ("src/allmydata/immutable/layout.py", "make_write_bucket_proxy"),
    ("src/allmydata/immutable/downloader/node.py", "DownloadNode._build_guessed_tables"),
    ("src/allmydata/immutable/downloader/node.py", "DownloadNode._calculate_sizes"),
    ("src/allmydata/immutable/downloader/node.py", "DownloadNode._decode_blocks"),
    ("src/allmydata/immutable/downloader/node.py", "DownloadNode.read"),
    ("src/allmydata/immutable/downloader/segmentation.py", "Segmentation._fetch_next"),
    ("src/allmydata/immutable/downloader/segmentation.py", "Segmentation._got_segment"),
    ("src/allmydata/immutable/filenode.py", "DecryptingConsumer.__init__"),
    ("src/allmydata/immutable/filenode.py", "DecryptingConsumer.write"),
    ("src/allmydata/util/spans.py", "overlap"),
    ("src/allmydata/codec.py", "CRSEncoder.set_params"),
    ("src/allmydata/codec.py", "CRSEncoder.encode"),
    ("src/allmydata/codec.py", "CRSDecoder.set_params"),
    ("src/allmydata/codec.py", "CRSDecoder.decode"),
]

_cache = {}


def _tree(rel):
    if rel not in _cache:
        _cache[rel] = read_source(rel)[1]
    return _cache[rel]


def find(rel, dotted):
    node = _tree(rel)
    for part in dotted.split("."):
        body = node.body
        found = [n for n in body if isinstance(n, (ast.FunctionDef, ast.AsyncFunctionDef, ast.ClassDef)) and n.name == part]
        if len(found) != 1:
            raise TranslatorAbort("%s: expected exactly one definition of %s, found %d" % (rel, dotted, len(found)))
        node = found[0]
    return node


def const_int(e, what, env=None):
    """Integer constant expression: literals, + - * ** //, names from env."""
    env = env or {}
    if isinstance(e, ast.Constant) and isinstance(e.value, int) and not isinstance(e.value, bool):
        return e.value
    if isinstance(e, ast.Name) and e.id in env:
        return env[e.id]
    if isinstance(e, ast.BinOp):
        a = const_int(e.left, what, env)
        b = const_int(e.right, what, env)
        if isinstance(e.op, ast.Add):
            return a + b
        if isinstance(e.op, ast.Sub):
            return a - b
        if isinstance(e.op, ast.Mult):
            return a * b
        if isinstance(e.op, ast.Pow) and 0 <= b <= 128:
            return a ** b
    raise TranslatorAbort("%s: not an integer constant expression: %s" % (what, ast.dump(e)[:100]))


def module_int(rel, name):
    hits = [st for st in _tree(rel).body if isinstance(st, ast.Assign) and len(st.targets) == 1
            and isinstance(st.targets[0], ast.Name) and st.targets[0].id == name]
    if len(hits) != 1:
        raise TranslatorAbort("%s: expected one module-level assignment of %s" % (rel, name))
    v = const_int(hits[0].value, name)
    if v < 0:
        raise TranslatorAbort("%s negative" % name)
    return v


def class_attr(rel, cls, name):
    c = find(rel, cls)
    hits = [st for st in c.body if isinstance(st, ast.Assign) and len(st.targets) == 1
            and isinstance(st.targets[0], ast.Name) and st.targets[0].id == name]
    if len(hits) != 1:
        raise TranslatorAbort("%s: expected one assignment of %s.%s" % (rel, cls, name))
    return hits[0].value


def local_int(rel, fn, name):
    f = find(rel, fn)
    hits = [st for st in ast.walk(f) if isinstance(st, ast.Assign) and len(st.targets) == 1
            and isinstance(st.targets[0], ast.Name) and st.targets[0].id == name]
    if len(hits) != 1:
        raise TranslatorAbort("%s: expected one assignment of %s in %s" % (rel, name, fn))
    return const_int(hits[0].value, name)


def offsets_table(cls):
    """Shape of _create_offsets:
         if block_size >= L or data_size >= L: raise FileTooLargeError(...)
         offsets = self._offsets = {}
         x = H
         offsets['name'] = x ; x += <size>   (repeated; the last has no increment)
         if x >= L: raise FileTooLargeError(...)
         offset_data = struct.pack(FMT, VERSION, block_size, data_size, offsets[...]...)
         assert len(offset_data) == H
         self._offset_data = offset_data"""
    rel = "src/allmydata/immutable/layout.py"
    f = find(rel, cls + "._create_offsets")
    if [a.arg for a in f.args.args] != ["self", "block_size", "data_size"]:
        raise TranslatorAbort("%s._create_offsets signature" % cls)
    body = list(f.body)

    def limit_test(st, names):
        if not (isinstance(st, ast.If) and not st.orelse and len(st.body) == 1 and isinstance(st.body[0], ast.Raise)):
            raise TranslatorAbort("%s: expected `if ...: raise`" % cls)
        exc = st.body[0].exc
        if not (isinstance(exc, ast.Call) and isinstance(exc.func, ast.Name) and exc.func.id == "FileTooLargeError"):
            raise TranslatorAbort("%s: expected FileTooLargeError" % cls)
        t = st.test
        comps = t.values if isinstance(t, ast.BoolOp) and isinstance(t.op, ast.Or) else [t]
        seen = []
        lim = None
        for c in comps:
            if not (isinstance(c, ast.Compare) and len(c.ops) == 1 and isinstance(c.ops[0], ast.GtE) and isinstance(c.left, ast.Name)):
                raise TranslatorAbort("%s: limit test shape" % cls)
            seen.append(c.left.id)
            v = const_int(c.comparators[0], "limit")
            if lim is not None and v != lim:
                raise TranslatorAbort("%s: different limits" % cls)
            lim = v
        if seen != names:
            raise TranslatorAbort("%s: limit test on %r, expected %r" % (cls, seen, names))
        return lim

    lim1 = limit_test(body.pop(0), ["block_size", "data_size"])
    st = body.pop(0)
    if not (isinstance(st, ast.Assign) and isinstance(st.value, ast.Dict) and not st.value.keys):
        raise TranslatorAbort("%s: expected offsets = self._offsets = {}" % cls)
    st = body.pop(0)
    if not (isinstance(st, ast.Assign) and isinstance(st.targets[0], ast.Name) and st.targets[0].id == "x"):
        raise TranslatorAbort("%s: expected x = <header size>" % cls)
    header = const_int(st.value, "header size")
    sections = []
    while body and isinstance(body[0], ast.Assign) and isinstance(body[0].targets[0], ast.Subscript):
        st = body.pop(0)
        tgt = st.targets[0]
        if not (isinstance(tgt.value, ast.Name) and tgt.value.id == "offsets" and isinstance(tgt.slice, ast.Constant)
                and isinstance(tgt.slice.value, str) and isinstance(st.value, ast.Name) and st.value.id == "x"):
            raise TranslatorAbort("%s: expected offsets['name'] = x" % cls)
        name = tgt.slice.value
        size = ""
        if body and isinstance(body[0], ast.AugAssign):
            inc = body.pop(0)
            if not (isinstance(inc.op, ast.Add) and isinstance(inc.target, ast.Name) and inc.target.id == "x"):
                raise TranslatorAbort("%s: expected x += size" % cls)
            if isinstance(inc.value, ast.Name):
                size = inc.value.id
            elif isinstance(inc.value, ast.Attribute) and isinstance(inc.value.value, ast.Name) and inc.value.value.id == "self":
                size = inc.value.attr
            else:
                raise TranslatorAbort("%s: unsupported section size" % cls)
        sections.append((name, size))
    lim2 = limit_test(body.pop(0), ["x"])
    if lim1 != lim2:
        raise TranslatorAbort("%s: two different limits" % cls)
    st = body.pop(0)
    if not (isinstance(st, ast.Assign) and isinstance(st.value, ast.Call) and isinstance(st.value.func, ast.Attribute)
            and st.value.func.attr == "pack" and isinstance(st.value.args[0], ast.Constant) and isinstance(st.value.args[0].value, str)):
        raise TranslatorAbort("%s: expected struct.pack" % cls)
    fmt = st.value.args[0].value
    fields = []
    for a in st.value.args[1:]:
        if isinstance(a, ast.Constant) and isinstance(a.value, int):
            fields.append("=%d" % a.value)
        elif isinstance(a, ast.Name):
            fields.append(a.id)
        elif isinstance(a, ast.Subscript) and isinstance(a.value, ast.Name) and a.value.id == "offsets" and isinstance(a.slice, ast.Constant):
            fields.append("@" + a.slice.value)
        else:
            raise TranslatorAbort("%s: unsupported header field" % cls)
    st = body.pop(0)
    if not isinstance(st, ast.Assert):
        raise TranslatorAbort("%s: expected assert on header length" % cls)
    hl = const_int(st.test.comparators[0], "header length") if isinstance(st.test, ast.Compare) else None
    if hl != header:
        raise TranslatorAbort("%s: asserted header length %r differs from initial offset %r" % (cls, hl, header))
    st = body.pop(0)
    if not (isinstance(st, ast.Assign) and isinstance(st.targets[0], ast.Attribute) and st.targets[0].attr == "_offset_data") or body:
        raise TranslatorAbort("%s: trailing statements in _create_offsets" % cls)
    return {"limit": lim1, "header": header, "sections": sections, "fmt": fmt, "fields": fields}


def struct_widths(fmt):
    if not fmt.startswith(">"):
        raise TranslatorAbort("struct format %r is not big-endian" % fmt)
    w = {"L": 4, "Q": 8, "H": 2, "B": 1}
    out = []
    for c in fmt[1:]:
        if c not in w:
            raise TranslatorAbort("struct code %r" % c)
        out.append(w[c])
    return out


def coq_list(items):
    return "[" + "; ".join(items) + "]"


def generate():
    _cache.clear()
    out = [HEADER % ("immconsts.py", "src/allmydata/{interfaces,client,codec}.py, immutable/{upload,encode,layout,filenode}.py, immutable/downloader/{node,segmentation}.py, util/spans.py"),
           "From Coq Require Import List NArith String.\nImport ListNotations.\nLocal Open Scope N_scope.\nLocal Open Scope string_scope.\n"]

    def defn(name, v):
        out.append("Definition %s : N := %d." % (name, v))

    defn("HASH_SIZE", module_int("src/allmydata/interfaces.py", "HASH_SIZE"))
    defn("DEFAULT_IMMUTABLE_MAX_SEGMENT_SIZE", module_int("src/allmydata/interfaces.py", "DEFAULT_IMMUTABLE_MAX_SEGMENT_SIZE"))
    # node.py / upload.py must use that very constant as their default
    for rel, cls in (("src/allmydata/immutable/downloader/node.py", "DownloadNode"), ("src/allmydata/immutable/upload.py", "BaseUploadable")):
        v = class_attr(rel, cls, "default_max_segment_size")
        if not (isinstance(v, ast.Name) and v.id == "DEFAULT_IMMUTABLE_MAX_SEGMENT_SIZE"):
            raise TranslatorAbort("%s.default_max_segment_size is not DEFAULT_IMMUTABLE_MAX_SEGMENT_SIZE" % cls)
    dep = class_attr("src/allmydata/client.py", "_Client", "DEFAULT_ENCODING_PARAMETERS")
    if not isinstance(dep, ast.Dict):
        raise TranslatorAbort("DEFAULT_ENCODING_PARAMETERS is not a dict literal")
    params = {}
    for k, v in zip(dep.keys, dep.values):
        if not (isinstance(k, ast.Constant) and isinstance(k.value, str)):
            raise TranslatorAbort("DEFAULT_ENCODING_PARAMETERS key")
        params[k.value] = v
    if sorted(params) != ["happy", "k", "max_segment_size", "n"]:
        raise TranslatorAbort("DEFAULT_ENCODING_PARAMETERS keys %r" % sorted(params))
    for key in ("k", "happy", "n"):
        defn("DEFAULT_ENCODING_" + key.upper(), const_int(params[key], key))
    if not (isinstance(params["max_segment_size"], ast.Name) and params["max_segment_size"].id == "DEFAULT_IMMUTABLE_MAX_SEGMENT_SIZE"):
        raise TranslatorAbort("default max_segment_size is not DEFAULT_IMMUTABLE_MAX_SEGMENT_SIZE")
    defn("URI_LIT_SIZE_THRESHOLD", const_int(class_attr("src/allmydata/immutable/upload.py", "Uploader", "URI_LIT_SIZE_THRESHOLD"), "URI_LIT_SIZE_THRESHOLD"))
    defn("CONVERGENCE_READ_BLOCKSIZE", local_int("src/allmydata/immutable/upload.py", "FileHandle._get_encryption_key_convergent", "BLOCKSIZE"))
    defn("ENCRYPT_CHUNKSIZE", const_int(class_attr("src/allmydata/immutable/upload.py", "EncryptAnUploadable", "CHUNKSIZE"), "CHUNKSIZE"))

    rel = "src/allmydata/immutable/layout.py"
    for tag, cls in (("V1", "WriteBucketProxy"), ("V2", "WriteBucketProxy_v2")):
        t = offsets_table(cls)
        fs = const_int(class_attr(rel, cls, "fieldsize"), "fieldsize")
        fstruct = class_attr(rel, cls, "fieldstruct")
        if not (isinstance(fstruct, ast.Constant) and isinstance(fstruct.value, str)):
            raise TranslatorAbort("fieldstruct")
        if struct_widths(fstruct.value) != [fs]:
            raise TranslatorAbort("%s: fieldstruct %r does not have width fieldsize=%d" % (cls, fstruct.value, fs))
        widths = struct_widths(t["fmt"])
        if len(widths) != len(t["fields"]) or sum(widths) != t["header"]:
            raise TranslatorAbort("%s: header struct %r does not describe %d fields in %d bytes" % (cls, t["fmt"], len(t["fields"]), t["header"]))
        defn(tag + "_FIELDSIZE", fs)
        defn(tag + "_HEADER_SIZE", t["header"])
        defn(tag + "_LIMIT", t["limit"])
        out.append("Definition %s_SECTIONS : list (string * string) := %s." % (
            tag, coq_list("(%s, %s)" % (coq_string(a), coq_string(b)) for a, b in t["sections"])))
        out.append("Definition %s_HEADER_FIELDS : list (string * N) := %s." % (
            tag, coq_list("(%s, %d)" % (coq_string(f), w) for f, w in zip(t["fields"], widths))))
    if "_create_offsets" in [n.name for n in find(rel, "WriteBucketProxy_v2").body if isinstance(n, ast.FunctionDef)] and \
            [n.name for n in find(rel, "WriteBucketProxy_v2").body if isinstance(n, ast.FunctionDef)] != ["_create_offsets"]:
        raise TranslatorAbort("WriteBucketProxy_v2 overrides more than _create_offsets")
    bases = [b.id for b in find(rel, "WriteBucketProxy_v2").bases if isinstance(b, ast.Name)]
    if bases != ["WriteBucketProxy"]:
        raise TranslatorAbort("WriteBucketProxy_v2 bases %r" % bases)
    # ReadBucketProxy._fetch_header: return self._read(0, 0x44)
    fh = find(rel, "ReadBucketProxy._fetch_header")
    ret = fh.body[-1]
    if not (isinstance(ret, ast.Return) and isinstance(ret.value, ast.Call) and len(ret.value.args) == 2):
        raise TranslatorAbort("ReadBucketProxy._fetch_header shape")
    defn("READ_HEADER_OFFSET", const_int(ret.value.args[0], "header read offset"))
    defn("READ_HEADER_SIZE", const_int(ret.value.args[1], "header read size"))

    out.append("\n(* AST fingerprints of the hand-modelled functions *)")
    for rel, dotted in PINS:
        node = find(rel, dotted)
        ident = "pin_" + dotted.replace(".", "_").replace("__", "_").strip("_")
        out.append('Definition %s : string := "%s".' % (ident.replace("__", "_"), dump_hash(node)))
    emit("ImmConsts.v", "\n".join(out) + "\n")


if __name__ == "__main__":
    generate()
    print("ok")
