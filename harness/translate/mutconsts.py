"""storage container constants  ->  coq/Gen/MutConsts.v   (shared by C23, C24, C25)

Sources (all under src/allmydata):
  storage/mutable.py         class MutableShareFile: DATA_LENGTH_OFFSET, EXTRA_LEASE_OFFSET,
                             HEADER_SIZE, LEASE_SIZE, DATA_OFFSET, MAX_SIZE and the two asserts
  mutable/layout.py          MAX_MUTABLE_SHARE_SIZE
  storage/mutable_schema.py  _HEADER_FORMAT, _HEADER_SIZE, _EXTRA_LEASE_OFFSET, _magic (pinned)
  storage/lease.py           IMMUTABLE_FORMAT, MUTABLE_FORMAT
  storage/immutable.py       ShareFile.LEASE_SIZE
  storage/server.py          DEFAULT_RENEWAL_TIME

Translated: integer constant expressions built from literals, names already
translated, `+`, `*`, `struct.calcsize("<literal big-endian format>")` and
`LeaseInfo().mutable_size()` (= calcsize(MUTABLE_FORMAT), checked against the
body of that method).  Struct formats become lists of (code, size).  The
number of in-header lease slots is the literal multiplier in
`DATA_OFFSET = HEADER_SIZE + <k>*LEASE_SIZE`, cross-checked against
mutable_schema._EXTRA_LEASE_OFFSET.  `_magic` is pinned by AST fingerprint and
hand-transcribed (v1: literal bytes; v>1: tagged hash truncated to 5).
Anything else aborts.  Deliberately independent of translate/structs.py."""
import ast

from .common import HEADER, TranslatorAbort, coq_bytes, dump_hash, emit, read_source

MUTABLE = "src/allmydata/storage/mutable.py"
LAYOUT = "src/allmydata/mutable/layout.py"
SCHEMA = "src/allmydata/storage/mutable_schema.py"
LEASE = "src/allmydata/storage/lease.py"
IMMUTABLE = "src/allmydata/storage/immutable.py"
SERVER = "src/allmydata/storage/server.py"

PIN_MAGIC = "d48468924ce0cc74"

SIZES = {"L": 4, "Q": 8, "H": 2, "B": 1}


def parse_format(fmt, where):
    """'>32s20s32sQQ' -> [('s',32),('s',20),('s',32),('Q',8),('Q',8)]"""
    if not isinstance(fmt, str) or not fmt.startswith(">"):
        raise TranslatorAbort("%s: struct format %r is not big-endian standard-size" % (where, fmt))
    out = []
    i = 1
    while i < len(fmt):
        j = i
        while j < len(fmt) and fmt[j].isdigit():
            j += 1
        count = int(fmt[i:j]) if j > i else None
        if j >= len(fmt):
            raise TranslatorAbort("%s: dangling count in %r" % (where, fmt))
        c = fmt[j]
        if c == "s":
            if count is None:
                count = 1
            out.append(("s", count))
        elif c in SIZES:
            for _ in range(1 if count is None else count):
                out.append((c, SIZES[c]))
        else:
            raise TranslatorAbort("%s: unsupported struct code %r in %r" % (where, c, fmt))
        i = j + 1
    return out


def calcsize(fmt, where):
    return sum(n for _, n in parse_format(fmt, where))


class Ev(object):
    """Fail-closed evaluator for the integer constant expressions listed above."""

    def __init__(self, env, formats, where):
        self.env = env
        self.formats = formats
        self.where = where

    def ev(self, e):
        if isinstance(e, ast.Constant) and isinstance(e.value, int) and not isinstance(e.value, bool) and e.value >= 0:
            return e.value
        if isinstance(e, ast.Name):
            if e.id in self.env:
                return self.env[e.id]
            raise TranslatorAbort("%s: unknown name %s" % (self.where, e.id))
        if isinstance(e, ast.BinOp) and isinstance(e.op, (ast.Add, ast.Mult)):
            a, b = self.ev(e.left), self.ev(e.right)
            return a + b if isinstance(e.op, ast.Add) else a * b
        if isinstance(e, ast.Call) and not e.keywords:
            f = e.func
            if (isinstance(f, ast.Attribute) and isinstance(f.value, ast.Name) and f.value.id == "struct"
                    and f.attr == "calcsize" and len(e.args) == 1):
                a = e.args[0]
                if isinstance(a, ast.Constant) and isinstance(a.value, str):
                    return calcsize(a.value, self.where)
                if isinstance(a, ast.Name) and a.id in self.formats:
                    return calcsize(self.formats[a.id], self.where)
            # LeaseInfo().mutable_size()
            if (isinstance(f, ast.Attribute) and f.attr == "mutable_size" and not e.args
                    and isinstance(f.value, ast.Call) and isinstance(f.value.func, ast.Name)
                    and f.value.func.id == "LeaseInfo" and not f.value.args and not f.value.keywords):
                if "MUTABLE_FORMAT" not in self.formats:
                    raise TranslatorAbort("%s: mutable_size() before MUTABLE_FORMAT" % self.where)
                return calcsize(self.formats["MUTABLE_FORMAT"], self.where)
        raise TranslatorAbort("%s: unsupported constant expression %s" % (self.where, ast.dump(e)[:160]))


def module_assigns(tree):
    out = {}
    for n in tree.body:
        if isinstance(n, ast.Assign) and len(n.targets) == 1 and isinstance(n.targets[0], ast.Name):
            out[n.targets[0].id] = n.value
    return out


def find_class(tree, name, where):
    for n in tree.body:
        if isinstance(n, ast.ClassDef) and n.name == name:
            return n
    raise TranslatorAbort("%s: class %s not found" % (where, name))


def find_func(body, name, where):
    for n in body:
        if isinstance(n, ast.FunctionDef) and n.name == name:
            return n
    raise TranslatorAbort("%s: function %s not found" % (where, name))


def str_const(e, where):
    if isinstance(e, ast.Constant) and isinstance(e.value, str):
        return e.value
    raise TranslatorAbort("%s: expected a string literal" % where)


def check_size_method(cls, name, fmtname):
    """def <name>(self): return struct.calcsize(<fmtname>)"""
    fn = find_func(cls.body, name, LEASE)
    body = [s for s in fn.body if not (isinstance(s, ast.Expr) and isinstance(s.value, ast.Constant))]
    ok = (len(body) == 1 and isinstance(body[0], ast.Return) and isinstance(body[0].value, ast.Call)
          and isinstance(body[0].value.func, ast.Attribute) and body[0].value.func.attr == "calcsize"
          and len(body[0].value.args) == 1 and isinstance(body[0].value.args[0], ast.Name)
          and body[0].value.args[0].id == fmtname)
    if not ok:
        raise TranslatorAbort("%s: LeaseInfo.%s is not `return struct.calcsize(%s)`" % (LEASE, name, fmtname))


def pack_call_format(fn, where):
    """the literal/named format of the single struct.pack(...) call in fn, and its argument count"""
    calls = [n for n in ast.walk(fn) if isinstance(n, ast.Call) and isinstance(n.func, ast.Attribute)
             and n.func.attr == "pack" and isinstance(n.func.value, ast.Name) and n.func.value.id == "struct"]
    if len(calls) != 1:
        raise TranslatorAbort("%s: expected exactly one struct.pack call in %s" % (where, fn.name))
    return calls[0]


def fields_coq(fields):
    return "[" + "; ".join("(%d, %d)" % (ord(c), n) for c, n in fields) + "]"


def generate():
    out = []
    # ---- lease.py -------------------------------------------------------------
    _, lease_tree = read_source(LEASE)
    la = module_assigns(lease_tree)
    formats = {}
    for name in ("IMMUTABLE_FORMAT", "MUTABLE_FORMAT"):
        if name not in la:
            raise TranslatorAbort("%s: %s missing" % (LEASE, name))
        formats[name] = str_const(la[name], LEASE + ":" + name)
    li = find_class(lease_tree, "LeaseInfo", LEASE)
    check_size_method(li, "immutable_size", "IMMUTABLE_FORMAT")
    check_size_method(li, "mutable_size", "MUTABLE_FORMAT")
    # field order of the two serialisations (names of the attributes packed)
    orders = {}
    for meth, fmt in (("to_immutable_data", "IMMUTABLE_FORMAT"), ("to_mutable_data", "MUTABLE_FORMAT")):
        fn = find_func(li.body, meth, LEASE)
        call = pack_call_format(fn, LEASE)
        if not (isinstance(call.args[0], ast.Name) and call.args[0].id == fmt):
            raise TranslatorAbort("%s: %s does not pack with %s" % (LEASE, meth, fmt))
        names = []
        for a in call.args[1:]:
            if isinstance(a, ast.Attribute) and isinstance(a.value, ast.Name) and a.value.id == "self":
                names.append(a.attr)
            elif (isinstance(a, ast.Call) and isinstance(a.func, ast.Name) and a.func.id == "int" and len(a.args) == 1
                  and isinstance(a.args[0], ast.Attribute) and a.args[0].attr == "_expiration_time"):
                names.append("expiration_time")
            else:
                raise TranslatorAbort("%s: %s packs an unsupported expression" % (LEASE, meth))
        orders[meth] = names
    if orders["to_immutable_data"] != ["owner_num", "renew_secret", "cancel_secret", "expiration_time"]:
        raise TranslatorAbort("%s: immutable lease field order changed: %r" % (LEASE, orders["to_immutable_data"]))
    if orders["to_mutable_data"] != ["owner_num", "expiration_time", "renew_secret", "cancel_secret", "nodeid"]:
        raise TranslatorAbort("%s: mutable lease field order changed: %r" % (LEASE, orders["to_mutable_data"]))
    imm_fields = parse_format(formats["IMMUTABLE_FORMAT"], LEASE)
    mut_fields = parse_format(formats["MUTABLE_FORMAT"], LEASE)

    # ---- mutable/layout.py ------------------------------------------------------
    _, layout_tree = read_source(LAYOUT)
    lay = module_assigns(layout_tree)
    if "MAX_MUTABLE_SHARE_SIZE" not in lay:
        raise TranslatorAbort("%s: MAX_MUTABLE_SHARE_SIZE missing" % LAYOUT)
    max_size = Ev({}, formats, LAYOUT).ev(lay["MAX_MUTABLE_SHARE_SIZE"])

    # ---- storage/mutable.py -------------------------------------------------------
    _, mut_tree = read_source(MUTABLE)
    cls = find_class(mut_tree, "MutableShareFile", MUTABLE)
    env = {"MAX_MUTABLE_SHARE_SIZE": max_size}
    ev = Ev(env, formats, MUTABLE)
    wanted = ["DATA_LENGTH_OFFSET", "EXTRA_LEASE_OFFSET", "HEADER_SIZE", "LEASE_SIZE", "DATA_OFFSET", "MAX_SIZE"]
    exprs = {}
    header_fmt = None
    lease_fmt_cls = None
    for n in cls.body:
        if isinstance(n, ast.Assign) and len(n.targets) == 1 and isinstance(n.targets[0], ast.Name):
            name = n.targets[0].id
            if name in wanted:
                env[name] = ev.ev(n.value)
                exprs[name] = n.value
                if name == "HEADER_SIZE":
                    header_fmt = str_const(n.value.args[0], MUTABLE + ":HEADER_SIZE")
                if name == "LEASE_SIZE":
                    lease_fmt_cls = str_const(n.value.args[0], MUTABLE + ":LEASE_SIZE")
            elif name != "sharetype":
                raise TranslatorAbort("%s: unexpected class constant %s" % (MUTABLE, name))
    for w in wanted:
        if w not in env:
            raise TranslatorAbort("%s: %s missing" % (MUTABLE, w))
    if lease_fmt_cls != formats["MUTABLE_FORMAT"]:
        raise TranslatorAbort("MutableShareFile.LEASE_SIZE format %r differs from lease.MUTABLE_FORMAT %r" % (lease_fmt_cls, formats["MUTABLE_FORMAT"]))
    # number of in-header lease slots: DATA_OFFSET = HEADER_SIZE + k*LEASE_SIZE
    d = exprs["DATA_OFFSET"]
    ok = (isinstance(d, ast.BinOp) and isinstance(d.op, ast.Add) and isinstance(d.left, ast.Name) and d.left.id == "HEADER_SIZE"
          and isinstance(d.right, ast.BinOp) and isinstance(d.right.op, ast.Mult)
          and isinstance(d.right.left, ast.Constant) and isinstance(d.right.left.value, int)
          and isinstance(d.right.right, ast.Name) and d.right.right.id == "LEASE_SIZE")
    if not ok:
        raise TranslatorAbort("%s: DATA_OFFSET is not HEADER_SIZE + k*LEASE_SIZE" % MUTABLE)
    slots = d.right.left.value
    header_fields = parse_format(header_fmt, MUTABLE)
    dlo = exprs["DATA_LENGTH_OFFSET"]
    dlo_fmt = str_const(dlo.args[0], MUTABLE + ":DATA_LENGTH_OFFSET")
    if parse_format(dlo_fmt, MUTABLE) != header_fields[:3] or [c for c, _ in header_fields[3:]] != ["Q", "Q"]:
        raise TranslatorAbort("%s: header format %r is not <three strings> Q Q with DATA_LENGTH_OFFSET after the strings" % (MUTABLE, header_fmt))

    # ---- storage/mutable_schema.py --------------------------------------------------
    _, sch_tree = read_source(SCHEMA)
    sa = module_assigns(sch_tree)
    for name in ("_HEADER_FORMAT", "_HEADER_SIZE", "_EXTRA_LEASE_OFFSET"):
        if name not in sa:
            raise TranslatorAbort("%s: %s missing" % (SCHEMA, name))
    sfmt = str_const(sa["_HEADER_FORMAT"], SCHEMA)
    if sfmt != header_fmt:
        raise TranslatorAbort("mutable_schema._HEADER_FORMAT %r differs from MutableShareFile header %r" % (sfmt, header_fmt))
    senv = {}
    sformats = dict(formats, _HEADER_FORMAT=sfmt)
    sev = Ev(senv, sformats, SCHEMA)
    senv["_HEADER_SIZE"] = sev.ev(sa["_HEADER_SIZE"])
    senv["_EXTRA_LEASE_OFFSET"] = sev.ev(sa["_EXTRA_LEASE_OFFSET"])
    magic_fn = find_func(sch_tree.body, "_magic", SCHEMA)
    pin = dump_hash(magic_fn)
    if pin != PIN_MAGIC:
        raise TranslatorAbort("%s: _magic changed (fingerprint %s, pinned %s): hand transcription no longer valid" % (SCHEMA, pin, PIN_MAGIC))
    # the blank lease block in _header: b"\x00" * LeaseInfo().mutable_size() * k
    header_fn = find_func(sch_tree.body, "_header", SCHEMA)
    blank = None
    for n in ast.walk(header_fn):
        if isinstance(n, ast.Assign) and isinstance(n.targets[0], ast.Name) and n.targets[0].id == "blank_leases":
            blank = n.value
    ok = (isinstance(blank, ast.BinOp) and isinstance(blank.op, ast.Mult) and isinstance(blank.right, ast.Constant)
          and isinstance(blank.right.value, int)
          and isinstance(blank.left, ast.BinOp) and isinstance(blank.left.op, ast.Mult)
          and isinstance(blank.left.left, ast.Constant) and blank.left.left.value == b"\x00")
    if not ok:
        raise TranslatorAbort("%s: _header.blank_leases is not b'\\x00' * size * k" % SCHEMA)
    if blank.right.value != slots or sev.ev(blank.left.right) != env["LEASE_SIZE"]:
        raise TranslatorAbort("%s: _header writes %d blank slots, MutableShareFile expects %d" % (SCHEMA, blank.right.value, slots))

    # ---- storage/immutable.py -------------------------------------------------------
    _, imm_tree = read_source(IMMUTABLE)
    icls = find_class(imm_tree, "ShareFile", IMMUTABLE)
    imm_lease_size = None
    for n in icls.body:
        if isinstance(n, ast.Assign) and isinstance(n.targets[0], ast.Name) and n.targets[0].id == "LEASE_SIZE":
            fmt = str_const(n.value.args[0], IMMUTABLE + ":LEASE_SIZE")
            if fmt != formats["IMMUTABLE_FORMAT"]:
                raise TranslatorAbort("ShareFile.LEASE_SIZE format %r differs from lease.IMMUTABLE_FORMAT" % fmt)
            imm_lease_size = Ev({}, formats, IMMUTABLE).ev(n.value)
    if imm_lease_size is None:
        raise TranslatorAbort("%s: ShareFile.LEASE_SIZE missing" % IMMUTABLE)

    # ---- storage/server.py -----------------------------------------------------------
    _, srv_tree = read_source(SERVER)
    sv = module_assigns(srv_tree)
    if "DEFAULT_RENEWAL_TIME" not in sv:
        raise TranslatorAbort("%s: DEFAULT_RENEWAL_TIME missing" % SERVER)
    renewal = Ev({}, formats, SERVER).ev(sv["DEFAULT_RENEWAL_TIME"])

    # ---- emit ---------------------------------------------------------------------------
    out.append(HEADER % ("mutconsts.py", ", ".join([MUTABLE, LAYOUT, SCHEMA, LEASE, IMMUTABLE, SERVER])))
    out.append("From Coq Require Import List NArith String.\n")
    out.append("From Verif Require Import Lib.Hex Lib.Decimal Lib.SHA256 Lib.Netstring Lib.HashPrim Gen.Hashutil.\n")
    out.append("Import ListNotations.\nLocal Open Scope N_scope.\n\n")
    out.append("(* struct formats as (ASCII code of the format character, size in bytes): 115 = 's', 76 = 'L', 81 = 'Q' *)\n")
    out.append("Definition MUT_HEADER_FIELDS : list (N * N) := %s.  (* %s *)\n" % (fields_coq(header_fields), header_fmt))
    out.append("Definition MUT_LEASE_FIELDS : list (N * N) := %s.  (* %s: owner, expiration, renew, cancel, nodeid *)\n" % (fields_coq(mut_fields), formats["MUTABLE_FORMAT"]))
    out.append("Definition IMM_LEASE_FIELDS : list (N * N) := %s.  (* %s: owner, renew, cancel, expiration *)\n\n" % (fields_coq(imm_fields), formats["IMMUTABLE_FORMAT"]))
    for name in wanted:
        out.append("Definition %s : N := %d.\n" % (name if name != "EXTRA_LEASE_OFFSET" else "EXTRA_LEASE_OFFSET_POS", env[name]))
    out.append("Definition NUM_HEADER_LEASE_SLOTS : N := %d.\n" % slots)
    out.append("Definition INITIAL_EXTRA_LEASE_OFFSET : N := %d.  (* mutable_schema._EXTRA_LEASE_OFFSET *)\n" % senv["_EXTRA_LEASE_OFFSET"])
    out.append("Definition SCHEMA_HEADER_SIZE : N := %d.  (* mutable_schema._HEADER_SIZE *)\n" % senv["_HEADER_SIZE"])
    out.append("Definition IMM_LEASE_SIZE : N := %d.\n" % imm_lease_size)
    out.append("Definition DEFAULT_RENEWAL_TIME : N := %d.\n\n" % renewal)
    out.append("(* mutable_schema._magic, pinned (fingerprint %s) and transcribed by hand *)\n" % pin)
    out.append("Definition pin_magic : string := \"%s\"%%string.\n" % pin)
    out.append("Definition magic_human (version : N) : list N :=\n  %s ++ dec version ++ [10].\n" % coq_bytes(b"Tahoe mutable container v"))
    out.append("Definition MAGIC_V1 : list N := Eval vm_compute in (magic_human 1 ++ %s).\n" % coq_bytes(b"\x75\x09\x44\x03\x8e"))
    out.append("Definition MAGIC_V2 : list N := Eval vm_compute in\n  (magic_human 2 ++ tagged_hash %s (magic_human 2) (Some 5)).\n" % coq_bytes(b"allmydata_mutable_container_header"))
    emit("MutConsts.v", "".join(out))


if __name__ == "__main__":
    generate()
