"""src/allmydata/web/{filenode,directory,root,common}.py, dirnode.py, mutable/filenode.py,
immutable/{filenode,literal}.py, unknown.py   ->   coq/Gen/WebOps.v

Translated from the AST (nothing is imported or executed):

  * `web_ops`: one entry per (handler class, HTTP method, `t=` value) handled by the
    `render_PUT` / `render_POST` / `render_DELETE` methods of the web handlers that serve
    `/uri/...` and `/file/...` (PlaceHolderNodeHandler, FileNodeHandler, DirectoryNodeHandler,
    UnknownNodeHandler, URIHandler, FileHandler, FileNodeDownloadHandler): the node-layer calls
    reachable from that dispatch branch (following `self.<method>(...)` into the class and its
    mixins), each with a flag "dominated by a web-level `if self.node.is_readonly(): raise`",
    and whether unmatched `t=` values end in `raise WebError`;
  * `getchild_*`: what DirectoryNodeHandler._got_child creates during traversal
    (terminal_requests / leaf_requests tuples, the node calls it makes) and the method / `t=`
    lists of should_create_intermediate_directories;
  * `dn_methods`: for every method of dirnode.DirectoryNode whether it starts with the
    `is_readonly() -> NotWriteableError` guard (and for which other directory it checks
    `is_readonly()` too), whether it reaches `self._node.modify/overwrite/upload`, and the
    `self.<m>` / `<other>.<m>` calls it makes;
  * `mfv_asserts`: which MutableFileVersion methods start with `assert not self.is_readonly()`,
    and whether MutableFileNode.get_mutable_version hands a read-only node a readable version;
  * `write_uri_sources`: for every node class the shape of get_write_uri (None when read-only /
    always None / the stored rw_uri);
  * `rw_uri_emitters`: every place in the web modules that stores a value under the key 'rw_uri'
    and the expression it comes from (must be `<node>.get_write_uri()` tested for truth).

Closed world / fail closed: a handler class of these modules with a `render_PUT/POST/DELETE`
(or a generic `render`) that is not in the lists below, a dispatch statement of an unknown shape,
an `rw_uri` store of another shape, a read-only guard of another shape: TranslatorAbort.
Operations and calls the Coq model does not know are NOT an abort: they appear in the table and
`table_covered` (Props/C41.v) fails."""
import ast

from .common import HEADER, TranslatorAbort, coq_string, emit, read_source

SRC_FILENODE = "src/allmydata/web/filenode.py"
SRC_DIRECTORY = "src/allmydata/web/directory.py"
SRC_ROOT = "src/allmydata/web/root.py"
SRC_COMMON = "src/allmydata/web/common.py"
SRC_UNLINKED = "src/allmydata/web/unlinked.py"
SRC_DIRNODE = "src/allmydata/dirnode.py"
SRC_MUTABLE = "src/allmydata/mutable/filenode.py"
SRC_IMMUTABLE = "src/allmydata/immutable/filenode.py"
SRC_LITERAL = "src/allmydata/immutable/literal.py"
SRC_UNKNOWN = "src/allmydata/unknown.py"

# handler classes that serve /uri/<cap>/<path> and /file/<cap>: (module, class, mixins searched for self.<m>)
HANDLERS = [
    (SRC_FILENODE, "PlaceHolderNodeHandler"),
    (SRC_FILENODE, "FileNodeHandler"),
    (SRC_FILENODE, "FileNodeDownloadHandler"),
    (SRC_DIRECTORY, "DirectoryNodeHandler"),
    (SRC_DIRECTORY, "UnknownNodeHandler"),
    (SRC_ROOT, "URIHandler"),
    (SRC_ROOT, "FileHandler"),
]
# classes with a generic render() that are known not to dispatch modifying verbs to the grid
GENERIC_RENDER_OK = {"FileDownloader", "DeepStatsResults", "IncidentReporter"}
MODIFYING = ("PUT", "POST", "DELETE")
RESOURCE_BASES = {"Resource", "MultiFormatResource", "ReplaceMeMixin", "FileNodeHandler", "ReloadMixin"}

ARG_HELPERS = {"get_arg", "parse_replace_arg", "boolean_of_arg", "parse_offset_arg", "str"}
# receivers whose calls are plumbing, not node-layer operations
PLUMBING = {"d", "d2", "d3", "req", "request", "log", "json", "http", "defer", "name", "to_dir", "to_name",
            "from_name", "charset", "contents", "children", "mddict", "le", "body", "kids_json", "t",
            "to_path", "u", "uri", "redir_uri", "urlquote", "values", "k", "v", "self", "f", "DecodedURL",
            "URL", "uri_arg", "errmsg", "cs", "childcap", "new_contents", "node_or_failure", "IDirectoryNode",
            "IFileNode", "filename", "writecap", "readcap"}
# getters / pure queries on nodes that are not recorded
BORING = {"get_uri", "get_write_uri", "get_readonly_uri", "is_readonly", "is_mutable", "is_unknown",
          "get_storage_index", "get_verify_cap", "get_size", "get_repair_cap", "providedBy", "get_cap",
          "get_readcap", "is_alleged_immutable", "get_current_size", "raise_error", "get_web_service",
          "get_history", "get_operations", "get_auth_token", "getServiceNamed", "introducer_connection_statuses",
          "get_storage_broker", "get_long_tubid", "get_long_nodeid", "get_encoding_parameters"}


def _is_name(n, s):
    return isinstance(n, ast.Name) and n.id == s


def _classes(tree):
    return {st.name: st for st in tree.body if isinstance(st, ast.ClassDef)}


def _methods(cls):
    return {m.name: m for m in cls.body if isinstance(m, (ast.FunctionDef, ast.AsyncFunctionDef))}


def _base_names(cls):
    out = []
    for b in cls.bases:
        if isinstance(b, ast.Name):
            out.append(b.id)
        elif isinstance(b, ast.Attribute):
            out.append(b.attr)
        else:
            raise TranslatorAbort("class %s: base %s" % (cls.name, ast.dump(b)[:60]))
    return out


def _const_str(n):
    if isinstance(n, ast.Constant) and isinstance(n.value, (str, bytes)):
        v = n.value
        return v.decode("ascii") if isinstance(v, bytes) else v
    return None


def _no_doc(body):
    if body and isinstance(body[0], ast.Expr) and isinstance(body[0].value, ast.Constant) and isinstance(body[0].value.value, str):
        return body[1:]
    return body


# ---------------------------------------------------------------------------------------------
# receivers
def _recv(e):
    """Normalised receiver of a call `e.m(...)`: 'node', 'parentnode', 'client', 'nodemaker',
    a plain name, or None (not a name chain)."""
    if isinstance(e, ast.Name):
        return e.id
    if isinstance(e, ast.Attribute):
        if _is_name(e.value, "self"):
            return e.attr.lstrip("_") if e.attr in ("node", "parentnode", "client", "_client", "_operations") else "self." + e.attr
        inner = _recv(e.value)
        if inner in ("client",) and e.attr == "nodemaker":
            return "nodemaker"
        if inner is None:
            return None
        return inner + "." + e.attr
    return None


class Branch(object):
    def __init__(self):
        self.calls = []        # (call string, web_guarded bool) in first-seen order
        self.raises_only = True

    def add(self, call, guarded):
        for i, (c, g) in enumerate(self.calls):
            if c == call:
                # a call is counted as web-guarded only if EVERY occurrence is dominated by the guard
                self.calls[i] = (c, g and guarded)
                return
        self.calls.append((call, guarded))


def _is_ro_guard(st):
    """`if <recv>.is_readonly(): raise ...` (only raises in the body, no else)."""
    if not isinstance(st, ast.If) or st.orelse:
        return None
    t = st.test
    if not (isinstance(t, ast.Call) and isinstance(t.func, ast.Attribute) and t.func.attr == "is_readonly" and not t.args):
        return None
    body = [b for b in st.body if not (isinstance(b, ast.Expr) and isinstance(b.value, ast.Constant))]
    if body and all(isinstance(b, ast.Raise) for b in body):
        return _recv(t.func.value)
    return None


def _scan(stmts, klass_methods, br, guarded, stack, where):
    """Collect node-layer calls of a statement list, in order, following self.<m>(...)."""
    for st in stmts:
        g = _is_ro_guard(st)
        if g is not None:
            if g != "node":
                raise TranslatorAbort("%s: read-only guard on %r (only self.node is understood)" % (where, g))
            guarded = True
            continue
        if isinstance(st, ast.If):
            # both arms inherit the current guard state; a guard inside an arm covers only that arm
            _scan_expr(st.test, klass_methods, br, guarded, stack, where)
            _scan(st.body, klass_methods, br, guarded, stack, where)
            _scan(st.orelse, klass_methods, br, guarded, stack, where)
            continue
        if isinstance(st, (ast.FunctionDef, ast.AsyncFunctionDef)):
            _scan(st.body, klass_methods, br, guarded, stack, where)
            continue
        if isinstance(st, (ast.For, ast.While, ast.With, ast.Try)):
            for fld in ("body", "orelse", "finalbody"):
                _scan(getattr(st, fld, []) or [], klass_methods, br, guarded, stack, where)
            for h in getattr(st, "handlers", []) or []:
                _scan(h.body, klass_methods, br, guarded, stack, where)
            for fld in ("iter", "test"):
                if getattr(st, fld, None) is not None:
                    _scan_expr(getattr(st, fld), klass_methods, br, guarded, stack, where)
            continue
        _scan_expr(st, klass_methods, br, guarded, stack, where)


def _scan_expr(node, klass_methods, br, guarded, stack, where):
    for n in ast.walk(node):
        if not isinstance(n, ast.Call):
            continue
        f = n.func
        if isinstance(f, ast.Attribute):
            if _is_name(f.value, "self"):
                m = f.attr
                if m in klass_methods:
                    if m in stack:
                        raise TranslatorAbort("%s: recursive self.%s" % (where, m))
                    _scan(_no_doc(klass_methods[m].body), klass_methods, br, guarded, stack + [m], where)
                elif m not in ("_maybe_literal",):
                    raise TranslatorAbort("%s: call of self.%s which is not defined on the handler or its mixin" % (where, m))
                continue
            if f.attr == "is_readonly":
                # the recognised guards (`if X.is_readonly(): raise`) never reach this point; the branch conditions
                # of the model (Model/WebAuth.v `cond`) know nothing about read-only-ness
                raise TranslatorAbort("%s: line %d: is_readonly() decides something other than a raising guard "
                                      "(the dispatch branches of the model do not depend on it)" % (where, n.lineno))
            r = _recv(f.value)
            if r is None:
                continue                      # call on a call result / literal: plumbing (d.addCallback chains etc.)
            root = r.split(".")[0]
            if f.attr in BORING or root in PLUMBING or r.startswith("self."):
                continue
            br.add("%s.%s" % (r, f.attr), guarded)
        elif isinstance(f, ast.Name) and f.id in ("make_handler_for", "PlaceHolderNodeHandler"):
            br.add(f.id, guarded)


# ---------------------------------------------------------------------------------------------
# dispatch
def _t_values(test, tvar):
    """t= values selected by a test on the dispatch variable, or None if the test does not
    mention the variable at all; abort on tests that mention it in an unknown way."""
    mentions = any(_is_name(n, tvar) for n in ast.walk(test))
    if not mentions:
        return None
    if isinstance(test, ast.UnaryOp) and isinstance(test.op, ast.Not) and _is_name(test.operand, tvar):
        return [""]
    if isinstance(test, ast.Compare) and _is_name(test.left, tvar) and len(test.ops) == 1:
        c = test.comparators[0]
        if isinstance(test.ops[0], ast.Eq) and _const_str(c) is not None:
            return [_const_str(c)]
        if isinstance(test.ops[0], ast.In) and isinstance(c, (ast.Tuple, ast.List)) and all(_const_str(e) is not None for e in c.elts):
            return [_const_str(e) for e in c.elts]
    if isinstance(test, ast.BoolOp) and isinstance(test.op, ast.Or):
        out = []
        for v in test.values:
            sub = _t_values(v, tvar)
            if sub is None:
                raise TranslatorAbort("dispatch test mixes t with something else: %s" % ast.dump(test)[:120])
            out += sub
        return out
    raise TranslatorAbort("dispatch test on t of unknown shape: %s" % ast.dump(test)[:160])


def _is_t_assign(st):
    """`t = get_arg(req, "t", ...).strip()` possibly wrapped in str(..., enc)."""
    if not (isinstance(st, ast.Assign) and len(st.targets) == 1 and isinstance(st.targets[0], ast.Name)):
        return None
    for n in ast.walk(st.value):
        if (isinstance(n, ast.Call) and _is_name(n.func, "get_arg") and len(n.args) >= 2 and _const_str(n.args[1]) == "t"):
            return st.targets[0].id
    return None


def _only_raises(stmts):
    body = [b for b in stmts if not (isinstance(b, ast.Expr) and isinstance(b.value, ast.Constant))]
    return bool(body) and all(isinstance(b, ast.Raise) for b in body)


def _pre_ok(st, where):
    """A statement allowed before / between the dispatch tests: argument parsing, asserts,
    a request-shape guard that only raises."""
    if isinstance(st, ast.Assert):
        return True
    if isinstance(st, ast.Assign) and len(st.targets) == 1 and isinstance(st.targets[0], ast.Name):
        for n in ast.walk(st.value):
            if isinstance(n, ast.Call):
                f = n.func
                ok = (isinstance(f, ast.Name) and f.id in ARG_HELPERS) or \
                     (isinstance(f, ast.Attribute) and f.attr in ("strip", "getHeader", "get") and not _is_name(f.value, "self"))
                if not ok:
                    raise TranslatorAbort("%s: call in pre-dispatch assignment: %s" % (where, ast.dump(n)[:100]))
        return True
    if isinstance(st, ast.If) and not st.orelse and _only_raises(st.body):
        return True
    return False


def parse_dispatch(fn, klass_methods, cls_name, method):
    """-> (entries [(t, Branch)], default_refused bool)."""
    where = "%s.render_%s" % (cls_name, method)
    body = _no_doc(fn.body)
    tvar = None
    for st in body:
        v = _is_t_assign(st)
        if v:
            if tvar:
                raise TranslatorAbort("%s: t assigned twice" % where)
            tvar = v
    entries = []
    if tvar is None:
        # no dispatch on t (DELETE): the whole body is one operation
        br = Branch()
        _scan(body, klass_methods, br, False, [], where)
        return [("*", br)], False
    default_refused = False
    seen_t = False
    i = 0
    while i < len(body):
        st = body[i]
        i += 1
        if _is_t_assign(st):
            seen_t = True
            continue
        if isinstance(st, ast.If):
            vals = _t_values(st.test, tvar) if seen_t else None
            if vals is None:
                if _pre_ok(st, where):
                    continue
                raise TranslatorAbort("%s: conditional that is neither a t= test nor a raising guard (line %d)" % (where, st.lineno))
            # if / elif chain
            cur = st
            while True:
                br = Branch()
                _scan(cur.body, klass_methods, br, False, [], where)
                for v in vals:
                    if any(v == e[0] for e in entries):
                        raise TranslatorAbort("%s: t=%r dispatched twice" % (where, v))
                    entries.append((v, br))
                if not cur.orelse:
                    break
                if len(cur.orelse) == 1 and isinstance(cur.orelse[0], ast.If):
                    nxt = cur.orelse[0]
                    nv = _t_values(nxt.test, tvar)
                    if nv is None:
                        raise TranslatorAbort("%s: elif that does not test t (line %d)" % (where, nxt.lineno))
                    cur, vals = nxt, nv
                    continue
                if _only_raises(cur.orelse):
                    default_refused = True
                    break
                raise TranslatorAbort("%s: else branch of the t= dispatch is not a bare raise (line %d)" % (where, cur.orelse[0].lineno))
            continue
        if isinstance(st, ast.Raise):
            default_refused = True
            if i != len(body):
                raise TranslatorAbort("%s: statements after the final raise" % where)
            continue
        if isinstance(st, ast.Return):
            # `return handle_when_done(req, d)` / `return d`: post-processing of the selected branch
            v = st.value
            ok = _is_name(v, "d") or (isinstance(v, ast.Call) and _is_name(v.func, "handle_when_done"))
            if not ok or i != len(body):
                raise TranslatorAbort("%s: unexpected return at dispatch level (line %d)" % (where, st.lineno))
            continue
        if isinstance(st, ast.Assign) and seen_t and any(_is_name(n, tvar) for n in ast.walk(st.value)):
            raise TranslatorAbort("%s: t is used outside a dispatch test (line %d)" % (where, st.lineno))
        if _pre_ok(st, where):
            continue
        raise TranslatorAbort("%s: dispatch statement of unknown shape (line %d): %s" % (where, st.lineno, ast.dump(st)[:120]))
    if not entries:
        raise TranslatorAbort("%s: no t= branches found" % where)
    return entries, default_refused


def extract_handlers():
    trees = {}
    for src in (SRC_FILENODE, SRC_DIRECTORY, SRC_ROOT):
        trees[src] = read_source(src)[1]
    handler_names = {c for _, c in HANDLERS}
    ops = []          # (class, method, t, [(call, guarded)])
    defaults = []     # (class, method, refused)
    defined = []      # (class, [modifying methods it defines or inherits])
    all_classes = {}
    for src, tree in trees.items():
        for name, cls in _classes(tree).items():
            if name in all_classes:
                raise TranslatorAbort("class %s defined in two web modules" % name)
            all_classes[name] = (src, cls)
    # closed world: no other resource class with modifying render methods
    for name, (src, cls) in all_classes.items():
        ms = _methods(cls)
        mod = [m for m in ms if m.startswith("render_") and m[len("render_"):] in MODIFYING]
        if name not in handler_names:
            if mod:
                raise TranslatorAbort("%s: class %s defines %s but is not a known handler" % (src, name, mod))
            if "render" in ms and name not in GENERIC_RENDER_OK:
                bases = set(_base_names(cls))
                if bases & (RESOURCE_BASES | handler_names) or any(b.endswith("Resource") for b in bases):
                    raise TranslatorAbort("%s: resource class %s has a generic render() the translator does not know" % (src, name))
    for src, cname in HANDLERS:
        if cname not in all_classes or all_classes[cname][0] != src:
            raise TranslatorAbort("handler class %s not found in %s" % (cname, src))
        cls = all_classes[cname][1]
        if "render" in _methods(cls):
            raise TranslatorAbort("%s defines a generic render()" % cname)
        # method resolution: own methods, then bases that live in the web modules (mixins)
        lookup = {}
        order = []

        def linearise(c):
            if c in order:
                return
            order.append(c)
            for b in _base_names(c):
                if b in all_classes:
                    linearise(all_classes[b][1])
        linearise(cls)
        for c in reversed(order):
            lookup.update(_methods(c))
        have = []
        for m in MODIFYING:
            fn = lookup.get("render_" + m)
            if fn is None:
                continue
            have.append(m)
            decs = [d.id for d in fn.decorator_list if isinstance(d, ast.Name)]
            if decs != ["render_exception"]:
                raise TranslatorAbort("%s.render_%s: decorators %r" % (cname, m, [ast.dump(d)[:40] for d in fn.decorator_list]))
            entries, refused = parse_dispatch(fn, lookup, cname, m)
            for t, br in entries:
                ops.append((cname, m, t, list(br.calls)))
            defaults.append((cname, m, refused))
        defined.append((cname, have))
    return ops, defaults, defined, trees


# ---------------------------------------------------------------------------------------------
# traversal: DirectoryNodeHandler._got_child, should_create_intermediate_directories
def _tuple_pairs(node, where):
    if not isinstance(node, ast.Tuple):
        raise TranslatorAbort("%s is not a tuple literal" % where)
    out = []
    for e in node.elts:
        if not (isinstance(e, ast.Tuple) and len(e.elts) == 2 and all(_const_str(x) is not None for x in e.elts)):
            raise TranslatorAbort("%s: element %s" % (where, ast.dump(e)[:80]))
        out.append((_const_str(e.elts[0]), _const_str(e.elts[1])))
    return out


def extract_traversal(trees):
    cls = _classes(trees[SRC_DIRECTORY])["DirectoryNodeHandler"]
    ms = _methods(cls)
    if "getChild" not in ms or "_got_child" not in ms:
        raise TranslatorAbort("DirectoryNodeHandler.getChild/_got_child missing")
    gc = ms["_got_child"]
    term = leaf = None
    for n in ast.walk(gc):
        if isinstance(n, ast.Assign) and len(n.targets) == 1 and isinstance(n.targets[0], ast.Name):
            if n.targets[0].id == "terminal_requests":
                term = _tuple_pairs(n.value, "terminal_requests")
            if n.targets[0].id == "leaf_requests":
                leaf = _tuple_pairs(n.value, "leaf_requests")
    if term is None or leaf is None:
        raise TranslatorAbort("_got_child: terminal_requests / leaf_requests not found")
    # uses of the two tuples: exactly `(req.method, t) in <tuple>`
    for nm in ("terminal_requests", "leaf_requests"):
        uses = [n for n in ast.walk(gc) if _is_name(n, nm) and isinstance(n.ctx, ast.Load)]
        if len(uses) != 1:
            raise TranslatorAbort("_got_child: %s used %d times" % (nm, len(uses)))
    br = Branch()
    lookup = dict(ms)
    _scan(_no_doc(gc.body), lookup, br, False, ["_got_child"], "DirectoryNodeHandler._got_child")
    br2 = Branch()
    _scan(_no_doc(ms["getChild"].body), lookup, br2, False, ["getChild", "_got_child"], "DirectoryNodeHandler.getChild")
    calls = [c for c, _ in br2.calls] + [c for c, _ in br.calls if c not in [x for x, _ in br2.calls]]
    # other handlers' getChild must not reach the node layer with mutators
    other = []
    for src, cname in HANDLERS:
        if cname == "DirectoryNodeHandler":
            continue
        c = _classes(trees[src])[cname]
        m = _methods(c).get("getChild")
        if m is None:
            continue
        b = Branch()
        _scan(_no_doc(m.body), _methods(c), b, False, ["getChild"], cname + ".getChild")
        other.append((cname, [x for x, _ in b.calls]))
    # FileHandler.getChild: `if req.method not in (b"GET", b"HEAD"): raise WebError(...)` first
    fh = _methods(_classes(trees[SRC_ROOT])["FileHandler"]).get("getChild")
    get_only = False
    if fh is not None:
        body = _no_doc(fh.body)
        if body and isinstance(body[0], ast.If) and _only_raises(body[0].body) and not body[0].orelse:
            t = body[0].test
            if (isinstance(t, ast.Compare) and len(t.ops) == 1 and isinstance(t.ops[0], ast.NotIn)
                    and isinstance(t.left, ast.Attribute) and t.left.attr == "method"
                    and isinstance(t.comparators[0], (ast.Tuple, ast.List))
                    and sorted(_const_str(e) or "?" for e in t.comparators[0].elts) == ["GET", "HEAD"]):
                get_only = True
    # should_create_intermediate_directories
    ctree = read_source(SRC_COMMON)[1]
    fn = None
    for st in ctree.body:
        if isinstance(st, ast.FunctionDef) and st.name == "should_create_intermediate_directories":
            fn = st
    if fn is None:
        raise TranslatorAbort("should_create_intermediate_directories not found")
    methods = excluded = None
    for n in ast.walk(fn):
        if isinstance(n, ast.Compare) and len(n.ops) == 1 and isinstance(n.comparators[0], (ast.Tuple, ast.List)):
            vals = [_const_str(e) for e in n.comparators[0].elts]
            if any(v is None for v in vals):
                raise TranslatorAbort("should_create_intermediate_directories: non-literal list")
            if isinstance(n.ops[0], ast.In) and isinstance(n.left, ast.Attribute) and n.left.attr == "method":
                methods = vals
            elif isinstance(n.ops[0], ast.NotIn) and _is_name(n.left, "t"):
                excluded = vals
            else:
                raise TranslatorAbort("should_create_intermediate_directories: comparison %s" % ast.dump(n)[:100])
    rets = [n for n in ast.walk(fn) if isinstance(n, ast.Return)]
    ok = (len(rets) == 1 and isinstance(rets[0].value, ast.Call) and _is_name(rets[0].value.func, "bool")
          and isinstance(rets[0].value.args[0], ast.BoolOp) and isinstance(rets[0].value.args[0].op, ast.And))
    if methods is None or excluded is None or not ok:
        raise TranslatorAbort("should_create_intermediate_directories: unexpected shape")
    return term, leaf, calls, other, get_only, methods, excluded


# ---------------------------------------------------------------------------------------------
# node layer
def _fail_notwriteable(e):
    """defer.fail(NotWriteableError()) possibly wrapped in DeferredContext(...)"""
    if isinstance(e, ast.Call) and _is_name(e.func, "DeferredContext") and len(e.args) == 1:
        e = e.args[0]
    return (isinstance(e, ast.Call) and isinstance(e.func, ast.Attribute) and e.func.attr == "fail" and _is_name(e.func.value, "defer")
            and len(e.args) == 1 and isinstance(e.args[0], ast.Call) and _is_name(e.args[0].func, "NotWriteableError"))


def _ro_receivers(test, where):
    """receivers checked in `a.is_readonly() [or b.is_readonly()]`"""
    parts = test.values if (isinstance(test, ast.BoolOp) and isinstance(test.op, ast.Or)) else [test]
    out = []
    for p in parts:
        if isinstance(p, ast.Call) and isinstance(p.func, ast.Attribute) and p.func.attr == "is_readonly" and not p.args \
                and isinstance(p.func.value, ast.Name):
            out.append(p.func.value.id)
        else:
            return None
    return out


def _effects(stmts, receivers=None):
    """(reaches self._node.modify/overwrite/upload, [self.<m> / <x>.<m> calls]) of a statement list;
    with `receivers`, only calls on those names are listed"""
    modifies = False
    calls = []
    for st in stmts:
        for n in ast.walk(st):
            if isinstance(n, ast.Call) and isinstance(n.func, ast.Attribute):
                f = n.func
                if isinstance(f.value, ast.Attribute) and _is_name(f.value.value, "self") and f.value.attr == "_node":
                    if f.attr in ("modify", "overwrite", "upload", "update"):
                        modifies = True
                    continue
                if isinstance(f.value, ast.Name) and (receivers is None or f.value.id in receivers):
                    c = "%s.%s" % (f.value.id, f.attr)
                    if c not in calls:
                        calls.append(c)
    return modifies, calls


def extract_dirnode():
    tree = read_source(SRC_DIRNODE)[1]
    cls = _classes(tree).get("DirectoryNode")
    if cls is None:
        raise TranslatorAbort("dirnode.DirectoryNode not found")
    ms = _methods(cls)
    names = set(ms)
    out = []
    for name, fn in ms.items():
        body = _no_doc(fn.body)
        guard_self = False
        guard_other = []
        rest = body
        where = "DirectoryNode." + name
        # add_file: the whole body sits in a `with ACTION.context():`
        if len(body) >= 1 and isinstance(body[0], ast.With):
            inner = body[0].body
            tail = body[1:]
            if all(isinstance(s, ast.Return) for s in tail):
                body = inner
                rest = inner
        seen_effect = False
        for i, st in enumerate(body):
            if isinstance(st, ast.If):
                rs = _ro_receivers(st.test, where)
                if rs is not None and not st.orelse and len(st.body) == 1 and isinstance(st.body[0], ast.Return) \
                        and _fail_notwriteable(st.body[0].value):
                    if not seen_effect:
                        guard_self = guard_self or ("self" in rs)
                        guard_other += [r for r in rs if r != "self"]
                        rest = body[:i] + body[i + 1:]
                    continue
                if rs is not None and st.orelse and len(st.body) == 1 and isinstance(st.body[0], ast.Assign) \
                        and _fail_notwriteable(st.body[0].value):
                    # if self.is_readonly(): d = fail(...) else: <effects>   (add_file)
                    if not seen_effect and not _effects(st.body)[0]:
                        guard_self = guard_self or ("self" in rs)
                        guard_other += [r for r in rs if r != "self"]
                        rest = body[:i] + st.orelse + body[i + 1:]
                    continue
            m, c = _effects([st])
            if m or any(x.split(".")[1] in names and x.split(".")[0] != "d" for x in c):
                seen_effect = True
        params = ["self"] + [a.arg for a in fn.args.args if a.arg != "self"]
        modifies, calls = _effects(rest, params)
        rel = [c for c in calls if c.split(".")[1] in names and c.split(".")[0] not in ("d", "defer", "log")
               and c.split(".")[1] not in BORING]
        # any other mention of is_readonly()+NotWriteableError than the recognised guard?
        nw = [n for n in ast.walk(fn) if _is_name(n, "NotWriteableError")]
        if nw and not (guard_self or guard_other):
            raise TranslatorAbort("%s mentions NotWriteableError in a shape the translator does not understand" % where)
        out.append((name, guard_self, guard_other, modifies, rel))
    return out


def extract_mutable():
    tree = read_source(SRC_MUTABLE)[1]
    cs = _classes(tree)
    if "MutableFileVersion" not in cs or "MutableFileNode" not in cs:
        raise TranslatorAbort("mutable/filenode.py: classes not found")
    asserts = []
    for name, fn in _methods(cs["MutableFileVersion"]).items():
        if name.startswith("_") or name.startswith("get_") or name.startswith("is_"):
            continue
        body = _no_doc(fn.body)
        a = False
        if body and isinstance(body[0], ast.Assert):
            t = body[0].test
            a = (isinstance(t, ast.UnaryOp) and isinstance(t.op, ast.Not) and isinstance(t.operand, ast.Call)
                 and isinstance(t.operand.func, ast.Attribute) and t.operand.func.attr == "is_readonly"
                 and _is_name(t.operand.func.value, "self"))
        asserts.append((name, a))
    gm = _methods(cs["MutableFileNode"]).get("get_mutable_version")
    if gm is None:
        raise TranslatorAbort("MutableFileNode.get_mutable_version not found")
    body = _no_doc(gm.body)
    ro_readable = False
    if body and isinstance(body[0], ast.If) and not body[0].orelse:
        t = body[0].test
        if (isinstance(t, ast.Call) and isinstance(t.func, ast.Attribute) and t.func.attr == "is_readonly" and _is_name(t.func.value, "self")
                and len(body[0].body) == 1 and isinstance(body[0].body[0], ast.Return)
                and isinstance(body[0].body[0].value, ast.Call) and isinstance(body[0].body[0].value.func, ast.Attribute)
                and body[0].body[0].value.func.attr == "get_readable_version"):
            ro_readable = True
    # MutableFileNode public mutators go through get_best_mutable_version + mfv.<same name>
    via = []
    mfn = _methods(cs["MutableFileNode"])
    for name in ("overwrite", "modify", "upload"):
        if name not in mfn:
            raise TranslatorAbort("MutableFileNode.%s not found" % name)
        priv = mfn.get("_" + name)
        ok = False
        if priv is not None:
            src = ast.dump(priv)
            ok = "get_best_mutable_version" in src and ("attr='%s'" % name) in src
        via.append((name, ok))
    gb = mfn.get("get_best_mutable_version")
    ok_gb = gb is not None and "get_mutable_version" in ast.dump(gb)
    return asserts, ro_readable, via, ok_gb


def _write_uri_shape(fn, where):
    body = _no_doc(fn.body)
    # `return None`
    if len(body) == 1 and isinstance(body[0], ast.Return) and (body[0].value is None or (isinstance(body[0].value, ast.Constant) and body[0].value.value is None)):
        return "never"
    # `return self.rw_uri`
    if len(body) == 1 and isinstance(body[0], ast.Return) and isinstance(body[0].value, ast.Attribute) and _is_name(body[0].value.value, "self"):
        return "stored:" + body[0].value.attr
    # `if self.is_readonly(): return None ; return <cap>.to_string()`
    if (len(body) == 2 and isinstance(body[0], ast.If) and not body[0].orelse and isinstance(body[0].test, ast.Call)
            and isinstance(body[0].test.func, ast.Attribute) and body[0].test.func.attr == "is_readonly"
            and len(body[0].body) == 1 and isinstance(body[0].body[0], ast.Return)
            and isinstance(body[0].body[0].value, ast.Constant) and body[0].body[0].value.value is None
            and isinstance(body[1], ast.Return)):
        return "unless_readonly"
    raise TranslatorAbort("%s.get_write_uri has an unknown shape" % where)


def extract_write_uri():
    out = []
    for src, cname in ((SRC_DIRNODE, "DirectoryNode"), (SRC_MUTABLE, "MutableFileNode"), (SRC_IMMUTABLE, "ImmutableFileNode"),
                       (SRC_LITERAL, "LiteralFileNode"), (SRC_UNKNOWN, "UnknownNode")):
        tree = read_source(src)[1]
        cls = _classes(tree).get(cname)
        fn = None
        cur = cls
        while cur is not None and fn is None:
            fn = _methods(cur).get("get_write_uri")
            if fn is None:
                nxt = None
                for b in _base_names(cur):
                    if b in _classes(tree):
                        nxt = _classes(tree)[b]
                cur = nxt
        if fn is None:
            raise TranslatorAbort("%s.get_write_uri not found" % cname)
        out.append((cname, _write_uri_shape(fn, cname)))
    # is_readonly of the directory node defers to the underlying file node
    dn = _methods(_classes(read_source(SRC_DIRNODE)[1])["DirectoryNode"])["is_readonly"]
    body = _no_doc(dn.body)
    ok = (len(body) == 1 and isinstance(body[0], ast.Return) and isinstance(body[0].value, ast.Call)
          and isinstance(body[0].value.func, ast.Attribute) and body[0].value.func.attr == "is_readonly")
    if not ok:
        raise TranslatorAbort("DirectoryNode.is_readonly is not `return self._node.is_readonly()`")
    return out


def extract_rw_emitters(trees):
    """Every store under the key 'rw_uri' in the web modules."""
    out = []
    srcs = dict(trees)
    srcs[SRC_UNLINKED] = read_source(SRC_UNLINKED)[1]
    srcs["src/allmydata/web/info.py"] = read_source("src/allmydata/web/info.py")[1]
    for src, tree in srcs.items():
        funcs = [n for n in ast.walk(tree) if isinstance(n, (ast.FunctionDef, ast.AsyncFunctionDef))]
        claimed = set()
        for fn in funcs:
            for n in ast.walk(fn):
                if isinstance(n, ast.If) and isinstance(n.test, ast.Name):
                    for st in n.body:
                        if (isinstance(st, ast.Assign) and len(st.targets) == 1 and isinstance(st.targets[0], ast.Subscript)
                                and _const_str(st.targets[0].slice) == "rw_uri"):
                            if id(st) in claimed:
                                continue
                            if not _is_name(st.value, n.test.id):
                                raise TranslatorAbort("%s:%d: rw_uri is stored from %s, not from the tested variable" % (src, st.lineno, ast.dump(st.value)[:60]))
                            # the variable: assigned once in this function from <x>.get_write_uri()
                            defs = [a for a in ast.walk(fn) if isinstance(a, ast.Assign) and len(a.targets) == 1 and _is_name(a.targets[0], n.test.id)]
                            if len(defs) != 1 or not (isinstance(defs[0].value, ast.Call) and isinstance(defs[0].value.func, ast.Attribute)
                                                      and defs[0].value.func.attr == "get_write_uri" and not defs[0].value.args
                                                      and isinstance(defs[0].value.func.value, ast.Name)):
                                raise TranslatorAbort("%s:%d: %s is not assigned exactly once from <node>.get_write_uri()" % (src, st.lineno, n.test.id))
                            claimed.add(id(st))
                            out.append((fn.name, defs[0].value.func.value.id))
        # closed world: any other 'rw_uri' constant used as a store key / dict-literal key
        for n in ast.walk(tree):
            if isinstance(n, ast.Assign):
                for t in n.targets:
                    if isinstance(t, ast.Subscript) and _const_str(t.slice) == "rw_uri" and id(n) not in claimed:
                        raise TranslatorAbort("%s:%d: rw_uri stored outside `if <v>:` with v = <node>.get_write_uri()" % (src, n.lineno))
            if isinstance(n, ast.Dict):
                for k in n.keys:
                    if k is not None and _const_str(k) == "rw_uri":
                        raise TranslatorAbort("%s:%d: dict literal with an rw_uri key" % (src, n.lineno))
    return out


# ---------------------------------------------------------------------------------------------
def extract():
    ops, defaults, defined, trees = extract_handlers()
    trav = extract_traversal(trees)
    dn = extract_dirnode()
    mut = extract_mutable()
    wu = extract_write_uri()
    em = extract_rw_emitters(trees)
    return {"ops": ops, "defaults": defaults, "defined": defined, "traversal": trav, "dirnode": dn,
            "mutable": mut, "write_uri": wu, "emitters": em}


def _b(x):
    return "true" if x else "false"


def _sl(xs):
    return "[" + "; ".join(coq_string(x) for x in xs) + "]"


def render(x):
    o = []
    o.append("Record web_op : Set := mk_web_op {\n  wo_class : string; wo_method : string; wo_t : string;\n"
             "  wo_calls : list (string * bool)  (* node-layer call, dominated by a web-level read-only guard *) }.\n")
    o.append("(* render_PUT / render_POST / render_DELETE dispatch of the /uri and /file handlers, source order;\n"
             "   wo_t = \"*\" : the method does not dispatch on t *)")
    rows = []
    for c, m, t, calls in x["ops"]:
        rows.append("  mk_web_op %s %s %s [%s]" % (coq_string(c), coq_string(m), coq_string(t),
                                                   "; ".join("(%s, %s)" % (coq_string(k), _b(g)) for k, g in calls)))
    o.append("Definition web_ops : list web_op := [\n" + ";\n".join(rows) + "\n].\n")
    o.append("(* (class, method, an unmatched t= ends in raise WebError) *)")
    o.append("Definition web_defaults : list (string * string * bool) := [%s].\n"
             % "; ".join("(%s, %s, %s)" % (coq_string(c), coq_string(m), _b(r)) for c, m, r in x["defaults"]))
    o.append("(* modifying methods each handler class defines (own or inherited from a web-module base) *)")
    o.append("Definition handler_methods : list (string * list string) := [%s].\n"
             % "; ".join("(%s, %s)" % (coq_string(c), _sl(ms)) for c, ms in x["defined"]))
    term, leaf, calls, other, get_only, methods, excluded = x["traversal"]
    pr = lambda ps: "[" + "; ".join("(%s, %s)" % (coq_string(a), coq_string(b)) for a, b in ps) + "]"
    o.append("(* DirectoryNodeHandler._got_child *)")
    o.append("Definition getchild_terminal_requests : list (string * string) := %s." % pr(term))
    o.append("Definition getchild_leaf_requests : list (string * string) := %s." % pr(leaf))
    o.append("Definition getchild_calls : list string := %s." % _sl(calls))
    o.append("Definition other_getchild_calls : list (string * list string) := [%s]."
             % "; ".join("(%s, %s)" % (coq_string(c), _sl(cs)) for c, cs in other))
    o.append("Definition file_handler_get_head_only : bool := %s." % _b(get_only))
    o.append("(* common.should_create_intermediate_directories *)")
    o.append("Definition intermediate_methods : list string := %s." % _sl(methods))
    o.append("Definition intermediate_excluded_t : list string := %s.\n" % _sl(excluded))
    o.append("Record dn_method : Set := mk_dn_method {\n  dn_name : string; dn_guard_self : bool; dn_guard_other : list string;\n"
             "  dn_modifies : bool  (* reaches self._node.modify/overwrite/upload outside the guard *);\n"
             "  dn_calls : list string (* calls of DirectoryNode methods on self / another directory *) }.\n")
    o.append("Definition dn_methods : list dn_method := [\n" + ";\n".join(
        "  mk_dn_method %s %s %s %s %s" % (coq_string(n), _b(gs), _sl(go), _b(m), _sl(cs))
        for n, gs, go, m, cs in x["dirnode"]) + "\n].\n")
    asserts, ro_readable, via, ok_gb = x["mutable"]
    o.append("(* MutableFileVersion.<m> starts with `assert not self.is_readonly()` *)")
    o.append("Definition mfv_asserts : list (string * bool) := [%s]."
             % "; ".join("(%s, %s)" % (coq_string(n), _b(a)) for n, a in asserts))
    o.append("(* MutableFileNode.get_mutable_version: `if self.is_readonly(): return self.get_readable_version(...)` *)")
    o.append("Definition ro_node_gets_readable_version : bool := %s." % _b(ro_readable))
    o.append("(* MutableFileNode.<m> = get_best_mutable_version().<m> *)")
    o.append("Definition mfn_via_version : list (string * bool) := [%s]."
             % "; ".join("(%s, %s)" % (coq_string(n), _b(a)) for n, a in via))
    o.append("Definition best_version_is_mutable_version : bool := %s.\n" % _b(ok_gb))
    o.append("(* get_write_uri per node class: \"unless_readonly\" = None when is_readonly(); \"never\" = always None;\n"
             "   \"stored:<attr>\" = the write cap the node was built with (UnknownNode) *)")
    o.append("Definition write_uri_sources : list (string * string) := [%s]."
             % "; ".join("(%s, %s)" % (coq_string(c), coq_string(s)) for c, s in x["write_uri"]))
    o.append("(* every store under the key 'rw_uri' in web/*.py: (function, node variable whose get_write_uri() is stored if true) *)")
    o.append("Definition rw_uri_emitters : list (string * string) := [%s]."
             % "; ".join("(%s, %s)" % (coq_string(f), coq_string(v)) for f, v in x["emitters"]))
    return "\n".join(o) + "\n"


def generate():
    x = extract()
    srcs = ", ".join([SRC_FILENODE, SRC_DIRECTORY, SRC_ROOT, SRC_COMMON, SRC_DIRNODE, SRC_MUTABLE, SRC_IMMUTABLE, SRC_LITERAL, SRC_UNKNOWN])
    body = (HEADER % ("webops.py", srcs)
            + "From Coq Require Import List Bool String.\nImport ListNotations.\nLocal Open Scope string_scope.\n\n"
            + render(x))
    emit("WebOps.v", body)
    return x


if __name__ == "__main__":
    import json
    print(json.dumps(generate(), indent=1, default=str))
