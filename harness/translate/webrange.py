"""src/allmydata/web/filenode.py  ->  coq/Gen/WebRange.v

Extracted as data: the range unit literal, the two Content-Range format strings,
the text and status of the 416 error, the status of the partial response.
Pinned (AST fingerprint, compared by theorem `pins` in Props/C40.v; Model/Range.v
was written for exactly these bodies): FileDownloader.parse_range_header,
FileDownloader.render, FileNodeHandler.render_GET, FileNodeHandler.render_HEAD.
Anything that does not have the expected shape aborts."""
import ast

from .common import HEADER, TranslatorAbort, coq_bytes, coq_string, dump_hash, emit, read_source

SRC = "src/allmydata/web/filenode.py"
HTTP = {"PARTIAL_CONTENT": 206, "REQUESTED_RANGE_NOT_SATISFIABLE": 416}


def _method(tree, cls, name):
    for st in tree.body:
        if isinstance(st, ast.ClassDef) and st.name == cls:
            for m in st.body:
                if isinstance(m, ast.FunctionDef) and m.name == name:
                    return m
    raise TranslatorAbort("%s.%s not found" % (cls, name))


def _pin(node):
    """Fingerprint with the text of raised WebErrors blanked (the text is extracted as data,
    the status stays in the fingerprint)."""
    import copy
    node = copy.deepcopy(node)
    for n in ast.walk(node):
        if (isinstance(n, ast.Raise) and isinstance(n.exc, ast.Call) and n.exc.args
                and isinstance(n.exc.args[0], ast.Constant) and isinstance(n.exc.args[0].value, str)):
            n.exc.args[0] = ast.Constant(value="")
    return dump_hash(node)


def _http(e, where):
    if isinstance(e, ast.Attribute) and isinstance(e.value, ast.Name) and e.value.id == "http" and e.attr in HTTP:
        return HTTP[e.attr]
    raise TranslatorAbort("%s: unknown status %s" % (where, ast.dump(e)[:80]))


def generate():
    _, tree = read_source(SRC)
    prh = _method(tree, "FileDownloader", "parse_range_header")
    render = _method(tree, "FileDownloader", "render")
    # units != '<literal>'
    units = [n.comparators[0].value for n in ast.walk(prh)
             if isinstance(n, ast.Compare) and isinstance(n.left, ast.Name) and n.left.id == "units"
             and len(n.ops) == 1 and isinstance(n.ops[0], ast.NotEq) and isinstance(n.comparators[0], ast.Constant)]
    if len(units) != 1 or not isinstance(units[0], str):
        raise TranslatorAbort("parse_range_header: expected exactly one `units != '<literal>'` test")
    seps = sorted(n.args[0].value for n in ast.walk(prh)
                  if isinstance(n, ast.Call) and isinstance(n.func, ast.Attribute) and n.func.attr == "split" and n.args and isinstance(n.args[0], ast.Constant))
    if seps != [",", "-", "="]:
        raise TranslatorAbort("parse_range_header: split separators are %r" % (seps,))
    # content-range formats
    fmts = []
    for n in ast.walk(render):
        if (isinstance(n, ast.Call) and isinstance(n.func, ast.Attribute) and n.func.attr == "setHeader" and len(n.args) == 2
                and isinstance(n.args[0], ast.Constant) and n.args[0].value == "content-range"):
            v = n.args[1]
            if not (isinstance(v, ast.BinOp) and isinstance(v.op, ast.Mod) and isinstance(v.left, ast.Constant) and isinstance(v.left.value, str)):
                raise TranslatorAbort("render: content-range value is not a %-format")
            fmts.append(v.left.value)
    if len(fmts) != 2:
        raise TranslatorAbort("render: expected two content-range headers, found %d" % len(fmts))
    # raise WebError('<text>', http.X)
    errs = [(n.exc.args[0].value, _http(n.exc.args[1], "WebError")) for n in ast.walk(render)
            if isinstance(n, ast.Raise) and isinstance(n.exc, ast.Call) and isinstance(n.exc.func, ast.Name) and n.exc.func.id == "WebError"
            and len(n.exc.args) == 2 and isinstance(n.exc.args[0], ast.Constant)]
    if len(errs) != 1:
        raise TranslatorAbort("render: expected exactly one raise WebError(text, status)")
    codes = [_http(n.args[0], "setResponseCode") for n in ast.walk(render)
             if isinstance(n, ast.Call) and isinstance(n.func, ast.Attribute) and n.func.attr == "setResponseCode" and len(n.args) == 1]
    if len(codes) != 1:
        raise TranslatorAbort("render: expected exactly one setResponseCode")
    pins = {
        "parse_range_header": _pin(prh),
        "render": _pin(render),
        "render_GET": _pin(_method(tree, "FileNodeHandler", "render_GET")),
        "render_HEAD": _pin(_method(tree, "FileNodeHandler", "render_HEAD")),
    }
    o = [HEADER % ("webrange.py", SRC)]
    o.append("From Coq Require Import List NArith Bool String.\nFrom Verif Require Import Lib.Hex.\nImport ListNotations.\nLocal Open Scope N_scope.\n\n")
    for k, v in sorted(pins.items()):
        o.append('Definition pin_%s : string := "%s"%%string.\n' % (k, v))
    o.append("\nDefinition range_unit : list N := %s.\n" % coq_bytes(units[0].encode("ascii")))
    o.append("Definition content_range_formats : list string := [%s].\n" % "; ".join(coq_string(f) + "%string" for f in fmts))
    o.append("Definition unsatisfiable_text : list N := %s.\n" % coq_bytes(errs[0][0].encode("ascii")))
    o.append("Definition unsatisfiable_status : N := %d.\n" % errs[0][1])
    o.append("Definition partial_status : N := %d.\n" % codes[0])
    emit("WebRange.v", "".join(o))
    return pins


if __name__ == "__main__":
    print(generate())
