"""storage/lease.py, storage/immutable.py, storage/immutable_schema.py,
storage/mutable.py, storage/mutable_schema.py  ->  coq/Gen/Structs.v

What is regenerated from the working tree on every run:

* every literal `struct` format string (parsed into `list field`, Lib/Bytes.v),
  per file and enclosing function, plus the named ones the model uses
  (IMMUTABLE_FORMAT, MUTABLE_FORMAT, _HEADER_FORMAT, the formats of the header
  pack/unpack calls);
* every size/offset constant, as the *expression* the source computes it with
  (`struct.calcsize(fmt)`, sums and products of earlier constants,
  `LeaseInfo().mutable_size()`), so Coq re-evaluates the layout arithmetic;
  the `assert X == n` lines of mutable.py become boolean definitions;
* the argument tuples of the header `struct.pack` calls as Gallina functions
  (`self.version`, `min(2**32 - 1, max_size)`, `0`, ...), the field order of
  the lease pack/unpack methods, the schema version sets, the constants of
  `_magic`;
* AST fingerprints of the functions the hand-written model mirrors.

Fail closed: any format character, expression form or missing definition the
translator does not know raises TranslatorAbort."""
import ast
import re

from .common import HEADER, TranslatorAbort, coq_bytes, coq_string, dump_hash, emit, read_source

LEASE = "src/allmydata/storage/lease.py"
IMM = "src/allmydata/storage/immutable.py"
IMM_SCHEMA = "src/allmydata/storage/immutable_schema.py"
MUT = "src/allmydata/storage/mutable.py"
MUT_SCHEMA = "src/allmydata/storage/mutable_schema.py"

INT_CODES = {"B": 1, "H": 2, "L": 4, "I": 4, "Q": 8}


def parse_format(fmt, where="?"):
    """'>L32s32sL' -> [('U', 4), ('S', 32), ('S', 32), ('U', 4)]  (big-endian, standard sizes only)."""
    if not isinstance(fmt, str) or not fmt.startswith(">"):
        raise TranslatorAbort("%s: struct format %r is not an explicit big-endian format" % (where, fmt))
    out = []
    pos = 1
    item = re.compile(r"(\d*)([A-Za-z?])")
    while pos < len(fmt):
        m = item.match(fmt, pos)
        if not m:
            raise TranslatorAbort("%s: cannot parse struct format %r at %d" % (where, fmt, pos))
        count, code = m.group(1), m.group(2)
        pos = m.end()
        if code == "s":
            out.append(("S", int(count) if count else 1))
        elif code in INT_CODES:
            out.extend([("U", INT_CODES[code])] * (int(count) if count else 1))
        else:
            raise TranslatorAbort("%s: unsupported struct format character %r in %r" % (where, code, fmt))
    return out


def coq_format(fields):
    return "[" + "; ".join(("FUInt %d" if k == "U" else "FBytes %d") % n for k, n in fields) + "]"


def is_struct_call(node, names=("pack", "unpack", "calcsize")):
    return (isinstance(node, ast.Call) and isinstance(node.func, ast.Attribute) and node.func.attr in names
            and isinstance(node.func.value, ast.Name) and node.func.value.id == "struct")


class Module(object):
    """One source file: named formats, constants, literal formats per function."""

    def __init__(self, rel, prefix):
        self.rel = rel
        self.prefix = prefix
        self.text, self.tree = read_source(rel)
        self.formats = {}     # python name -> parsed
        self.consts = {}      # python name -> coq name   (N constants)
        self.out = []

    def cname(self, name):
        return self.prefix + "_" + name.lstrip("_")

    def find(self, kind, name, body=None):
        for n in (body if body is not None else self.tree.body):
            if isinstance(n, kind) and getattr(n, "name", None) == name:
                return n
        raise TranslatorAbort("%s: %s %s not found" % (self.rel, kind.__name__, name))

    def method(self, cls, name):
        return self.find(ast.FunctionDef, name, self.find(ast.ClassDef, cls).body)

    # ---- formats -------------------------------------------------------------
    def fmt_of(self, node, where, extra_formats=None):
        """Format argument of a struct call -> (coq term, parsed) ; literal or a named format constant."""
        if isinstance(node, ast.Constant) and isinstance(node.value, str):
            p = parse_format(node.value, where)
            return coq_format(p), p
        if isinstance(node, ast.Name):
            if node.id in self.formats:
                return self.cname(node.id), self.formats[node.id]
            if extra_formats and node.id in extra_formats:
                return extra_formats[node.id]
        raise TranslatorAbort("%s: struct format argument is neither a literal nor a known format constant: %s" % (where, ast.dump(node)[:80]))

    def define_format(self, name, value):
        p = parse_format(value, "%s:%s" % (self.rel, name))
        self.formats[name] = p
        self.out.append("Definition %s : list field := %s.\n" % (self.cname(name), coq_format(p)))
        self.out.append("Definition %s_source : string := %s.\n" % (self.cname(name), coq_string(value)))

    def literal_formats(self, label):
        """All literal struct formats in the file, in source order, with the enclosing function."""
        items = []

        def walk(node, fn):
            for ch in ast.iter_child_nodes(node):
                f = ch.name if isinstance(ch, (ast.FunctionDef, ast.ClassDef)) else fn
                if is_struct_call(ch) and ch.args and isinstance(ch.args[0], ast.Constant) and isinstance(ch.args[0].value, str):
                    items.append((fn or "<module>", ch.func.attr, ch.args[0].value, ch.lineno, ch.col_offset))
                walk(ch, f)
        walk(self.tree, None)
        items.sort(key=lambda t: (t[3], t[4]))
        rows = []
        for fn, kind, fmt, _, _ in items:
            rows.append("(%s, %s, %s)" % (coq_string(fn), coq_string(kind), coq_format(parse_format(fmt, "%s:%s" % (self.rel, fn)))))
        self.out.append("Definition %s : list (string * string * list field) :=\n  [%s].\n" % (label, ";\n   ".join(rows)))

    # ---- constant expressions --------------------------------------------------
    def cexpr(self, e, where, lease):
        """Integer constant expression -> Coq term of type N (symbolic: re-evaluated by Coq)."""
        if isinstance(e, ast.Constant) and isinstance(e.value, int) and not isinstance(e.value, bool) and e.value >= 0:
            return "%d" % e.value
        if isinstance(e, ast.Name):
            if e.id in self.consts:
                return self.consts[e.id]
            raise TranslatorAbort("%s: unknown constant %s" % (where, e.id))
        if isinstance(e, ast.BinOp) and isinstance(e.op, (ast.Add, ast.Mult, ast.Sub, ast.Pow)):
            op = {ast.Add: "+", ast.Mult: "*", ast.Sub: "-", ast.Pow: "^"}[type(e.op)]
            return "(%s %s %s)" % (self.cexpr(e.left, where, lease), op, self.cexpr(e.right, where, lease))
        if is_struct_call(e, ("calcsize",)) and len(e.args) == 1 and not e.keywords:
            term, _ = self.fmt_of(e.args[0], where)
            return "(calcsize %s)" % term
        # LeaseInfo().mutable_size() / LeaseInfo().immutable_size()
        if (isinstance(e, ast.Call) and not e.args and not e.keywords and isinstance(e.func, ast.Attribute)
                and e.func.attr in ("mutable_size", "immutable_size")
                and isinstance(e.func.value, ast.Call) and isinstance(e.func.value.func, ast.Name)
                and e.func.value.func.id == "LeaseInfo" and not e.func.value.args and not e.func.value.keywords):
            if lease is None:
                raise TranslatorAbort("%s: LeaseInfo size used before lease.py was translated" % where)
            return lease[e.func.attr]
        raise TranslatorAbort("%s: unsupported constant expression %s" % (where, ast.dump(e)[:120]))

    def define_const(self, name, e, lease=None):
        term = self.cexpr(e, "%s:%s" % (self.rel, name), lease)
        cn = self.cname(name)
        self.consts[name] = cn
        self.out.append("Definition %s : N := %s.\n" % (cn, term))

    def pin(self, label, node):
        self.out.append('Definition pin_%s : string := "%s"%%string.\n' % (label, dump_hash(node)))


def names_list(node, where):
    if not (isinstance(node, ast.List) and all(isinstance(x, ast.Constant) and isinstance(x.value, str) for x in node.elts)):
        raise TranslatorAbort("%s: expected a list of string literals" % where)
    return [x.value for x in node.elts]


def coq_strings(xs):
    return "[" + "; ".join(coq_string(x) for x in xs) + "]"


def self_attr(e):
    """self.x / self._x / int(self._x)  ->  'x' (leading underscores dropped)."""
    if isinstance(e, ast.Call) and isinstance(e.func, ast.Name) and e.func.id == "int" and len(e.args) == 1 and not e.keywords:
        e = e.args[0]
    if isinstance(e, ast.Attribute) and isinstance(e.value, ast.Name) and e.value.id == "self":
        return e.attr.lstrip("_")
    return None


def only_return(fn, where):
    body = [s for s in fn.body if not (isinstance(s, ast.Expr) and isinstance(s.value, ast.Constant))]
    if len(body) != 1 or not isinstance(body[0], ast.Return):
        raise TranslatorAbort("%s: expected a single return statement" % where)
    return body[0].value


# ---------------------------------------------------------------------------
def lease(out):
    m = Module(LEASE, "lease")
    for st in m.tree.body:
        if isinstance(st, ast.Assign) and len(st.targets) == 1 and isinstance(st.targets[0], ast.Name) \
                and st.targets[0].id.endswith("_FORMAT"):
            if not (isinstance(st.value, ast.Constant) and isinstance(st.value.value, str)):
                raise TranslatorAbort("lease.py: %s is not a string literal" % st.targets[0].id)
            m.define_format(st.targets[0].id, st.value.value)
    for need in ("IMMUTABLE_FORMAT", "MUTABLE_FORMAT"):
        if need not in m.formats:
            raise TranslatorAbort("lease.py: %s missing" % need)
    # sizes: immutable_size()/mutable_size() must be `return struct.calcsize(<FORMAT>)`
    sizes = {}
    for meth, fmt in (("immutable_size", "IMMUTABLE_FORMAT"), ("mutable_size", "MUTABLE_FORMAT")):
        r = only_return(m.method("LeaseInfo", meth), "lease.py:" + meth)
        if not (is_struct_call(r, ("calcsize",)) and len(r.args) == 1 and isinstance(r.args[0], ast.Name) and r.args[0].id == fmt):
            raise TranslatorAbort("lease.py: %s is not struct.calcsize(%s)" % (meth, fmt))
        cn = "lease_" + meth
        m.out.append("Definition %s : N := calcsize %s.\n" % (cn, m.cname(fmt)))
        sizes[meth] = cn
    # field order of pack (to_*_data) and unpack (from_*_data)
    for meth, fmt in (("to_immutable_data", "IMMUTABLE_FORMAT"), ("to_mutable_data", "MUTABLE_FORMAT")):
        r = only_return(m.method("LeaseInfo", meth), "lease.py:" + meth)
        if not (is_struct_call(r, ("pack",)) and r.args and isinstance(r.args[0], ast.Name) and r.args[0].id == fmt and not r.keywords):
            raise TranslatorAbort("lease.py: %s is not struct.pack(%s, ...)" % (meth, fmt))
        fields = [self_attr(a) for a in r.args[1:]]
        if None in fields:
            raise TranslatorAbort("lease.py: %s packs something other than attributes of self" % meth)
        if len(fields) != len(m.formats[fmt]):
            raise TranslatorAbort("lease.py: %s passes %d values for %d fields" % (meth, len(fields), len(m.formats[fmt])))
        m.out.append("Definition lease_%s_fields : list string := %s.\n" % (meth, coq_strings(fields)))
    for meth, fmt in (("from_immutable_data", "IMMUTABLE_FORMAT"), ("from_mutable_data", "MUTABLE_FORMAT")):
        fn = m.method("LeaseInfo", meth)
        names = None
        unpack_ok = False
        for st in ast.walk(fn):
            if isinstance(st, ast.Assign) and len(st.targets) == 1 and isinstance(st.targets[0], ast.Name) and st.targets[0].id == "names":
                names = names_list(st.value, "lease.py:" + meth)
            if is_struct_call(st, ("unpack",)) and len(st.args) == 2 and isinstance(st.args[0], ast.Name) and st.args[0].id == fmt:
                unpack_ok = True
        if names is None or not unpack_ok:
            raise TranslatorAbort("lease.py: %s: names list or struct.unpack(%s, data) not found" % (meth, fmt))
        m.out.append("Definition lease_%s_fields : list string := %s.\n" % (meth, coq_strings(names)))
        m.pin("lease_" + meth, fn)
    m.pin("lease_validate_nodeid", m.method("LeaseInfo", "_validate_nodeid"))
    out.append("(* ---- %s ---- *)\n" % LEASE)
    out.extend(m.out)
    return sizes


def immutable(out, lease_sizes):
    m = Module(IMM, "immutable")
    cls = m.find(ast.ClassDef, "ShareFile")
    found = False
    for st in cls.body:
        if isinstance(st, ast.Assign) and len(st.targets) == 1 and isinstance(st.targets[0], ast.Name) and st.targets[0].id == "LEASE_SIZE":
            m.define_const("LEASE_SIZE", st.value, lease_sizes)
            found = True
    if not found:
        raise TranslatorAbort("immutable.py: ShareFile.LEASE_SIZE missing")
    init = m.method("ShareFile", "__init__")
    # default lease_count_format
    args = init.args
    names = [a.arg for a in args.args]
    if "lease_count_format" not in names:
        raise TranslatorAbort("immutable.py: ShareFile.__init__ has no lease_count_format parameter")
    d = args.defaults[names.index("lease_count_format") - (len(names) - len(args.defaults))]
    if not (isinstance(d, ast.Constant) and isinstance(d.value, str) and len(d.value) == 1):
        raise TranslatorAbort("immutable.py: lease_count_format default is not a one-character literal")
    m.define_format("lease_count_format_default", ">" + d.value)
    m.pin("immutable_fix_lease_count_format", m.find(ast.FunctionDef, "_fix_lease_count_format"))
    # header read: (version, unused, num_leases) = struct.unpack(FMT, f.read(K)) ; self._data_offset = K ; self._lease_offset = max_size + K
    got = {}
    for st in ast.walk(init):
        if isinstance(st, ast.Assign) and len(st.targets) == 1:
            t, v = st.targets[0], st.value
            if isinstance(t, ast.Tuple) and is_struct_call(v, ("unpack",)) and len(v.args) == 2:
                tn = [x.id for x in t.elts if isinstance(x, ast.Name)]
                rd = v.args[1]
                if not (isinstance(rd, ast.Call) and isinstance(rd.func, ast.Attribute) and rd.func.attr == "read" and len(rd.args) == 1):
                    raise TranslatorAbort("immutable.py: header unpack does not read from the file")
                term, parsed = m.fmt_of(v.args[0], "immutable.py:__init__")
                if len(tn) != len(parsed):
                    raise TranslatorAbort("immutable.py: header unpack target/format arity differs")
                got["hdr"] = (term, tn, rd.args[0])
            if isinstance(t, ast.Attribute) and isinstance(t.value, ast.Name) and t.value.id == "self":
                if t.attr == "_data_offset":
                    got["data_offset"] = v
                if t.attr == "_lease_offset" and isinstance(v, ast.BinOp) and isinstance(v.op, ast.Add) \
                        and isinstance(v.left, ast.Name) and v.left.id == "max_size":
                    got["lease_offset_add"] = v.right
    for k in ("hdr", "data_offset", "lease_offset_add"):
        if k not in got:
            raise TranslatorAbort("immutable.py: ShareFile.__init__: %s not recognised" % k)
    m.out.append("Definition immutable_header_read_format : list field := %s.\n" % got["hdr"][0])
    m.out.append("Definition immutable_header_read_names : list string := %s.\n" % coq_strings(got["hdr"][1]))
    m.define_const("header_read_size", got["hdr"][2])
    m.define_const("data_offset", got["data_offset"])
    m.define_const("lease_offset_add", got["lease_offset_add"])
    m.literal_formats("immutable_literal_formats")
    m.pin("immutable_is_valid_header", m.method("ShareFile", "is_valid_header"))
    out.append("(* ---- %s ---- *)\n" % IMM)
    out.extend(m.out)


def header_arg(e, params, where):
    """Argument of a header struct.pack call -> (kind, coq)."""
    if isinstance(e, ast.Constant) and isinstance(e.value, int) and not isinstance(e.value, bool) and e.value >= 0:
        return "%d" % e.value
    if isinstance(e, ast.Name) and e.id in params:
        return e.id
    if isinstance(e, ast.Attribute) and isinstance(e.value, ast.Name) and e.value.id == "self" and e.attr.lstrip("_") in params:
        return e.attr.lstrip("_")
    if isinstance(e, ast.BinOp) and isinstance(e.op, (ast.Add, ast.Sub, ast.Mult, ast.Pow)):
        op = {ast.Add: "+", ast.Mult: "*", ast.Sub: "-", ast.Pow: "^"}[type(e.op)]
        return "(%s %s %s)" % (header_arg(e.left, params, where), op, header_arg(e.right, params, where))
    if isinstance(e, ast.Call) and isinstance(e.func, ast.Name) and e.func.id in ("min", "max") and len(e.args) == 2 and not e.keywords:
        return "(N.%s %s %s)" % (e.func.id, header_arg(e.args[0], params, where), header_arg(e.args[1], params, where))
    raise TranslatorAbort("%s: unsupported header field expression %s" % (where, ast.dump(e)[:120]))


def schema_versions(m, where, ctor_kw):
    """ALL_SCHEMAS = { _Schema(...version=N..., lease_serializer=name), ... } -> [(N, name)] in source order."""
    for st in m.tree.body:
        if isinstance(st, ast.Assign) and len(st.targets) == 1 and isinstance(st.targets[0], ast.Name) and st.targets[0].id == "ALL_SCHEMAS":
            if not isinstance(st.value, ast.Set):
                raise TranslatorAbort("%s: ALL_SCHEMAS is not a set display" % where)
            out = []
            for c in st.value.elts:
                if not (isinstance(c, ast.Call) and not c.args):
                    raise TranslatorAbort("%s: unexpected ALL_SCHEMAS element" % where)
                fname = c.func.id if isinstance(c.func, ast.Name) else (c.func.value.id + "." + c.func.attr if isinstance(c.func, ast.Attribute) and isinstance(c.func.value, ast.Name) else None)
                if fname != ctor_kw:
                    raise TranslatorAbort("%s: ALL_SCHEMAS element built by %s, expected %s" % (where, fname, ctor_kw))
                kw = {k.arg: k.value for k in c.keywords}
                if set(kw) != {"version", "lease_serializer"} or not (isinstance(kw["version"], ast.Constant) and isinstance(kw["version"].value, int)) \
                        or not isinstance(kw["lease_serializer"], ast.Name):
                    raise TranslatorAbort("%s: unexpected ALL_SCHEMAS element arguments" % where)
                out.append((kw["version"].value, kw["lease_serializer"].id))
            return out
    raise TranslatorAbort("%s: ALL_SCHEMAS missing" % where)


def immutable_schema(out):
    m = Module(IMM_SCHEMA, "ischema")
    fn = m.method("_Schema", "header")
    r = only_return(fn, "immutable_schema.py:header")
    if not (is_struct_call(r, ("pack",)) and r.args and not r.keywords):
        raise TranslatorAbort("immutable_schema.py: header is not a single struct.pack")
    term, parsed = m.fmt_of(r.args[0], "immutable_schema.py:header")
    params = ["version", "max_size"]
    vals = [header_arg(a, params, "immutable_schema.py:header") for a in r.args[1:]]
    if len(vals) != len(parsed) or any(k != "U" for k, _ in parsed):
        raise TranslatorAbort("immutable_schema.py: header field count/kinds unexpected")
    m.out.append("Definition ischema_header_format : list field := %s.\n" % term)
    m.out.append("Definition ischema_header_values (version max_size : N) : list fval :=\n  [%s].\n" % "; ".join("VInt %s" % v for v in vals))
    vs = schema_versions(m, "immutable_schema.py", "_Schema")
    m.out.append("Definition ischema_versions : list N := [%s].\n" % "; ".join("%d" % v for v, _ in vs))
    m.out.append("Definition ischema_serializers : list (N * string) := [%s].\n" % "; ".join("(%d, %s)" % (v, coq_string(s)) for v, s in vs))
    m.pin("ischema_schema_from_version", m.find(ast.FunctionDef, "schema_from_version"))
    out.append("(* ---- %s ---- *)\n" % IMM_SCHEMA)
    out.extend(m.out)


def mutable_schema(out, lease_sizes):
    m = Module(MUT_SCHEMA, "mschema")
    hdr = m.find(ast.FunctionDef, "_header")
    hparams = [a.arg for a in hdr.args.args]
    if hparams != ["magic", "extra_lease_offset", "nodeid", "write_enabler"]:
        raise TranslatorAbort("mutable_schema.py: _header parameters changed: %r" % hparams)
    seen = {}
    for st in hdr.body:
        if isinstance(st, ast.Expr) and isinstance(st.value, ast.Constant):
            continue
        if isinstance(st, ast.Assign) and len(st.targets) == 1 and isinstance(st.targets[0], ast.Name):
            seen[st.targets[0].id] = st.value
            continue
        if isinstance(st, ast.Return):
            seen["return"] = st.value
            continue
        raise TranslatorAbort("mutable_schema.py: _header: unsupported statement %s" % ast.dump(st)[:100])
    if set(seen) != {"fixed_header", "blank_leases", "extra_lease_count", "return"}:
        raise TranslatorAbort("mutable_schema.py: _header: unexpected bindings %r" % sorted(seen))
    fh = seen["fixed_header"]
    if not (is_struct_call(fh, ("pack",)) and not fh.keywords):
        raise TranslatorAbort("mutable_schema.py: fixed_header is not struct.pack")
    term, parsed = m.fmt_of(fh.args[0], "mutable_schema.py:_header")
    if len(parsed) != len(fh.args) - 1:
        raise TranslatorAbort("mutable_schema.py: fixed_header arity")
    vals = []
    for (kind, _), a in zip(parsed, fh.args[1:]):
        v = header_arg(a, hparams, "mutable_schema.py:_header")
        vals.append(("VInt %s" if kind == "U" else "VBytes %s") % v)
    m.out.append("Definition mschema_fixed_header_format : list field := %s.\n" % term)
    m.out.append("Definition mschema_fixed_header_values (magic : list N) (extra_lease_offset : N) (nodeid write_enabler : list N) : list fval :=\n  [%s].\n" % "; ".join(vals))
    # blank_leases = b"\x00" * LeaseInfo().mutable_size() * 4
    bl = seen["blank_leases"]
    ok = (isinstance(bl, ast.BinOp) and isinstance(bl.op, ast.Mult) and isinstance(bl.left, ast.BinOp) and isinstance(bl.left.op, ast.Mult)
          and isinstance(bl.left.left, ast.Constant) and bl.left.left.value == b"\x00")
    if not ok:
        raise TranslatorAbort("mutable_schema.py: blank_leases has an unexpected form")
    m.out.append("Definition mschema_blank_leases_size : N := (%s * %s).\n" % (
        m.cexpr(bl.left.right, "mutable_schema.py:blank_leases", lease_sizes), m.cexpr(bl.right, "mutable_schema.py:blank_leases", lease_sizes)))
    ec = seen["extra_lease_count"]
    if not (is_struct_call(ec, ("pack",)) and len(ec.args) == 2 and isinstance(ec.args[1], ast.Constant) and ec.args[1].value == 0):
        raise TranslatorAbort("mutable_schema.py: extra_lease_count is not struct.pack(fmt, 0)")
    term, parsed = m.fmt_of(ec.args[0], "mutable_schema.py:_header")
    m.out.append("Definition mschema_extra_lease_count_format : list field := %s.\n" % term)
    rt = seen["return"]
    ok = (isinstance(rt, ast.Call) and isinstance(rt.func, ast.Attribute) and rt.func.attr == "join"
          and isinstance(rt.func.value, ast.Constant) and rt.func.value.value == b"" and len(rt.args) == 1
          and isinstance(rt.args[0], ast.List) and [getattr(x, "id", None) for x in rt.args[0].elts] == ["fixed_header", "blank_leases", "extra_lease_count"])
    if not ok:
        raise TranslatorAbort("mutable_schema.py: _header does not return fixed_header + blank_leases + extra_lease_count")
    # module constants
    order = []
    for st in m.tree.body:
        if isinstance(st, ast.Assign) and len(st.targets) == 1 and isinstance(st.targets[0], ast.Name):
            name = st.targets[0].id
            if name == "_HEADER_FORMAT":
                if not (isinstance(st.value, ast.Constant) and isinstance(st.value.value, str)):
                    raise TranslatorAbort("mutable_schema.py: _HEADER_FORMAT is not a literal")
                m.define_format(name, st.value.value)
                order.append(name)
            elif name in ("_HEADER_SIZE", "_EXTRA_LEASE_OFFSET"):
                m.define_const(name, st.value, lease_sizes)
                order.append(name)
    if order != ["_HEADER_FORMAT", "_HEADER_SIZE", "_EXTRA_LEASE_OFFSET"]:
        raise TranslatorAbort("mutable_schema.py: header constants missing or reordered: %r" % order)
    # _Schema.header(self, nodeid, write_enabler) = _header(self._magic, _EXTRA_LEASE_OFFSET, nodeid, write_enabler)
    r = only_return(m.method("_Schema", "header"), "mutable_schema.py:_Schema.header")
    ok = (isinstance(r, ast.Call) and isinstance(r.func, ast.Name) and r.func.id == "_header" and len(r.args) == 4 and not r.keywords
          and self_attr(r.args[0]) == "magic" and isinstance(r.args[1], ast.Name) and r.args[1].id == "_EXTRA_LEASE_OFFSET"
          and [getattr(a, "id", None) for a in r.args[2:]] == ["nodeid", "write_enabler"])
    if not ok:
        raise TranslatorAbort("mutable_schema.py: _Schema.header changed")
    # _magic: constants + fingerprint
    mg = m.find(ast.FunctionDef, "_magic")
    consts = {"fmt": None, "rand": None, "tag": None, "trunc": None}
    for n in ast.walk(mg):
        if isinstance(n, ast.Constant) and isinstance(n.value, str) and "{:d}" in n.value:
            consts["fmt"] = n.value
        if isinstance(n, ast.Assign) and isinstance(n.value, ast.Constant) and isinstance(n.value.value, bytes) \
                and isinstance(n.targets[0], ast.Name) and n.targets[0].id == "random_bytes":
            consts["rand"] = n.value.value
        if isinstance(n, ast.Call) and isinstance(n.func, ast.Name) and n.func.id == "tagged_hash":
            if len(n.args) == 2 and isinstance(n.args[0], ast.Constant) and isinstance(n.args[0].value, bytes):
                consts["tag"] = n.args[0].value
            for k in n.keywords:
                if k.arg == "truncate_to" and isinstance(k.value, ast.Constant):
                    consts["trunc"] = k.value.value
    if None in consts.values() or consts["fmt"].count("{:d}") != 1:
        raise TranslatorAbort("mutable_schema.py: _magic constants not recognised: %r" % consts)
    pre, post = consts["fmt"].split("{:d}")
    m.out.append("Definition mschema_magic_prefix : list N := %s.\n" % coq_bytes(pre.encode("ascii")))
    m.out.append("Definition mschema_magic_suffix : list N := %s.\n" % coq_bytes(post.encode("ascii")))
    m.out.append("Definition mschema_magic_v1_random : list N := %s.\n" % coq_bytes(consts["rand"]))
    m.out.append("Definition mschema_magic_tag : list N := %s.\n" % coq_bytes(consts["tag"]))
    m.out.append("Definition mschema_magic_truncate_to : N := %d.\n" % consts["trunc"])
    m.pin("mschema_magic", mg)
    vs = schema_versions(m, "mutable_schema.py", "_Schema.for_version")
    m.out.append("Definition mschema_versions : list N := [%s].\n" % "; ".join("%d" % v for v, _ in vs))
    m.out.append("Definition mschema_serializers : list (N * string) := [%s].\n" % "; ".join("(%d, %s)" % (v, coq_string(s)) for v, s in vs))
    m.pin("mschema_magic_matches", m.method("_Schema", "magic_matches"))
    m.pin("mschema_schema_from_header", m.find(ast.FunctionDef, "schema_from_header"))
    out.append("(* ---- %s ---- *)\n" % MUT_SCHEMA)
    out.extend(m.out)


def mutable(out, lease_sizes):
    m = Module(MUT, "mutable")
    cls = m.find(ast.ClassDef, "MutableShareFile")
    wanted = ["DATA_LENGTH_OFFSET", "EXTRA_LEASE_OFFSET", "HEADER_SIZE", "LEASE_SIZE", "DATA_OFFSET"]
    asserts = []
    for st in cls.body:
        if isinstance(st, ast.Assign) and len(st.targets) == 1 and isinstance(st.targets[0], ast.Name) and st.targets[0].id in wanted:
            m.define_const(st.targets[0].id, st.value, lease_sizes)
        if isinstance(st, ast.Assert):
            t = st.test
            if not (isinstance(t, ast.Compare) and len(t.ops) == 1 and isinstance(t.ops[0], ast.Eq)):
                raise TranslatorAbort("mutable.py: unsupported class-level assert")
            asserts.append("(%s =? %s)" % (m.cexpr(t.left, "mutable.py:assert", lease_sizes), m.cexpr(t.comparators[0], "mutable.py:assert", lease_sizes)))
    missing = [w for w in wanted if w not in m.consts]
    if missing:
        raise TranslatorAbort("mutable.py: constants missing: %r" % missing)
    m.out.append("Definition mutable_class_asserts : list bool := [%s].\n" % "; ".join(asserts))
    # _read_write_enabler_and_nodeid: the unpack format and target names
    fn = m.method("MutableShareFile", "_read_write_enabler_and_nodeid")
    got = None
    for st in ast.walk(fn):
        if isinstance(st, ast.Assign) and isinstance(st.targets[0], ast.Tuple) and is_struct_call(st.value, ("unpack",)):
            term, parsed = m.fmt_of(st.value.args[0], "mutable.py:_read_write_enabler_and_nodeid")
            tn = [x.id for x in st.targets[0].elts if isinstance(x, ast.Name)]
            if len(tn) != len(parsed):
                raise TranslatorAbort("mutable.py: header unpack arity")
            got = (term, tn)
    if got is None:
        raise TranslatorAbort("mutable.py: header unpack not found")
    m.out.append("Definition mutable_header_read_format : list field := %s.\n" % got[0])
    m.out.append("Definition mutable_header_read_names : list string := %s.\n" % coq_strings(got[1]))
    m.literal_formats("mutable_literal_formats")
    out.append("(* ---- %s ---- *)\n" % MUT)
    out.extend(m.out)


def generate():
    out = []
    sizes = lease(out)
    immutable(out, sizes)
    immutable_schema(out)
    mutable_schema(out, sizes)
    mutable(out, sizes)
    body = (HEADER % ("structs.py", ", ".join([LEASE, IMM, IMM_SCHEMA, MUT_SCHEMA, MUT]))
            + "From Coq Require Import List NArith Bool String.\n"
            + "From Verif Require Import Lib.Hex Lib.Bytes.\n"
            + "Import ListNotations.\nLocal Open Scope string_scope.\nLocal Open Scope N_scope.\n\n"
            + "\n".join(out))
    emit("Structs.v", body)
    return body


if __name__ == "__main__":
    print(generate())
