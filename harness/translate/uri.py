"""src/allmydata/uri.py (+ util/base32.py, unknown.py, storage/common.py and the
node classes)  ->  coq/Gen/Uri.v

What is generated, all from the current working tree, fail closed:

* util/base32.py: the character-class constants (`BASE32CHAR*`), the
  `BASE32STR_anybytes` regex fragment and the `s8` table of
  `could_be_base32_encoded`.  These are *computed* by module-level code
  (`get_trailing_chars_without_lsbs`), so they are read from the imported
  module (pure module, no dependencies); the AST of the functions that use them
  (`b2a`, `a2b`, `could_be_base32_encoded`) is pinned as normalised source text.
* uri.py, by `ast` only: every class with its `BASE_STRING`, the *source string*
  of `STRING_RE` (constant expression evaluated by this translator:
  bytes literals, `+`, `%` with a tuple, names of earlier constants and
  `base32.X`), `INNER_URI_CLASS`; for every class the constant returned by
  `is_readonly`/`is_mutable` and the class returned by `get_readonly` /
  `get_verify_cap`, resolved through the (single-inheritance) base classes; the
  `if/elif` dispatch chain of `from_string` as a table (prefix, class, guard) in
  source order; `ALLEGED_*` prefixes; `wrap_dirnode_cap` as a table.
  The evaluated regex sources are cross-checked against `cls.STRING_RE.pattern`
  of the imported module.
* pins of the definitions the hand-written models were written for (normalised
  source text = `ast.unparse`, whitespace collapsed, docstrings dropped; long
  definitions as 16 hex digits of its SHA-256, the short identity methods as the
  text itself):
  `_BaseURI.__eq__/__ne__/__hash__`, each `init_from_string`/`to_string`,
  `from_string`, `UnknownURI`, `UnknownNode.__init__`, `strip_prefix_for_ro`,
  `si_a2b`/`si_b2a`, `NodeMaker.create_from_cap`/`_create_from_single_cap`, and
  `__eq__/__ne__/__hash__` of every node class (or "<absent>").
* nodemaker.py: the two prefixes of the node-cache key in `create_from_cap`
  (`b"I" + bigcap` / `b"M" + bigcap`), fail closed on any other shape.  Props/C15, C16 and C43 compare them with the text the models
  were written against (a tripwire, not the main tie).
Anything unexpected raises TranslatorAbort."""
import ast
import importlib
import re

from .common import HEADER, TranslatorAbort, coq_string, emit, read_source, strip_docstrings

URI_SRC = "src/allmydata/uri.py"
B32_SRC = "src/allmydata/util/base32.py"
UNKNOWN_SRC = "src/allmydata/unknown.py"
COMMON_SRC = "src/allmydata/storage/common.py"
NODE_SRCS = [
    ("src/allmydata/immutable/filenode.py", ["CiphertextFileNode", "ImmutableFileNode"]),
    ("src/allmydata/immutable/literal.py", ["_ImmutableFileNodeBase", "LiteralFileNode"]),
    ("src/allmydata/mutable/filenode.py", ["MutableFileNode"]),
    ("src/allmydata/dirnode.py", ["DirectoryNode"]),
    ("src/allmydata/unknown.py", ["UnknownNode"]),
]
IDENTITY_METHODS = ["__eq__", "__ne__", "__hash__"]


def norm_src(node):
    """Normalised source text of an AST node: docstrings dropped, whitespace collapsed."""
    node = strip_docstrings(node)
    if isinstance(node, (ast.FunctionDef, ast.ClassDef)):
        node.decorator_list = []
    text = ast.unparse(node)
    text = re.sub(r"\s+", " ", text).strip()
    if not all(32 <= ord(c) < 127 for c in text):
        raise TranslatorAbort("non-ASCII source text in pinned definition")
    return text


def digest(node):
    """16 hex digits of SHA-256 over the normalised source text (long definitions)."""
    import hashlib
    return hashlib.sha256(norm_src(node).encode()).hexdigest()[:16]


def s(x):
    """Coq string literal from bytes or str."""
    if isinstance(x, bytes):
        try:
            x = x.decode("ascii")
        except UnicodeDecodeError:
            raise TranslatorAbort("non-ASCII constant %r" % x)
    return coq_string(x) + "%string"


def coq_list(items, per_line=False):
    sep = ";\n    " if per_line else "; "
    return "[" + ("\n    " if per_line and items else "") + sep.join(items) + "]"


# ---------------------------------------------------------------------------
# base32.py
# ---------------------------------------------------------------------------
B32_NAMES = ["BASE32CHAR", "BASE32CHAR_4bits", "BASE32CHAR_3bits", "BASE32CHAR_2bits", "BASE32CHAR_1bits"]
B32_PINNED_FUNCS = ["b2a", "a2b", "could_be_base32_encoded", "get_trailing_chars_without_lsbs",
                    "_get_trailing_chars_without_lsbs", "init_s8", "add_check_array"]


def base32_part(out):
    text, tree = read_source(B32_SRC)
    importlib.invalidate_caches()
    try:
        mod = importlib.import_module("allmydata.util.base32")
    except Exception as e:
        raise TranslatorAbort("cannot import allmydata.util.base32: %s" % e)
    import os
    from core import env
    want = os.path.realpath(os.path.join(env.REPO, B32_SRC))
    if os.path.realpath(getattr(mod, "__file__", "")) != want:
        raise TranslatorAbort("imported base32 is %s, expected %s" % (getattr(mod, "__file__", None), want))
    vals = {}
    alphabet = mod.chars
    if not (isinstance(alphabet, bytes) and len(alphabet) == 32 and len(set(alphabet)) == 32):
        raise TranslatorAbort("base32.chars is not a 32-character alphabet")
    out.append("Definition b32_alphabet : string := %s." % s(alphabet))
    for name in B32_NAMES:
        v = getattr(mod, name, None)
        if not (isinstance(v, bytes) and v.startswith(b"[") and v.endswith(b"]") and re.match(rb"^\[[a-z0-9]+\]$", v)):
            raise TranslatorAbort("base32.%s is not a plain character class: %r" % (name, v))
        vals[name] = v
        out.append("Definition %s_re : string := %s." % (name, s(v)))
        out.append("Definition %s_set : string := %s." % (name, s(v[1:-1])))
    for name in ["BASE32STR_1byte", "BASE32STR_2bytes", "BASE32STR_3bytes", "BASE32STR_4bytes", "BASE32STR_anybytes"]:
        v = getattr(mod, name, None)
        if not isinstance(v, bytes):
            raise TranslatorAbort("base32.%s missing" % name)
        vals[name] = v
        out.append("Definition %s : string := %s." % (name, s(v)))
    # s8: for each len(s) %% 8, the characters allowed in the last position
    s8 = mod.s8
    if not (isinstance(s8, tuple) and len(s8) == 8 and all(isinstance(t, tuple) and len(t) == 256 for t in s8)):
        raise TranslatorAbort("base32.s8 has an unexpected shape")
    rows = []
    for t in s8:
        if any(t[c] and c not in alphabet for c in range(256)):
            raise TranslatorAbort("s8 allows a character outside the alphabet")
        rows.append(s(bytes(c for c in alphabet if t[c])))
    out.append("Definition s8_table : list string := %s." % coq_list(rows, per_line=True))
    for tname in ["NUM_OS_TO_NUM_QS", "NUM_QS_TO_NUM_OS", "NUM_QS_LEGIT"]:
        v = getattr(mod, tname, None)
        if not (isinstance(v, tuple) and all(isinstance(x, int) and x >= 0 for x in v)):
            raise TranslatorAbort("base32.%s has an unexpected shape" % tname)
        out.append("Definition %s : list N := %s." % (tname, coq_list(["%d" % x for x in v])))
    funcs = {n.name: n for n in tree.body if isinstance(n, ast.FunctionDef)}
    pins = []
    for name in B32_PINNED_FUNCS:
        if name not in funcs:
            raise TranslatorAbort("base32.%s missing" % name)
        pins.append("(%s, %s)" % (s("base32." + name), s(digest(funcs[name]))))
    return vals, pins


# ---------------------------------------------------------------------------
# uri.py
# ---------------------------------------------------------------------------
class ConstEval(object):
    def __init__(self, b32vals):
        self.b32 = b32vals
        self.mod = {}

    def ev(self, e, local):
        if isinstance(e, ast.Constant) and isinstance(e.value, bytes):
            return e.value
        if isinstance(e, ast.Name):
            if e.id in local:
                return local[e.id]
            if e.id in self.mod:
                return self.mod[e.id]
            raise TranslatorAbort("unknown constant %s" % e.id)
        if isinstance(e, ast.Attribute) and isinstance(e.value, ast.Name) and e.value.id == "base32":
            if e.attr in self.b32:
                return self.b32[e.attr]
            raise TranslatorAbort("unknown base32 constant %s" % e.attr)
        if isinstance(e, ast.BinOp) and isinstance(e.op, ast.Add):
            return self.ev(e.left, local) + self.ev(e.right, local)
        if isinstance(e, ast.BinOp) and isinstance(e.op, ast.Mod):
            fmt = self.ev(e.left, local)
            args = e.right.elts if isinstance(e.right, ast.Tuple) else [e.right]
            vals = tuple(self.ev(a, local) for a in args)
            if fmt.count(b"%s") != len(vals) or fmt.count(b"%") != len(vals):
                raise TranslatorAbort("unsupported %-format " + repr(fmt))
            return fmt % vals
        raise TranslatorAbort("unsupported constant expression %s" % ast.dump(e)[:120])


def re_compile_arg(e):
    if (isinstance(e, ast.Call) and isinstance(e.func, ast.Attribute) and isinstance(e.func.value, ast.Name)
            and e.func.value.id == "re" and e.func.attr == "compile" and len(e.args) == 1 and not e.keywords):
        return e.args[0]
    return None


def method_result(fn, cname):
    """What a tiny accessor returns: True/False/None/self/<ClassName called>."""
    body = [st for st in strip_docstrings(fn).body if not isinstance(st, ast.Pass)]
    rets = [n for n in ast.walk(fn) if isinstance(n, ast.Return)]
    if len(rets) != 1 or not body or not isinstance(body[-1], ast.Return):
        raise TranslatorAbort("%s.%s: expected exactly one trailing return" % (cname, fn.name))
    for st in body[:-1]:
        if not isinstance(st, ast.Assign):
            raise TranslatorAbort("%s.%s: unsupported statement" % (cname, fn.name))
    v = rets[0].value
    if isinstance(v, ast.Constant) and v.value in (True, False, None):
        return repr(v.value)
    if isinstance(v, ast.Name) and v.id == "self":
        return "self"
    if isinstance(v, ast.Call) and isinstance(v.func, ast.Name):
        return v.func.id
    raise TranslatorAbort("%s.%s: unsupported return value %s" % (cname, fn.name, ast.dump(v)[:100]))


def dispatch_chain(fn):
    """The if/elif chain of from_string as [(prefix, class, guard)]."""
    tries = [st for st in fn.body if isinstance(st, ast.Try)]
    if len(tries) != 1:
        raise TranslatorAbort("from_string: expected one try block")
    t = tries[0]
    if not (len(t.handlers) == 1 and isinstance(t.handlers[0].type, ast.Name) and t.handlers[0].type.id == "BadURIError"
            and not t.orelse and not t.finalbody):
        raise TranslatorAbort("from_string: try block has unexpected handlers")
    if not t.body or not isinstance(t.body[0], ast.If):
        raise TranslatorAbort("from_string: try body does not start with the dispatch chain")
    table = []
    future = []

    def startswith(e):
        if (isinstance(e, ast.Call) and isinstance(e.func, ast.Attribute) and e.func.attr == "startswith"
                and isinstance(e.func.value, ast.Name) and e.func.value.id == "s" and len(e.args) == 1
                and isinstance(e.args[0], ast.Constant) and isinstance(e.args[0].value, bytes) and not e.keywords):
            return e.args[0].value
        return None

    def ret_init(st):
        if (isinstance(st, ast.Return) and isinstance(st.value, ast.Call) and isinstance(st.value.func, ast.Attribute)
                and st.value.func.attr == "init_from_string" and isinstance(st.value.func.value, ast.Name)
                and len(st.value.args) == 1 and isinstance(st.value.args[0], ast.Name) and st.value.args[0].id == "s"
                and not st.value.keywords):
            return st.value.func.value.id
        return None

    def kind_assign(st):
        return (isinstance(st, ast.Assign) and len(st.targets) == 1 and isinstance(st.targets[0], ast.Name)
                and st.targets[0].id == "kind" and isinstance(st.value, ast.Constant) and isinstance(st.value.value, str))

    node = t.body[0]
    while True:
        test, body = node.test, node.body
        p = startswith(test)
        if p is not None:
            if len(body) == 1 and ret_init(body[0]):
                table.append((p, ret_init(body[0]), ""))
            elif (len(body) == 2 and isinstance(body[0], ast.If) and isinstance(body[0].test, ast.Name)
                  and body[0].test.id in ("can_be_writeable", "can_be_mutable") and not body[0].orelse
                  and len(body[0].body) == 1 and ret_init(body[0].body[0]) and kind_assign(body[1])):
                table.append((p, ret_init(body[0].body[0]), body[0].test.id))
            else:
                raise TranslatorAbort("from_string: unsupported branch body for prefix %r" % p)
        elif (isinstance(test, ast.BoolOp) and isinstance(test.op, ast.And) and len(test.values) == 2
              and startswith(test.values[0]) is not None and isinstance(test.values[1], ast.UnaryOp)
              and isinstance(test.values[1].op, ast.Not) and isinstance(test.values[1].operand, ast.Name)
              and test.values[1].operand.id in ("can_be_writeable", "can_be_mutable")
              and len(body) == 1 and kind_assign(body[0])):
            future.append((startswith(test.values[0]), test.values[1].operand.id))
        else:
            raise TranslatorAbort("from_string: unsupported branch test %s" % ast.dump(test)[:120])
        if len(node.orelse) == 1 and isinstance(node.orelse[0], ast.If):
            node = node.orelse[0]
            continue
        oe = node.orelse
        if not (len(oe) == 1 and isinstance(oe[0], ast.Return) and isinstance(oe[0].value, ast.Call)
                and isinstance(oe[0].value.func, ast.Name) and oe[0].value.func.id == "UnknownURI"
                and len(oe[0].value.args) == 1 and isinstance(oe[0].value.args[0], ast.Name) and oe[0].value.args[0].id == "u"
                and not oe[0].value.keywords):
            raise TranslatorAbort("from_string: final else is not `return UnknownURI(u)`")
        break
    return table, future


def uri_part(out, b32vals):
    text, tree = read_source(URI_SRC)
    ce = ConstEval(b32vals)
    classes = {}      # name -> dict
    order = []
    funcs = {}
    for st in tree.body:
        if isinstance(st, ast.Assign) and len(st.targets) == 1 and isinstance(st.targets[0], ast.Name):
            name = st.targets[0].id
            try:
                ce.mod[name] = ce.ev(st.value, {})
            except TranslatorAbort:
                raise
        elif isinstance(st, ast.ClassDef):
            bases = []
            for b in st.bases:
                if isinstance(b, ast.Name):
                    bases.append(b.id)
                else:
                    raise TranslatorAbort("class %s: unsupported base" % st.name)
            bases = [b for b in bases if b in classes]
            if len(bases) > 1:
                raise TranslatorAbort("class %s: multiple inheritance" % st.name)
            info = {"name": st.name, "base": bases[0] if bases else None, "consts": {}, "methods": {}, "inner": None, "node": st}
            local = {}
            for item in st.body:
                tgt = val = None
                if isinstance(item, ast.Assign) and len(item.targets) == 1 and isinstance(item.targets[0], ast.Name):
                    tgt, val = item.targets[0].id, item.value
                elif isinstance(item, ast.AnnAssign) and isinstance(item.target, ast.Name) and item.value is not None:
                    tgt, val = item.target.id, item.value
                if tgt is not None:
                    if tgt == "INNER_URI_CLASS":
                        if not isinstance(val, ast.Name):
                            raise TranslatorAbort("%s.INNER_URI_CLASS is not a class name" % st.name)
                        info["inner"] = val.id
                        continue
                    arg = re_compile_arg(val)
                    v = ce.ev(arg if arg is not None else val, local)
                    local[tgt] = v
                    info["consts"][tgt] = v
                    continue
                if isinstance(item, ast.FunctionDef):
                    info["methods"][item.name] = item
                    continue
                if isinstance(item, ast.Expr) and isinstance(item.value, ast.Constant) and isinstance(item.value.value, str):
                    continue
                if isinstance(item, ast.Pass):
                    continue
                raise TranslatorAbort("class %s: unsupported class-level statement %s" % (st.name, ast.dump(item)[:100]))
            classes[st.name] = info
            order.append(st.name)
        elif isinstance(st, ast.FunctionDef):
            funcs[st.name] = st

    def lookup(cname, key, what):
        c = classes[cname]
        while c is not None:
            if key in c[what]:
                return c[what][key], c["name"]
            c = classes.get(c["base"]) if c["base"] else None
        return None, None

    cap_classes = [c for c in order if lookup(c, "BASE_STRING", "consts")[0] is not None]
    # cross-check evaluated regex sources with the compiled patterns of the imported module
    try:
        umod = importlib.import_module("allmydata.uri")
    except Exception as e:
        raise TranslatorAbort("cannot import allmydata.uri for the cross-check: %s" % e)
    rows = []
    flag_rows = []
    for c in cap_classes:
        base_string = lookup(c, "BASE_STRING", "consts")[0]
        string_re = lookup(c, "STRING_RE", "consts")[0]
        base_re = lookup(c, "BASE_STRING_RE", "consts")[0]
        inner = classes[c]["inner"]
        k = classes[c]
        while inner is None and k["base"]:
            k = classes[k["base"]]
            inner = k["inner"]
        cls = getattr(umod, c, None)
        if cls is None or cls.BASE_STRING != base_string:
            raise TranslatorAbort("cross-check failed for %s.BASE_STRING" % c)
        if string_re is not None and getattr(cls, "STRING_RE").pattern != string_re:
            raise TranslatorAbort("cross-check failed for %s.STRING_RE" % c)
        if base_re is not None and getattr(cls, "BASE_STRING_RE").pattern != base_re:
            raise TranslatorAbort("cross-check failed for %s.BASE_STRING_RE" % c)
        if (string_re is None) == (base_re is None):
            raise TranslatorAbort("%s: expected exactly one of STRING_RE / BASE_STRING_RE" % c)
        if base_re is not None and (inner is None or base_re != b"^" + base_string):
            raise TranslatorAbort("%s: directory wrapper without INNER_URI_CLASS or with unexpected BASE_STRING_RE" % c)
        rows.append("(%s, %s, %s, %s)" % (s(c), s(base_string), s(string_re or b""), s(inner if base_re is not None else "")))
        res = []
        for m in ("is_readonly", "is_mutable", "get_readonly", "get_verify_cap"):
            fn, owner = lookup(c, m, "methods")
            if fn is None:
                raise TranslatorAbort("%s has no %s" % (c, m))
            res.append(method_result(fn, owner))
        if res[0] not in ("True", "False") or res[1] not in ("True", "False"):
            raise TranslatorAbort("%s: is_readonly/is_mutable do not return a constant" % c)
        flag_rows.append("(%s, %s, %s, %s, %s)" % (s(c), res[0].lower(), res[1].lower(), s(res[2]), s(res[3])))
    out.append("\n(* uri.py: class, BASE_STRING, STRING_RE source (\"\" for directory wrappers), INNER_URI_CLASS (\"\" for file caps) *)")
    out.append("Definition class_table : list (string * string * string * string) := %s." % coq_list(rows, per_line=True))
    out.append("\n(* class, is_readonly(), is_mutable(), class returned by get_readonly(), by get_verify_cap() *)")
    out.append("Definition flags_table : list (string * bool * bool * string * string) := %s." % coq_list(flag_rows, per_line=True))
    for name in ("BASE32STR_128bits", "BASE32STR_256bits", "NUMBER", "ALLEGED_READONLY_PREFIX", "ALLEGED_IMMUTABLE_PREFIX"):
        if name not in ce.mod:
            raise TranslatorAbort("uri.%s missing" % name)
        out.append("Definition %s : string := %s." % (name, s(ce.mod[name])))
    if "from_string" not in funcs:
        raise TranslatorAbort("uri.from_string missing")
    table, future = dispatch_chain(funcs["from_string"])
    for p, c, g in table:
        if c not in cap_classes:
            raise TranslatorAbort("from_string dispatches to unknown class %s" % c)
        if lookup(c, "BASE_STRING", "consts")[0] != p:
            raise TranslatorAbort("from_string prefix %r differs from %s.BASE_STRING" % (p, c))
    out.append("\n(* from_string: the if/elif chain in source order: prefix, class, guard variable (\"\" = unconditional) *)")
    out.append("Definition dispatch_table : list (string * string * string) := %s." %
               coq_list(["(%s, %s, %s)" % (s(p), s(c), s(g)) for p, c, g in table], per_line=True))
    out.append("Definition future_test_table : list (string * string) := %s." %
               coq_list(["(%s, %s)" % (s(p), s(g)) for p, g in future], per_line=True))
    # wrap_dirnode_cap: isinstance chain
    if "wrap_dirnode_cap" not in funcs:
        raise TranslatorAbort("uri.wrap_dirnode_cap missing")
    wrap = []
    wbody = strip_docstrings(funcs["wrap_dirnode_cap"]).body
    for st in wbody[:-1]:
        ok = (isinstance(st, ast.If) and not st.orelse and isinstance(st.test, ast.Call) and isinstance(st.test.func, ast.Name)
              and st.test.func.id == "isinstance" and len(st.test.args) == 2 and isinstance(st.test.args[1], ast.Name)
              and len(st.body) == 1 and isinstance(st.body[0], ast.Return) and isinstance(st.body[0].value, ast.Call)
              and isinstance(st.body[0].value.func, ast.Name))
        if not ok:
            raise TranslatorAbort("wrap_dirnode_cap: unsupported statement")
        wrap.append((st.test.args[1].id, st.body[0].value.func.id))
    if not isinstance(wbody[-1], ast.Raise):
        raise TranslatorAbort("wrap_dirnode_cap: last statement is not a raise")
    out.append("Definition wrap_table : list (string * string) := %s." %
               coq_list(["(%s, %s)" % (s(a), s(b)) for a, b in wrap], per_line=True))

    pins = []
    for m in IDENTITY_METHODS:
        fn = classes["_BaseURI"]["methods"].get(m) if "_BaseURI" in classes else None
        pins.append("(%s, %s)" % (s("_BaseURI." + m), s(norm_src(fn) if fn is not None else "<absent>")))
    for c in order:
        for m in IDENTITY_METHODS:
            if c != "_BaseURI" and m in classes[c]["methods"]:
                pins.append("(%s, %s)" % (s(c + "." + m), s(norm_src(classes[c]["methods"][m]))))
    code_pins = []
    for c in cap_classes:
        for m in ("init_from_string", "to_string", "__init__"):
            fn, owner = lookup(c, m, "methods")
            if fn is not None and owner == c:
                code_pins.append("(%s, %s)" % (s(c + "." + m), s(digest(fn))))
    for c in ("_DirectoryBaseURI", "_ImmutableDirectoryBaseURI"):
        if c not in classes:
            raise TranslatorAbort("uri.%s missing" % c)
        for m in ("init_from_string", "to_string", "__init__"):
            if m in classes[c]["methods"]:
                code_pins.append("(%s, %s)" % (s(c + "." + m), s(digest(classes[c]["methods"][m]))))
    if "UnknownURI" not in classes:
        raise TranslatorAbort("uri.UnknownURI missing")
    code_pins.append("(%s, %s)" % (s("UnknownURI"), s(digest(classes["UnknownURI"]["node"]))))
    code_pins.append("(%s, %s)" % (s("from_string"), s(digest(funcs["from_string"]))))
    return pins, code_pins


def typed_entry_points():
    """from_string_dirnode & co.: each must be `u = from_string(s, **kwargs); _assert(I.providedBy(u)); return u`."""
    text, tree = read_source(URI_SRC)
    funcs = {n.name: n for n in tree.body if isinstance(n, ast.FunctionDef)}
    rows = []
    for name in ("from_string_dirnode", "from_string_filenode", "from_string_mutable_filenode", "from_string_verifier"):
        fn = funcs.get(name)
        if fn is None:
            raise TranslatorAbort("uri.%s is not a plain function definition" % name)
        body = strip_docstrings(fn).body
        ok = (len(body) == 3 and fn.args.kwarg is not None and [a.arg for a in fn.args.args] == ["s"]
              and isinstance(body[0], ast.Assign) and isinstance(body[0].value, ast.Call)
              and isinstance(body[1], ast.Expr) and isinstance(body[1].value, ast.Call)
              and isinstance(body[1].value.func, ast.Name) and body[1].value.func.id == "_assert"
              and isinstance(body[2], ast.Return) and isinstance(body[2].value, ast.Name) and body[2].value.id == "u")
        if not ok:
            raise TranslatorAbort("uri.%s has an unexpected shape" % name)
        test = body[1].value.args[0]
        if not (isinstance(test, ast.Call) and isinstance(test.func, ast.Attribute) and test.func.attr == "providedBy"
                and isinstance(test.func.value, ast.Name)):
            raise TranslatorAbort("uri.%s: unexpected assertion" % name)
        rows.append("(%s, %s, %s)" % (s(name), s(test.func.value.id), s(ast.unparse(body[0].value))))
    return rows


def simple_pins(rel, names):
    text, tree = read_source(rel)
    funcs = {n.name: n for n in tree.body if isinstance(n, (ast.FunctionDef, ast.ClassDef))}
    out = []
    for name in names:
        if "." in name:
            cname, m = name.split(".")
            c = funcs.get(cname)
            if c is None:
                raise TranslatorAbort("%s: class %s missing" % (rel, cname))
            fn = next((i for i in c.body if isinstance(i, ast.FunctionDef) and i.name == m), None)
            out.append("(%s, %s)" % (s(name), s(digest(fn) if fn is not None else "<absent>")))
        else:
            if name not in funcs:
                raise TranslatorAbort("%s: %s missing" % (rel, name))
            out.append("(%s, %s)" % (s(name), s(digest(funcs[name]))))
    return out


def node_identity_pins():
    out = []
    for rel, cnames in NODE_SRCS:
        text, tree = read_source(rel)
        classes = {n.name: n for n in tree.body if isinstance(n, ast.ClassDef)}
        for cname in cnames:
            if cname not in classes:
                raise TranslatorAbort("%s: class %s missing" % (rel, cname))
            c = classes[cname]
            bases = [b.id for b in c.bases if isinstance(b, ast.Name)]
            out.append("(%s, %s)" % (s(cname + ".<bases>"), s(" ".join(bases))))
            for m in IDENTITY_METHODS:
                fn = next((i for i in c.body if isinstance(i, ast.FunctionDef) and i.name == m), None)
                # `__hash__ = None` style assignments also count as a definition
                asg = next((i for i in c.body if isinstance(i, ast.Assign) and any(isinstance(t, ast.Name) and t.id == m for t in i.targets)), None)
                if fn is not None:
                    out.append("(%s, %s)" % (s(cname + "." + m), s(norm_src(fn))))
                elif asg is not None:
                    out.append("(%s, %s)" % (s(cname + "." + m), s(norm_src(asg))))
                else:
                    out.append("(%s, %s)" % (s(cname + "." + m), s("<absent>")))
    return out


NODEMAKER_SRC = "src/allmydata/nodemaker.py"


def nodemaker_part(out):
    """NodeMaker.create_from_cap: the two node-cache key prefixes (the context must be part of the key);
    digests of create_from_cap and _create_from_single_cap."""
    text, tree = read_source(NODEMAKER_SRC)
    cls = next((n for n in tree.body if isinstance(n, ast.ClassDef) and n.name == "NodeMaker"), None)
    if cls is None:
        raise TranslatorAbort("nodemaker.NodeMaker missing")
    methods = {n.name: n for n in cls.body if isinstance(n, ast.FunctionDef)}
    for m in ("create_from_cap", "_create_from_single_cap"):
        if m not in methods:
            raise TranslatorAbort("NodeMaker.%s missing" % m)
    fn = methods["create_from_cap"]
    assigns = [n for n in ast.walk(fn) if isinstance(n, ast.Assign) and any(isinstance(x, ast.Name) and x.id == "memokey" for x in n.targets)]
    ifs = [n for n in ast.walk(fn) if isinstance(n, ast.If) and isinstance(n.test, ast.Name) and n.test.id == "deep_immutable"
           and any(a in n.body for a in assigns)]

    def key_prefix(stmts):
        if (len(stmts) == 1 and isinstance(stmts[0], ast.Assign) and len(stmts[0].targets) == 1
                and isinstance(stmts[0].targets[0], ast.Name) and stmts[0].targets[0].id == "memokey"
                and isinstance(stmts[0].value, ast.BinOp) and isinstance(stmts[0].value.op, ast.Add)
                and isinstance(stmts[0].value.left, ast.Constant) and isinstance(stmts[0].value.left.value, bytes)
                and isinstance(stmts[0].value.right, ast.Name) and stmts[0].value.right.id == "bigcap"):
            return stmts[0].value.left.value
        raise TranslatorAbort("create_from_cap: memokey is not  <bytes literal> + bigcap")
    if len(ifs) != 1 or len(assigns) != 2:
        raise TranslatorAbort("create_from_cap: expected `if deep_immutable: memokey = b'..' + bigcap else: memokey = b'..' + bigcap`")
    ki, km = key_prefix(ifs[0].body), key_prefix(ifs[0].orelse)
    # the cache must be read and written with memokey only
    subs = [n for n in ast.walk(fn) if isinstance(n, ast.Subscript) and isinstance(n.value, ast.Attribute) and n.value.attr == "_node_cache"]
    if len(subs) != 2 or not all(isinstance(s_.slice, ast.Name) and s_.slice.id == "memokey" for s_ in subs):
        raise TranslatorAbort("create_from_cap: _node_cache is not indexed by memokey exactly twice")
    out.append("\n(* nodemaker.py: NodeMaker.create_from_cap caches nodes under  prefix + bigcap *)")
    out.append("Definition nodemaker_memokey_immutable : string := %s." % s(ki))
    out.append("Definition nodemaker_memokey_mutable : string := %s." % s(km))
    pins = ["(%s, %s)" % (s("NodeMaker." + m), s(digest(methods[m]))) for m in ("create_from_cap", "_create_from_single_cap")]
    out.append("Definition nodemaker_code_pins : list (string * string) := %s." % coq_list(pins, per_line=True))


def generate():
    out = []
    b32vals, b32_pins = base32_part(out)
    id_pins, code_pins = uri_part(out, b32vals)
    code_pins += simple_pins(COMMON_SRC, ["si_b2a", "si_a2b"])
    typed_pins = typed_entry_points()
    unknown_pins = simple_pins(UNKNOWN_SRC, ["strip_prefix_for_ro", "UnknownNode.__init__", "UnknownNode.get_cap",
                                             "UnknownNode.get_readcap", "UnknownNode.get_uri", "UnknownNode.get_write_uri",
                                             "UnknownNode.get_readonly_uri"])
    node_pins = node_identity_pins()
    nodemaker_part(out)
    dirnode_pins = simple_pins("src/allmydata/dirnode.py", ["_pack_normalized_children", "DirectoryNode._unpack_contents",
                                                            "DirectoryNode._create_and_validate_node", "DirectoryNode._pack_contents",
                                                            "DirectoryNode._create_readonly_node"])
    prohibited_pins = simple_pins("src/allmydata/blacklist.py", ["ProhibitedNode." + m for m in (
        "get_cap", "get_readcap", "get_uri", "get_write_uri", "get_readonly_uri", "is_readonly", "is_mutable", "is_unknown",
        "is_allowed_in_immutable_directory", "raise_error", "get_verify_cap", "get_storage_index")])
    out.append("\n(* blacklist.py: ProhibitedNode hands every cap accessor through to the wrapped node (the models treat it as transparent) *)")
    out.append("Definition prohibited_code_pins : list (string * string) := %s." % coq_list(prohibited_pins, per_line=True))
    out.append("\n(* dirnode.py: how a child's caps are written and read back (Model/UriNodes.v dir_store_read) *)")
    out.append("Definition dirnode_code_pins : list (string * string) := %s." % coq_list(dirnode_pins, per_line=True))
    out.append("\n(* pins (SHA-256 prefix of the normalised source text; identity methods as text) of the definitions the hand-written models were written for *)")
    out.append("Definition base32_code_pins : list (string * string) := %s." % coq_list(b32_pins, per_line=True))
    out.append("Definition uri_code_pins : list (string * string) := %s." % coq_list(code_pins, per_line=True))
    out.append("Definition unknown_code_pins : list (string * string) := %s." % coq_list(unknown_pins, per_line=True))
    out.append("(* uri.py: the typed entry points: (function, interface asserted, the call it makes) *)")
    out.append("Definition typed_entry_table : list (string * string * string) := %s." % coq_list(typed_pins, per_line=True))
    out.append("Definition cap_identity_pins : list (string * string) := %s." % coq_list(id_pins, per_line=True))
    out.append("Definition node_identity_pins : list (string * string) := %s." % coq_list(node_pins, per_line=True))
    body = (HEADER % ("uri.py", URI_SRC + ", " + B32_SRC + ", " + UNKNOWN_SRC + " and the node classes")
            + "From Coq Require Import List NArith Bool String.\nImport ListNotations.\nLocal Open Scope N_scope.\n\n"
            + "\n".join(out) + "\n")
    emit("Uri.v", body)
    return body


if __name__ == "__main__":
    generate()
