"""src/allmydata/util/hashutil.py  ->  coq/Gen/Hashutil.v

Translated: every module-level bytes/int constant and every function whose body
is straight-line code over the hasher object, netstring, concatenation, `%`
formatting with %d, hashlib.sha1/sha256 digests, `assert`/`if ...: raise`
preconditions.  Pinned (AST fingerprint compared, hand-modelled in
Lib/HashPrim.v): class _SHA256d_Hasher, byteschr, _xor, hmac, random_key,
timing_safe_compare.  Anything else aborts."""
import ast

from .common import HEADER, TranslatorAbort, coq_bytes, dump_hash, emit, read_source

SRC = "src/allmydata/util/hashutil.py"

PINNED = {
    "_SHA256d_Hasher": "0c7fbe4a0e1e0fa6",
    "byteschr": "",
    "_xor": "",
    "hmac": "",
    "random_key": "",
    "timing_safe_compare": "",
}


class Fn(object):
    def __init__(self, node):
        self.node = node
        self.name = node.name
        self.params = [a.arg for a in node.args.args]
        nd = len(node.args.defaults)
        self.defaults = {}
        for a, d in zip(self.params[len(self.params) - nd:], node.args.defaults):
            if not (isinstance(d, ast.Constant) and d.value is None):
                raise TranslatorAbort("%s: default of %s is not None" % (node.name, a))
            self.defaults[a] = None
        if node.args.vararg or node.args.kwarg or node.args.kwonlyargs:
            raise TranslatorAbort("%s: unsupported signature" % node.name)


class T(object):
    def __init__(self, tree):
        self.tree = tree
        self.consts = {}      # name -> ("bytes"|"int", coq)
        self.fns = {}         # name -> Fn
        self.out = []
        self.pins = {}

    def ident(self, s):
        return {"IV": "iv_"}.get(s, s)

    # ---- expressions ---------------------------------------------------------
    def expr(self, e, scope, fn):
        if isinstance(e, ast.Constant):
            if isinstance(e.value, bytes):
                return coq_bytes(e.value)
            if isinstance(e.value, bool) or e.value is None:
                raise TranslatorAbort("%s: bare %r" % (fn.name, e.value))
            if isinstance(e.value, int) and e.value >= 0:
                return "%d" % e.value
            raise TranslatorAbort("%s: constant %r" % (fn.name, e.value))
        if isinstance(e, ast.Name):
            if e.id in scope or e.id in self.consts:
                return self.ident(e.id)
            raise TranslatorAbort("%s: unknown name %s" % (fn.name, e.id))
        if isinstance(e, ast.BinOp) and isinstance(e.op, ast.Add):
            return "(%s ++ %s)" % (self.expr(e.left, scope, fn), self.expr(e.right, scope, fn))
        if isinstance(e, ast.BinOp) and isinstance(e.op, ast.Mod):
            return self.fmt(e, scope, fn)
        if isinstance(e, ast.Call):
            return self.call(e, scope, fn)
        raise TranslatorAbort("%s: unsupported expression %s" % (fn.name, ast.dump(e)[:120]))

    def fmt(self, e, scope, fn):
        if not (isinstance(e.left, ast.Constant) and isinstance(e.left.value, bytes)):
            raise TranslatorAbort("%s: %% with non-literal format" % fn.name)
        args = list(e.right.elts) if isinstance(e.right, ast.Tuple) else [e.right]
        f = e.left.value
        pieces = []
        i = 0
        lit = b""
        while i < len(f):
            if f[i:i + 1] == b"%":
                spec = f[i + 1:i + 2]
                if spec == b"%":
                    lit += b"%"
                elif spec in (b"d", b"s"):
                    if lit:
                        pieces.append(coq_bytes(lit))
                        lit = b""
                    if not args:
                        raise TranslatorAbort("%s: too few format args" % fn.name)
                    a = self.expr(args.pop(0), scope, fn)
                    pieces.append("(dec %s)" % a if spec == b"d" else a)
                else:
                    raise TranslatorAbort("%s: format spec %%%s" % (fn.name, spec))
                i += 2
                continue
            lit += f[i:i + 1]
            i += 1
        if lit:
            pieces.append(coq_bytes(lit))
        if args:
            raise TranslatorAbort("%s: too many format args" % fn.name)
        return "(" + " ++ ".join(pieces) + ")"

    def call(self, e, scope, fn):
        if e.keywords:
            raise TranslatorAbort("%s: keyword arguments" % fn.name)
        f = e.func
        # hashlib.sha1(x).digest() / hashlib.sha256(x).digest() / h.digest()
        if isinstance(f, ast.Attribute) and f.attr == "digest" and not e.args:
            inner = f.value
            if (isinstance(inner, ast.Call) and isinstance(inner.func, ast.Attribute)
                    and isinstance(inner.func.value, ast.Name) and inner.func.value.id == "hashlib"
                    and inner.func.attr in ("sha1", "sha256") and len(inner.args) == 1 and not inner.keywords):
                return "(%s %s)" % (inner.func.attr, self.expr(inner.args[0], scope, fn))
            if isinstance(inner, ast.Name) and inner.id in scope:
                return "(hasher_digest %s)" % self.ident(inner.id)
            raise TranslatorAbort("%s: unsupported .digest() receiver" % fn.name)
        if isinstance(f, ast.Name):
            if f.id == "len" and len(e.args) == 1:
                return "(blen %s)" % self.expr(e.args[0], scope, fn)
            if f.id == "netstring" and len(e.args) == 1:
                return "(netstring %s)" % self.expr(e.args[0], scope, fn)
            if f.id == "_SHA256d_Hasher":
                if len(e.args) > 1:
                    raise TranslatorAbort("%s: _SHA256d_Hasher arity" % fn.name)
                a = self.optarg(e.args[0], scope, fn) if e.args else "None"
                return "(mk_hasher %s)" % a
            if f.id in self.fns:
                callee = self.fns[f.id]
                if len(e.args) > len(callee.params):
                    raise TranslatorAbort("%s: too many args to %s" % (fn.name, f.id))
                out = []
                for i, p in enumerate(callee.params):
                    if i < len(e.args):
                        out.append(self.optarg(e.args[i], scope, fn) if p in callee.defaults else self.expr(e.args[i], scope, fn))
                    elif p in callee.defaults:
                        out.append("None")
                    else:
                        raise TranslatorAbort("%s: missing arg %s of %s" % (fn.name, p, f.id))
                return "(%s %s)" % (self.ident(f.id), " ".join(out)) if out else self.ident(f.id)
        raise TranslatorAbort("%s: unsupported call %s" % (fn.name, ast.dump(e)[:120]))

    def optarg(self, a, scope, fn):
        """Argument for an Optional[int] parameter (default None)."""
        if isinstance(a, ast.Constant) and a.value is None:
            return "None"
        if isinstance(a, ast.Name) and a.id in fn.defaults:
            return self.ident(a.id)          # pass an optional straight through
        return "(Some %s)" % self.expr(a, scope, fn)

    def cond(self, e, scope, fn):
        if isinstance(e, ast.BoolOp):
            op = " || " if isinstance(e.op, ast.Or) else " && "
            return "(" + op.join(self.cond(v, scope, fn) for v in e.values) + ")"
        if isinstance(e, ast.Compare) and len(e.ops) == 1:
            a = self.expr(e.left, scope, fn)
            b = self.expr(e.comparators[0], scope, fn)
            op = e.ops[0]
            if isinstance(op, ast.Gt):
                return "(%s <? %s)" % (b, a)
            if isinstance(op, ast.Lt):
                return "(%s <? %s)" % (a, b)
            if isinstance(op, ast.GtE):
                return "(%s <=? %s)" % (b, a)
            if isinstance(op, ast.LtE):
                return "(%s <=? %s)" % (a, b)
            if isinstance(op, ast.Eq):
                return "(%s =? %s)" % (a, b)
        raise TranslatorAbort("%s: unsupported condition %s" % (fn.name, ast.dump(e)[:120]))

    # ---- functions -----------------------------------------------------------
    def function(self, fn):
        scope = set(fn.params)
        pre = []
        lets = []
        ret = None
        for st in fn.node.body:
            if ret is not None:
                raise TranslatorAbort("%s: code after return" % fn.name)
            if isinstance(st, ast.Expr) and isinstance(st.value, ast.Constant) and isinstance(st.value.value, str):
                continue
            if isinstance(st, ast.Assert):
                t = st.test
                if isinstance(t, ast.Call) and isinstance(t.func, ast.Name) and t.func.id == "isinstance":
                    continue
                if lets:
                    raise TranslatorAbort("%s: precondition after a binding" % fn.name)
                pre.append(self.cond(t, scope, fn))
                continue
            if isinstance(st, ast.If) and not st.orelse and len(st.body) == 1 and isinstance(st.body[0], ast.Raise):
                if lets:
                    raise TranslatorAbort("%s: precondition after a binding" % fn.name)
                pre.append("negb %s" % self.cond(st.test, scope, fn))
                continue
            if isinstance(st, ast.Assign) and len(st.targets) == 1 and isinstance(st.targets[0], ast.Name):
                v = self.expr(st.value, scope, fn)
                lets.append((self.ident(st.targets[0].id), v))
                scope.add(st.targets[0].id)
                continue
            if (isinstance(st, ast.Expr) and isinstance(st.value, ast.Call) and isinstance(st.value.func, ast.Attribute)
                    and st.value.func.attr == "update" and isinstance(st.value.func.value, ast.Name)
                    and st.value.func.value.id in scope and len(st.value.args) == 1 and not st.value.keywords):
                x = self.ident(st.value.func.value.id)
                lets.append((x, "(hasher_update %s %s)" % (x, self.expr(st.value.args[0], scope, fn))))
                continue
            if isinstance(st, ast.Return) and st.value is not None:
                ret = self.expr(st.value, scope, fn)
                continue
            raise TranslatorAbort("%s: unsupported statement %s" % (fn.name, ast.dump(st)[:160]))
        if ret is None:
            raise TranslatorAbort("%s: no return" % fn.name)
        binders = " ".join(self.ident(p) for p in fn.params)
        body = "".join("  let %s := %s in\n" % lv for lv in lets) + "  " + ret
        self.out.append("Definition %s %s :=\n%s.\n" % (self.ident(fn.name), binders, body) if binders
                        else "Definition %s :=\n%s.\n" % (self.ident(fn.name), body))
        if pre:
            # bind only the parameters the guards mention (Coq cannot infer the
            # type of an unused, unannotated binder)
            import re as _re
            text = " && ".join(pre)
            used = [p for p in fn.params if _re.search(r"(?<![A-Za-z0-9_'])%s(?![A-Za-z0-9_'])" % _re.escape(self.ident(p)), text)]
            self.out.append("Definition %s_pre %s : bool :=\n  %s.\n" % (self.ident(fn.name), " ".join(self.ident(p) for p in used), text))

    def run(self):
        for st in self.tree.body:
            if isinstance(st, (ast.Import, ast.ImportFrom)):
                continue
            if isinstance(st, ast.Expr) and isinstance(st.value, ast.Constant) and isinstance(st.value.value, str):
                continue
            if isinstance(st, ast.Assign) and len(st.targets) == 1 and isinstance(st.targets[0], ast.Name):
                name, v = st.targets[0].id, st.value
                if isinstance(v, ast.Constant) and isinstance(v.value, bytes):
                    self.consts[name] = "bytes"
                    self.out.append("Definition %s : list N := %s.\n" % (name, coq_bytes(v.value)))
                    continue
                if isinstance(v, ast.Constant) and isinstance(v.value, int) and not isinstance(v.value, bool) and v.value >= 0:
                    self.consts[name] = "int"
                    self.out.append("Definition %s : N := %d.\n" % (name, v.value))
                    continue
                raise TranslatorAbort("module constant %s has unsupported value" % name)
            if isinstance(st, (ast.FunctionDef, ast.ClassDef)):
                if st.name in PINNED:
                    self.pins[st.name] = dump_hash(st)
                    continue
                if isinstance(st, ast.ClassDef):
                    raise TranslatorAbort("unexpected class %s" % st.name)
                fn = Fn(st)
                self.fns[fn.name] = fn
                continue
            raise TranslatorAbort("unsupported module-level statement %s" % ast.dump(st)[:120])
        # Python resolves names at call time; Coq needs definitions first: emit
        # functions in dependency order (calls among translated functions).
        deps = {}
        for name, fn in self.fns.items():
            deps[name] = [n.func.id for n in ast.walk(fn.node)
                          if isinstance(n, ast.Call) and isinstance(n.func, ast.Name) and n.func.id in self.fns and n.func.id != name]
        done = []
        visiting = set()

        def visit(n):
            if n in done:
                return
            if n in visiting:
                raise TranslatorAbort("recursive functions: %s" % n)
            visiting.add(n)
            for d in deps[n]:
                visit(d)
            visiting.discard(n)
            done.append(n)
        for name in self.fns:
            visit(name)
        for name in done:
            self.function(self.fns[name])
        missing = [p for p in PINNED if p not in self.pins]
        if missing:
            raise TranslatorAbort("pinned definitions missing: %s" % missing)


EXPECTED_PINS = {}


def generate():
    text, tree = read_source(SRC)
    t = T(tree)
    t.run()
    pins = "\n".join('Definition pin_%s : string := "%s"%%string.' % (k.strip("_"), v) for k, v in sorted(t.pins.items()))
    body = (HEADER % ("hashutil.py", SRC)
            + "From Coq Require Import List NArith Bool String.\n"
            + "From Verif Require Import Lib.Hex Lib.Decimal Lib.Netstring Lib.SHA256 Lib.HashPrim.\n"
            + "Import ListNotations.\nLocal Open Scope N_scope.\nLocal Open Scope bool_scope.\n\n"
            + "(* AST fingerprints of the hand-modelled definitions (Lib/HashPrim.v was written for these) *)\n"
            + pins + "\n\n" + "\n".join(t.out))
    emit("Hashutil.v", body)
    return t


if __name__ == "__main__":
    generate()
