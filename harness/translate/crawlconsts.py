"""crawler.py / expirer.py / lease.py / server.py / base32.py  ->  coq/Gen/CrawlConsts.v

Translated (fail-closed, anything unexpected aborts):
  * ShareCrawler.__init__: the prefix table
        self.prefixes = [si_b2a(struct.pack(">H", i << (16-10)))[:2] for i in range(2**10)]
        self.prefixes = [p.decode("ascii") for p in self.prefixes]
        self.prefixes.sort()
    is matched as text (ast.unparse), the two numbers are read from it and the
    table is recomputed from base32.py's `rfc3548_alphabet` (the first two base32
    characters of a 16-bit big-endian word are its top 10 bits); the driver of
    C27 compares the result with the real crawler's `prefixes`.
  * integer class attributes of ShareCrawler and LeaseCheckingCrawler
    (slow_start, minimum_cycle_time), cpu_slice / allowed_cpu_percentage as
    exact fractions;
  * server.DEFAULT_RENEWAL_TIME and the constant subtracted in
    LeaseInfo.get_grant_renew_time_time;
  * AST fingerprints (pins) of the functions that Model/Crawler.v and
    Model/Expirer.v transcribe by hand; Props/C26.v and Props/C27.v state the
    fingerprints the models were written for.
"""
import ast
import fractions
import re

from .common import HEADER, TranslatorAbort, dump_hash, emit, read_source

CRAWLER = "src/allmydata/storage/crawler.py"
EXPIRER = "src/allmydata/storage/expirer.py"
LEASE = "src/allmydata/storage/lease.py"
SERVER = "src/allmydata/storage/server.py"
BASE32 = "src/allmydata/util/base32.py"
IMMUTABLE = "src/allmydata/storage/immutable.py"
MUTABLE = "src/allmydata/storage/mutable.py"
CLIENT = "src/allmydata/client.py"
COMMON = "src/allmydata/storage/common.py"

PREFIX_RE = re.compile(
    r"^self\.prefixes = \[si_b2a\(struct\.pack\('>H', i << 16 - (\d+)\)\)\[:2\] for i in range\(2 \*\* (\d+)\)\]$")


def _class(tree, name, src):
    for n in tree.body:
        if isinstance(n, ast.ClassDef) and n.name == name:
            return n
    raise TranslatorAbort("%s: class %s not found" % (src, name))


def _method(cls, name, src):
    found = [n for n in cls.body if isinstance(n, ast.FunctionDef) and n.name == name]
    if len(found) != 1:
        raise TranslatorAbort("%s: %s.%s not found exactly once" % (src, cls.name, name))
    return found[0]


def _function(tree, name, src):
    found = [n for n in tree.body if isinstance(n, ast.FunctionDef) and n.name == name]
    if len(found) != 1:
        raise TranslatorAbort("%s: function %s not found exactly once" % (src, name))
    return found[0]


def _int_expr(e, what):
    """Integer constant expression built from non-negative literals with * + - **."""
    if isinstance(e, ast.Constant) and isinstance(e.value, int) and not isinstance(e.value, bool) and e.value >= 0:
        return e.value
    if isinstance(e, ast.BinOp) and isinstance(e.op, (ast.Mult, ast.Add, ast.Sub, ast.Pow)):
        a = _int_expr(e.left, what)
        b = _int_expr(e.right, what)
        if isinstance(e.op, ast.Mult):
            return a * b
        if isinstance(e.op, ast.Add):
            return a + b
        if isinstance(e.op, ast.Sub):
            if a < b:
                raise TranslatorAbort("%s: negative constant" % what)
            return a - b
        if b > 64:
            raise TranslatorAbort("%s: exponent too large" % what)
        return a ** b
    raise TranslatorAbort("%s: not an integer constant expression: %s" % (what, ast.dump(e)))


def _class_attr(cls, name, src):
    found = [n for n in cls.body if isinstance(n, ast.Assign) and len(n.targets) == 1
             and isinstance(n.targets[0], ast.Name) and n.targets[0].id == name]
    if len(found) != 1:
        raise TranslatorAbort("%s: %s.%s not assigned exactly once in the class body" % (src, cls.name, name))
    return found[0].value


def _fraction(e, what):
    if isinstance(e, ast.Constant) and isinstance(e.value, (int, float)) and not isinstance(e.value, bool) and e.value >= 0:
        return fractions.Fraction(repr(e.value))
    raise TranslatorAbort("%s: not a numeric literal" % what)


def _module_const(tree, name, src):
    found = [n for n in tree.body if isinstance(n, ast.Assign) and len(n.targets) == 1
             and isinstance(n.targets[0], ast.Name) and n.targets[0].id == name]
    if len(found) != 1:
        raise TranslatorAbort("%s: %s not assigned exactly once at module level" % (src, name))
    return found[0].value


def prefix_table():
    """(bits, [prefix strings sorted as Python sorts str])."""
    _, tree = read_source(CRAWLER)
    init = _method(_class(tree, "ShareCrawler", CRAWLER), "__init__", CRAWLER)
    stmts = [ast.unparse(s) for s in init.body]
    hits = [(k, PREFIX_RE.match(s)) for k, s in enumerate(stmts) if s.startswith("self.prefixes =") and "si_b2a" in s]
    if len(hits) != 1 or hits[0][1] is None:
        raise TranslatorAbort("ShareCrawler.__init__: prefix table comprehension not in the known form")
    k, m = hits[0]
    bits_a, bits_b = int(m.group(1)), int(m.group(2))
    if bits_a != bits_b or not (1 <= bits_a <= 10):
        raise TranslatorAbort("ShareCrawler.__init__: prefix bits %d/%d" % (bits_a, bits_b))
    if stmts[k + 1:k + 3] != ["self.prefixes = [p.decode('ascii') for p in self.prefixes]", "self.prefixes.sort()"]:
        raise TranslatorAbort("ShareCrawler.__init__: prefix table is not decoded and sorted in the known way")
    others = [s for j, s in enumerate(stmts) if "self.prefixes" in s and j not in (k, k + 1, k + 2)]
    if others:
        raise TranslatorAbort("ShareCrawler.__init__: other statements touch self.prefixes: %r" % others)
    # si_b2a is base32.b2a
    _, ctree = read_source(COMMON)
    f = _function(ctree, "si_b2a", COMMON)
    if ast.unparse(f.body[-1]) != "return base32.b2a(storageindex)":
        raise TranslatorAbort("common.si_b2a is not base32.b2a")
    _, btree = read_source(BASE32)
    alpha = _module_const(btree, "rfc3548_alphabet", BASE32)
    chars = _module_const(btree, "chars", BASE32)
    if not (isinstance(alpha, ast.Constant) and isinstance(alpha.value, bytes) and len(alpha.value) == 32
            and len(set(alpha.value)) == 32 and all(32 < c < 127 for c in alpha.value)):
        raise TranslatorAbort("base32.rfc3548_alphabet is not a 32-character ASCII literal")
    if not (isinstance(chars, ast.Name) and chars.id == "rfc3548_alphabet"):
        raise TranslatorAbort("base32.chars is not rfc3548_alphabet")
    a = alpha.value.decode("ascii")
    bits = bits_a
    out = []
    for i in range(2 ** bits):
        word = i << (16 - bits)          # big-endian 16-bit word
        out.append(a[(word >> 11) & 31] + a[(word >> 6) & 31])
    out.sort()
    return bits, out


PINS = [
    # (pin name, file, class or None, function)
    ("crawler_init", CRAWLER, "ShareCrawler", "__init__"),
    ("crawler_load_state", CRAWLER, "ShareCrawler", "load_state"),
    ("crawler_save_state", CRAWLER, "ShareCrawler", "save_state"),
    ("crawler_start_slice", CRAWLER, "ShareCrawler", "start_slice"),
    ("crawler_start_current_prefix", CRAWLER, "ShareCrawler", "start_current_prefix"),
    ("crawler_process_prefixdir", CRAWLER, "ShareCrawler", "process_prefixdir"),
    ("crawler_serializer_save", CRAWLER, "_LeaseStateSerializer", "save"),
    ("crawler_serializer_load", CRAWLER, "_LeaseStateSerializer", "load"),
    ("crawler_dump_json_to_file", CRAWLER, None, "_dump_json_to_file"),
    ("fileutil_move_into_place", "src/allmydata/util/fileutil.py", None, "move_into_place"),
    ("expirer_init", EXPIRER, "LeaseCheckingCrawler", "__init__"),
    ("expirer_process_bucket", EXPIRER, "LeaseCheckingCrawler", "process_bucket"),
    ("expirer_process_share", EXPIRER, "LeaseCheckingCrawler", "process_share"),
    ("lease_get_expiration_time", LEASE, "LeaseInfo", "get_expiration_time"),
    ("lease_get_grant_renew_time_time", LEASE, "LeaseInfo", "get_grant_renew_time_time"),
    ("lease_get_age", LEASE, "LeaseInfo", "get_age"),
    ("immutable_cancel_lease", IMMUTABLE, "ShareFile", "cancel_lease"),
    ("mutable_cancel_lease", MUTABLE, "MutableShareFile", "cancel_lease"),
]

CLIENT_WORDS = ("expire", "mode", "o_l_d", "cutoff_date", "sharetypes")


def client_expire_pin():
    """Fingerprint of the statements of _Client.get_anonymous_storage_server that
    read the expire.* options and hand them to StorageServer (other statements of
    that function belong to other properties)."""
    import hashlib
    _, tree = read_source(CLIENT)
    fn = _method(_class(tree, "_Client", CLIENT), "get_anonymous_storage_server", CLIENT)
    picked = []
    for st in fn.body:
        text = ast.unparse(st)
        if any(re.search(r"\b%s\b" % w, text) or ("expire" in text and w == "expire") for w in CLIENT_WORDS):
            picked.append(text)
    if len(picked) < 8 or not any(t.startswith("ss = StorageServer(") for t in picked):
        raise TranslatorAbort("_Client.get_anonymous_storage_server: expire.* option handling not found")
    return hashlib.sha256("\n".join(picked).encode()).hexdigest()[:16]


def pins():
    trees = {}
    out = {}
    for pin, src, cls, fn in PINS:
        if src not in trees:
            trees[src] = read_source(src)[1]
        node = _method(_class(trees[src], cls, src), fn, src) if cls else _function(trees[src], fn, src)
        out[pin] = dump_hash(node)
    out["client_expire_options"] = client_expire_pin()
    return out


def constants():
    _, ctree = read_source(CRAWLER)
    sc = _class(ctree, "ShareCrawler", CRAWLER)
    _, etree = read_source(EXPIRER)
    lc = _class(etree, "LeaseCheckingCrawler", EXPIRER)
    if [ast.unparse(b) for b in lc.bases] != ["ShareCrawler"]:
        raise TranslatorAbort("LeaseCheckingCrawler does not derive from ShareCrawler alone")
    # the lease checker must not override the traversal
    for forbidden in ("start_slice", "start_current_prefix", "process_prefixdir", "save_state", "load_state"):
        if any(isinstance(n, ast.FunctionDef) and n.name == forbidden for n in lc.body):
            raise TranslatorAbort("LeaseCheckingCrawler overrides %s" % forbidden)
    _, stree = read_source(SERVER)
    _, ltree = read_source(LEASE)
    grant = _method(_class(ltree, "LeaseInfo", LEASE), "get_grant_renew_time_time", LEASE)
    body = [s for s in grant.body if not (isinstance(s, ast.Expr) and isinstance(s.value, ast.Constant))]
    if len(body) != 1 or not isinstance(body[0], ast.Return):
        raise TranslatorAbort("LeaseInfo.get_grant_renew_time_time: unexpected body")
    r = body[0].value
    if not (isinstance(r, ast.BinOp) and isinstance(r.op, ast.Sub) and ast.unparse(r.left) == "self._expiration_time"):
        raise TranslatorAbort("LeaseInfo.get_grant_renew_time_time is not `self._expiration_time - <constant>`")
    age = _method(_class(ltree, "LeaseInfo", LEASE), "get_age", LEASE)
    if ast.unparse(age.body[-1]) != "return time.time() - self.get_grant_renew_time_time()":
        raise TranslatorAbort("LeaseInfo.get_age: unexpected body")
    cs = fractions.Fraction(_fraction(_class_attr(sc, "cpu_slice", CRAWLER), "cpu_slice"))
    ap = fractions.Fraction(_fraction(_class_attr(sc, "allowed_cpu_percentage", CRAWLER), "allowed_cpu_percentage"))
    return {
        "crawler_slow_start": _int_expr(_class_attr(sc, "slow_start", CRAWLER), "ShareCrawler.slow_start"),
        "crawler_minimum_cycle_time": _int_expr(_class_attr(sc, "minimum_cycle_time", CRAWLER), "ShareCrawler.minimum_cycle_time"),
        "crawler_cpu_slice_num": cs.numerator, "crawler_cpu_slice_den": cs.denominator,
        "crawler_allowed_cpu_num": ap.numerator, "crawler_allowed_cpu_den": ap.denominator,
        "lease_checker_slow_start": _int_expr(_class_attr(lc, "slow_start", EXPIRER), "LeaseCheckingCrawler.slow_start"),
        "lease_checker_minimum_cycle_time": _int_expr(_class_attr(lc, "minimum_cycle_time", EXPIRER), "LeaseCheckingCrawler.minimum_cycle_time"),
        "default_renewal_time": _int_expr(_module_const(stree, "DEFAULT_RENEWAL_TIME", SERVER), "server.DEFAULT_RENEWAL_TIME"),
        "grant_renew_offset": _int_expr(r.right, "LeaseInfo.get_grant_renew_time_time offset"),
    }


def generate():
    bits, prefixes = prefix_table()
    cs = constants()
    ps = pins()
    lines = [HEADER % ("crawlconsts.py", ", ".join([CRAWLER, EXPIRER, LEASE, SERVER, BASE32, IMMUTABLE, MUTABLE, CLIENT]))]
    lines.append("From Coq Require Import List NArith ZArith String.")
    lines.append("Import ListNotations.")
    lines.append("Local Open Scope N_scope.\n")
    lines.append("(* ShareCrawler.__init__: 2**%d prefix directories, names sorted as Python sorts str *)" % bits)
    lines.append("Definition prefix_bits : nat := %d." % bits)
    lines.append("Definition prefixes : list (list N) :=\n  [" + ";\n   ".join(
        "; ".join("[%d; %d]" % (ord(p[0]), ord(p[1])) for p in prefixes[k:k + 8]) for k in range(0, len(prefixes), 8)) + "].\n")
    for k in sorted(cs):
        if k in ("default_renewal_time", "grant_renew_offset"):
            lines.append("Definition %s : Z := %d%%Z." % (k, cs[k]))
        else:
            lines.append("Definition %s : N := %d." % (k, cs[k]))
    lines.append("\n(* AST fingerprints of the hand-modelled functions *)")
    for k in sorted(ps):
        lines.append('Definition pin_%s : string := "%s"%%string.' % (k, ps[k]))
    emit("CrawlConsts.v", "\n".join(lines) + "\n")
    return {"bits": bits, "prefixes": prefixes, "constants": cs, "pins": ps}


if __name__ == "__main__":
    import json
    print(json.dumps(generate()["pins"], indent=1))
