"""src/allmydata/storage/http_server.py (+ http_common.py, http_client.py)  ->  coq/Gen/Routes.v

Translated (from the AST, nothing is imported or executed):
  * the `Secrets` enum of http_common.py -> `Inductive secret`, `secret_name`, `all_secrets`;
  * every Klein route of class HTTPServer: handler name, URL pattern, methods, the
    `required_secrets` set, the secrets the handler body reads (`authorization[Secrets.X]`),
    whether it is registered through `_authorized_route` (a bare `@_app.route(...)` is
    emitted with r_authorised := false, so `every_route_authorised` fails and the driver
    goes looking for the request that gets through), whether it is `async_to_deferred`,
    and the AST fingerprint of the handler;
  * AST fingerprints ("pins") of the definitions Model/HttpAuth.v and Model/HttpRange.v were
    hand-written for.

Closed world: every occurrence of the Klein application object (`_app`), of `Klein(...)`,
`.route`/`.subroute`/`.add_url_rule`/`.url_map`/`.resource()` and of `_authorized_route` /
`_authorization_decorator` must sit in a position this translator understands; anything else
raises TranslatorAbort (a route could be registered there)."""
import ast

from .common import HEADER, TranslatorAbort, coq_string, dump_hash, emit, read_source

SRC = "src/allmydata/storage/http_server.py"
SRC_COMMON = "src/allmydata/storage/http_common.py"
SRC_CLIENT = "src/allmydata/storage/http_client.py"
SRC_STORAGE_CLIENT = "src/allmydata/storage_client.py"

APP = "_app"
ROUTEISH = ("route", "subroute", "add_url_rule", "url_map", "urlFor", "url_for")

# module-level definitions of http_server.py the models were written for
SERVER_PINS = ["_extract_secrets", "_authorization_decorator", "_authorized_route", "StorageIndexUploads",
               "UploadsInProgress", "_HTTPError", "_add_error_handling", "StorageIndexConverter",
               "_ReadAllProducer", "_ReadRangeProducer", "read_range", "read_encoded"]
COMMON_PINS = ["swissnum_auth_header", "Secrets"]
CLIENT_PINS = ["read_share_chunk", "TestWriteVectors", "TestVector", "WriteVector", "ReadVector"]
CLIENT_METHOD_PINS = [("StorageClient", "_get_headers"), ("StorageClient", "_request"),
                      ("StorageClientImmutables", "_write_share_chunk"),
                      ("StorageClientMutables", "_read_test_write_chunks")]
ADAPTER_METHOD_PINS = [("_HTTPStorageServer", "slot_testv_and_readv_and_writev"),
                       ("_HTTPStorageServer", "slot_readv")]


class Route(object):
    def __init__(self, name, url, methods, required, uses, authorised, is_async, pin, lineno):
        self.name = name
        self.url = url
        self.methods = methods
        self.required = required      # list of Secrets member names, source order
        self.uses = uses              # Secrets member names read as authorization[Secrets.X]
        self.authorised = authorised
        self.is_async = is_async
        self.pin = pin
        self.lineno = lineno

    def as_dict(self):
        return {"name": self.name, "url": self.url, "methods": list(self.methods), "required": list(self.required),
                "uses": list(self.uses), "authorised": self.authorised, "async": self.is_async}


def _is_name(n, s):
    return isinstance(n, ast.Name) and n.id == s


def parse_secrets_enum(tree):
    for st in tree.body:
        if isinstance(st, ast.ClassDef) and st.name == "Secrets":
            if not (len(st.bases) == 1 and _is_name(st.bases[0], "Enum")):
                raise TranslatorAbort("Secrets is not a plain Enum")
            members = []
            for b in st.body:
                if isinstance(b, ast.Expr) and isinstance(b.value, ast.Constant) and isinstance(b.value.value, str):
                    continue
                if (isinstance(b, ast.Assign) and len(b.targets) == 1 and isinstance(b.targets[0], ast.Name)
                        and isinstance(b.value, ast.Constant) and isinstance(b.value.value, str)):
                    members.append((b.targets[0].id, b.value.value))
                    continue
                raise TranslatorAbort("Secrets: unsupported member %s" % ast.dump(b)[:100])
            if not members:
                raise TranslatorAbort("Secrets has no members")
            if len(set(v for _, v in members)) != len(members):
                raise TranslatorAbort("Secrets: duplicate values")
            return members
    raise TranslatorAbort("class Secrets not found in http_common.py")


def _secret_set(node, members, where):
    names = [m for m, _ in members]
    if isinstance(node, ast.Call) and _is_name(node.func, "set") and not node.args and not node.keywords:
        return []
    if isinstance(node, ast.Set):
        out = []
        for e in node.elts:
            if isinstance(e, ast.Attribute) and _is_name(e.value, "Secrets") and e.attr in names:
                if e.attr in out:
                    raise TranslatorAbort("%s: secret %s listed twice" % (where, e.attr))
                out.append(e.attr)
            else:
                raise TranslatorAbort("%s: required_secrets element %s" % (where, ast.dump(e)[:80]))
        return out
    raise TranslatorAbort("%s: required_secrets is not a set literal: %s" % (where, ast.dump(node)[:100]))


def _methods(call, where):
    methods = None
    for kw in call.keywords:
        if kw.arg == "methods":
            if not (isinstance(kw.value, (ast.List, ast.Tuple)) and kw.value.elts
                    and all(isinstance(e, ast.Constant) and isinstance(e.value, str) for e in kw.value.elts)):
                raise TranslatorAbort("%s: methods= is not a literal list of strings" % where)
            methods = [e.value for e in kw.value.elts]
        else:
            raise TranslatorAbort("%s: unsupported route keyword %r (branch / subdomain / ... change what is routed)" % (where, kw.arg))
    if methods is None:
        raise TranslatorAbort("%s: route without methods= (Klein would accept every method)" % where)
    return methods


def _handler_uses(fn, members, where):
    """Secrets read by the handler as <third parameter>[Secrets.X]; any other
    use of that parameter is not understood."""
    params = [a.arg for a in fn.args.args]
    if len(params) < 3 or params[0] != "self":
        raise TranslatorAbort("%s: handler signature %r" % (where, params))
    sec = params[2]
    names = [m for m, _ in members]
    uses = []
    claimed = set()
    for n in ast.walk(fn):
        if isinstance(n, ast.Subscript) and _is_name(n.value, sec):
            k = n.slice
            if isinstance(k, ast.Attribute) and _is_name(k.value, "Secrets") and k.attr in names and isinstance(n.ctx, ast.Load):
                if k.attr not in uses:
                    uses.append(k.attr)
                claimed.add(id(n.value))
            else:
                raise TranslatorAbort("%s: %s[...] with a key that is not Secrets.<member>" % (where, sec))
    for n in ast.walk(fn):
        if _is_name(n, sec) and id(n) not in claimed:
            raise TranslatorAbort("%s: the secrets dictionary %r is used other than as %s[Secrets.X]" % (where, sec, sec))
    return uses


def extract():
    """Returns (members, routes, pins) from the working tree; raises TranslatorAbort."""
    _, common = read_source(SRC_COMMON)
    members = parse_secrets_enum(common)
    _, tree = read_source(SRC)

    pins = {}
    top = {}
    for st in tree.body:
        if isinstance(st, (ast.FunctionDef, ast.AsyncFunctionDef, ast.ClassDef)):
            if st.name in top:
                raise TranslatorAbort("%s defined twice at module level" % st.name)
            top[st.name] = st
    for name in SERVER_PINS:
        if name not in top:
            raise TranslatorAbort("pinned definition %s missing from http_server.py" % name)
        pins[name] = dump_hash(top[name])
    ctop = {st.name: st for st in common.body if isinstance(st, (ast.FunctionDef, ast.ClassDef))}
    for name in COMMON_PINS:
        if name not in ctop:
            raise TranslatorAbort("pinned definition %s missing from http_common.py" % name)
        pins[name] = dump_hash(ctop[name])

    if "HTTPServer" not in top or not isinstance(top["HTTPServer"], ast.ClassDef):
        raise TranslatorAbort("class HTTPServer not found")
    cls = top["HTTPServer"]

    understood = set()     # id() of AST nodes (uses of the app / route machinery) in recognised positions

    def claim(node):
        for n in ast.walk(node):
            understood.add(id(n))

    routes = []
    saw_app = False
    for st in cls.body:
        # _app = Klein()
        if (isinstance(st, ast.Assign) and len(st.targets) == 1 and _is_name(st.targets[0], APP)):
            v = st.value
            if not (isinstance(v, ast.Call) and _is_name(v.func, "Klein") and not v.args and not v.keywords) or saw_app:
                raise TranslatorAbort("HTTPServer._app is not assigned exactly once as Klein()")
            saw_app = True
            claim(st)
            continue
        # _app.url_map.converters["storage_index"] = StorageIndexConverter
        if (isinstance(st, ast.Assign) and len(st.targets) == 1 and isinstance(st.targets[0], ast.Subscript)):
            t = st.targets[0]
            if (isinstance(t.value, ast.Attribute) and t.value.attr == "converters" and isinstance(t.value.value, ast.Attribute)
                    and t.value.value.attr == "url_map" and _is_name(t.value.value.value, APP)
                    and isinstance(t.slice, ast.Constant) and t.slice.value == "storage_index"
                    and _is_name(st.value, "StorageIndexConverter")):
                claim(st)
                continue
        # _add_error_handling(_app)
        if (isinstance(st, ast.Expr) and isinstance(st.value, ast.Call) and _is_name(st.value.func, "_add_error_handling")
                and len(st.value.args) == 1 and _is_name(st.value.args[0], APP) and not st.value.keywords):
            claim(st)
            continue
        if isinstance(st, (ast.FunctionDef, ast.AsyncFunctionDef)):
            where = "HTTPServer.%s" % st.name
            if not st.decorator_list:
                if st.name == "get_resource":
                    # return self._app.resource()
                    body = [b for b in st.body if not (isinstance(b, ast.Expr) and isinstance(b.value, ast.Constant))]
                    ok = (len(body) == 1 and isinstance(body[0], ast.Return) and isinstance(body[0].value, ast.Call)
                          and isinstance(body[0].value.func, ast.Attribute) and body[0].value.func.attr == "resource"
                          and isinstance(body[0].value.func.value, ast.Attribute) and body[0].value.func.value.attr == APP
                          and _is_name(body[0].value.func.value.value, "self") and not body[0].value.args)
                    if not ok:
                        raise TranslatorAbort("HTTPServer.get_resource is not `return self._app.resource()`")
                    claim(st)
                continue
            decs = st.decorator_list
            first = decs[0]
            is_async = False
            for d in decs[1:]:
                if _is_name(d, "async_to_deferred"):
                    is_async = True
                else:
                    raise TranslatorAbort("%s: unrecognised decorator below the route: %s" % (where, ast.dump(d)[:100]))
            if is_async != isinstance(st, ast.AsyncFunctionDef):
                raise TranslatorAbort("%s: async def / async_to_deferred mismatch" % where)
            if isinstance(first, ast.Call) and _is_name(first.func, "_authorized_route"):
                if len(first.args) != 3 or not _is_name(first.args[0], APP):
                    raise TranslatorAbort("%s: _authorized_route(...) positional arguments" % where)
                required = _secret_set(first.args[1], members, where)
                if not (isinstance(first.args[2], ast.Constant) and isinstance(first.args[2].value, str)):
                    raise TranslatorAbort("%s: URL is not a string literal" % where)
                url = first.args[2].value
                methods = _methods(first, where)
                authorised = True
            elif (isinstance(first, ast.Call) and isinstance(first.func, ast.Attribute) and first.func.attr == "route"
                  and _is_name(first.func.value, APP)):
                # a bare Klein route: registered WITHOUT the authorising wrapper
                if not (first.args and isinstance(first.args[0], ast.Constant) and isinstance(first.args[0].value, str)):
                    raise TranslatorAbort("%s: bare route URL is not a string literal" % where)
                url = first.args[0].value
                methods = _methods(first, where)
                required = []
                authorised = False
            else:
                raise TranslatorAbort("%s: unrecognised route-registering decorator %s" % (where, ast.dump(first)[:120]))
            claim(first)
            uses = _handler_uses(st, members, where) if authorised else []
            routes.append(Route(st.name, url, methods, required, uses, authorised, is_async, dump_hash(st), st.lineno))
            continue
        if isinstance(st, ast.Expr) and isinstance(st.value, ast.Constant) and isinstance(st.value.value, str):
            continue
        if isinstance(st, ast.AnnAssign) and isinstance(st.target, ast.Name) and st.target.id != APP:
            continue
        raise TranslatorAbort("HTTPServer: unsupported class-level statement %s" % ast.dump(st)[:120])
    if not saw_app:
        raise TranslatorAbort("HTTPServer._app = Klein() not found")

    # the pinned definitions may mention the machinery freely (their text is fixed by the pin)
    for name in ("_authorized_route", "_authorization_decorator", "_add_error_handling", "BaseApp"):
        if name in top:
            claim(top[name])

    # closed world: no other mention of the app or of route registration anywhere in the module
    for n in ast.walk(tree):
        if id(n) in understood:
            continue
        bad = None
        if isinstance(n, ast.Name) and n.id in (APP, "_authorized_route", "_authorization_decorator"):
            bad = n.id
        elif isinstance(n, ast.Name) and n.id in ("Klein", "KleinResource"):
            # allowed: imports (not Name nodes) and type annotations `-> KleinResource`
            if n.id == "Klein":
                bad = "Klein"
        elif isinstance(n, ast.Attribute) and (n.attr in ROUTEISH or n.attr == APP):
            bad = "." + n.attr
        elif isinstance(n, ast.Attribute) and n.attr == "resource":
            bad = ".resource"
        if bad:
            raise TranslatorAbort("line %d: %s used in a position the route translator does not understand "
                                  "(a route may be registered there)" % (getattr(n, "lineno", 0), bad))
    for n in ast.walk(tree):
        if isinstance(n, ast.ClassDef) and n is not cls:
            for b in ast.walk(n):
                if isinstance(b, (ast.FunctionDef, ast.AsyncFunctionDef)):
                    for d in b.decorator_list:
                        for x in ast.walk(d):
                            if isinstance(x, ast.Attribute) and x.attr in ROUTEISH:
                                raise TranslatorAbort("route registered outside HTTPServer: %s.%s" % (n.name, b.name))

    names = [r.name for r in routes]
    if len(set(names)) != len(names):
        raise TranslatorAbort("two routes share a handler name")
    keys = [(r.url, m) for r in routes for m in r.methods]
    if len(set(keys)) != len(keys):
        raise TranslatorAbort("two routes share (url, method)")
    if not routes:
        raise TranslatorAbort("no routes found")

    # client side (C31 models)
    _, ctree = read_source(SRC_CLIENT)
    cl = {st.name: st for st in ctree.body if isinstance(st, (ast.FunctionDef, ast.AsyncFunctionDef, ast.ClassDef))}
    for name in CLIENT_PINS:
        if name not in cl:
            raise TranslatorAbort("pinned definition %s missing from http_client.py" % name)
        pins["client_" + name] = dump_hash(cl[name])

    def method_pins(classes, wanted, prefix, fname):
        for cname, mname in wanted:
            c = classes.get(cname)
            m = None
            if isinstance(c, ast.ClassDef):
                for b in c.body:
                    if isinstance(b, (ast.FunctionDef, ast.AsyncFunctionDef)) and b.name == mname:
                        m = b
            if m is None:
                raise TranslatorAbort("pinned method %s.%s missing from %s" % (cname, mname, fname))
            pins["%s%s_%s" % (prefix, cname.strip("_"), mname.strip("_"))] = dump_hash(m)
    method_pins(cl, CLIENT_METHOD_PINS, "client_", "http_client.py")
    _, sctree = read_source(SRC_STORAGE_CLIENT)
    sc = {st.name: st for st in sctree.body if isinstance(st, ast.ClassDef)}
    method_pins(sc, ADAPTER_METHOD_PINS, "adapter_", "storage_client.py")
    for cname in ("_HTTPBucketWriter", "_HTTPBucketReader"):
        if cname not in sc:
            raise TranslatorAbort("pinned class %s missing from storage_client.py" % cname)
        pins["adapter_" + cname.strip("_")] = dump_hash(sc[cname])
    return members, routes, pins


def _ctor(name):
    return "S_" + name


def render(members, routes, pins):
    out = []
    out.append("(* http_common.Secrets *)")
    out.append("Inductive secret : Set := " + " | ".join(_ctor(m) for m, _ in members) + ".")
    out.append("Definition secret_eqb (a b : secret) : bool :=\n  match a, b with\n"
               + "".join("  | %s, %s => true\n" % (_ctor(m), _ctor(m)) for m, _ in members)
               + ("  | _, _ => false\n" if len(members) > 1 else "") + "  end.")
    out.append("Definition all_secrets : list secret := [%s]." % "; ".join(_ctor(m) for m, _ in members))
    out.append("Definition secret_name (s : secret) : list N :=\n  match s with\n"
               + "".join("  | %s => bytes_of_string %s%%string\n" % (_ctor(m), coq_string(v)) for m, v in members) + "  end.")
    out.append("")
    out.append("Record route : Set := mk_route {\n  r_name : string; r_url : string; r_methods : list string;\n"
               "  r_required : list secret; r_uses : list secret; r_authorised : bool; r_async : bool; r_pin : string }.")
    out.append("")
    out.append("(* every Klein route of http_server.HTTPServer, in source order *)")
    rs = []
    for r in routes:
        rs.append("  mk_route %s %s [%s]\n    [%s] [%s] %s %s %s" % (
            coq_string(r.name), coq_string(r.url), "; ".join(coq_string(m) for m in r.methods),
            "; ".join(_ctor(s) for s in r.required), "; ".join(_ctor(s) for s in r.uses),
            "true" if r.authorised else "false", "true" if r.is_async else "false", coq_string(r.pin)))
    out.append("Definition routes : list route := [\n" + ";\n".join(rs) + "\n].")
    out.append("")
    out.append("(* AST fingerprints of the hand-modelled definitions *)")
    for k in sorted(pins):
        out.append("Definition pin_%s : string := %s." % (k.strip("_"), coq_string(pins[k])))
    return "\n".join(out) + "\n"


def generate():
    members, routes, pins = extract()
    body = (HEADER % ("routes.py", SRC + ", " + SRC_COMMON + ", " + SRC_CLIENT + ", " + SRC_STORAGE_CLIENT)
            + "From Coq Require Import List NArith Bool String.\n"
            + "From Verif Require Import Lib.Hex.\n"
            + "Import ListNotations.\nLocal Open Scope string_scope.\n\n"
            + render(members, routes, pins))
    emit("Routes.v", body)
    return members, routes, pins


if __name__ == "__main__":
    m, r, p = generate()
    for x in r:
        print(x.as_dict())
