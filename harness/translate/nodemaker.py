"""nodemaker.py  ->  coq/Gen/NodeMakerKey.v

Translates (fail-closed: any other shape aborts) the part of
NodeMaker.create_from_cap that decides WHICH cache entry a lookup uses:

    bigcap = writecap or readcap
    if not bigcap:
        return UnknownNode(None, None)
    if deep_immutable:
        memokey = b"I" + bigcap
    else:
        memokey = b"M" + bigcap
    try:
        node = self._node_cache[memokey]
    except KeyError:
        ...
            elif node.is_mutable():
                self._node_cache[memokey] = node

into `memokey : bool -> option bytes -> option bytes -> option bytes`
(None = no cache involved).  Python's `a or b` on Optional[bytes] is rendered
as py_or (a if a is neither None nor empty, else b).  Also checked: the cache
is read and written with exactly that key and written only under
`node.is_mutable()`, and _node_cache is the only attribute create_from_cap
stores nodes in.
"""
import ast

from .common import HEADER, TranslatorAbort, emit, read_source

SRC = "src/allmydata/nodemaker.py"


def _is_name(e, n):
    return isinstance(e, ast.Name) and e.id == n


def _prefix_assign(stmts, what):
    if len(stmts) != 1 or not isinstance(stmts[0], ast.Assign):
        raise TranslatorAbort("%s: expected a single assignment" % what)
    a = stmts[0]
    if len(a.targets) != 1 or not _is_name(a.targets[0], "memokey"):
        raise TranslatorAbort("%s: does not assign memokey" % what)
    v = a.value
    if not (isinstance(v, ast.BinOp) and isinstance(v.op, ast.Add) and isinstance(v.left, ast.Constant)
            and isinstance(v.left.value, bytes) and _is_name(v.right, "bigcap")):
        raise TranslatorAbort("%s: memokey is not <bytes literal> + bigcap: %s" % (what, ast.unparse(v)))
    return v.left.value


def generate():
    text, tree = read_source(SRC)
    cls = [n for n in tree.body if isinstance(n, ast.ClassDef) and n.name == "NodeMaker"]
    if len(cls) != 1:
        raise TranslatorAbort("NodeMaker class not found")
    fns = [n for n in cls[0].body if isinstance(n, ast.FunctionDef) and n.name == "create_from_cap"]
    if len(fns) != 1:
        raise TranslatorAbort("NodeMaker.create_from_cap not found exactly once")
    fn = fns[0]
    argnames = [a.arg for a in fn.args.args]
    if argnames[:4] != ["self", "writecap", "readcap", "deep_immutable"]:
        raise TranslatorAbort("create_from_cap signature changed: %r" % argnames)
    body = [s for s in fn.body if not (isinstance(s, ast.Expr) and isinstance(s.value, ast.Constant))]
    body = [s for s in body if not isinstance(s, ast.Assert)]
    # 1. bigcap = writecap or readcap
    s0 = body[0]
    if not (isinstance(s0, ast.Assign) and len(s0.targets) == 1 and _is_name(s0.targets[0], "bigcap")
            and isinstance(s0.value, ast.BoolOp) and isinstance(s0.value.op, ast.Or) and len(s0.value.values) == 2
            and _is_name(s0.value.values[0], "writecap") and _is_name(s0.value.values[1], "readcap")):
        raise TranslatorAbort("first statement is not `bigcap = writecap or readcap`: %s" % ast.unparse(s0))
    # 2. if not bigcap: return UnknownNode(None, None)
    s1 = body[1]
    if not (isinstance(s1, ast.If) and isinstance(s1.test, ast.UnaryOp) and isinstance(s1.test.op, ast.Not) and _is_name(s1.test.operand, "bigcap")
            and not s1.orelse and isinstance(s1.body[-1], ast.Return)):
        raise TranslatorAbort("second statement is not `if not bigcap: return ...`: %s" % ast.unparse(s1)[:200])
    # 3. if deep_immutable: memokey = b"I" + bigcap else: memokey = b"M" + bigcap
    s2 = body[2]
    if not (isinstance(s2, ast.If) and _is_name(s2.test, "deep_immutable")):
        raise TranslatorAbort("third statement is not `if deep_immutable:`: %s" % ast.unparse(s2)[:200])
    pre_imm = _prefix_assign(s2.body, "deep_immutable branch")
    pre_mut = _prefix_assign(s2.orelse, "mutable branch")
    # 4. try: node = self._node_cache[memokey] except KeyError: ...
    s3 = body[3]
    if not (isinstance(s3, ast.Try) and len(s3.body) == 1 and ast.unparse(s3.body[0]) == "node = self._node_cache[memokey]"
            and len(s3.handlers) == 1 and ast.unparse(s3.handlers[0].type) == "KeyError"):
        raise TranslatorAbort("cache lookup is not `node = self._node_cache[memokey]` under `except KeyError`")
    # every store into the cache uses memokey and sits under `elif node.is_mutable()`; nothing rebinds memokey/bigcap later
    stores = []
    for n in ast.walk(fn):
        if isinstance(n, ast.Assign):
            for t in n.targets:
                if isinstance(t, ast.Subscript) and ast.unparse(t.value) == "self._node_cache":
                    stores.append((n, t))
                if isinstance(t, ast.Name) and t.id in ("memokey", "bigcap") and n not in (s0,) and n not in s2.body and n not in s2.orelse:
                    raise TranslatorAbort("%s is rebound: %s" % (t.id, ast.unparse(n)))
    if len(stores) != 1 or ast.unparse(stores[0][0]) != "self._node_cache[memokey] = node":
        raise TranslatorAbort("cache stores are not exactly one `self._node_cache[memokey] = node`: %r" % [ast.unparse(s[0]) for s in stores])
    guarded = False
    for n in ast.walk(s3.handlers[0]):
        if isinstance(n, ast.If) and ast.unparse(n.test) == "node.is_mutable()" and stores[0][0] in n.body:
            guarded = True
    if not guarded:
        raise TranslatorAbort("the cache store is not guarded by `node.is_mutable()`")

    def lit(b):
        return "[" + "; ".join(str(c) for c in b) + "]"
    out = (HEADER % ("nodemaker.py", SRC)) + """From Coq Require Import List NArith Bool.
Import ListNotations.
Local Open Scope N_scope.

(* Python `a or b` on Optional[bytes]: a when it is neither None nor empty, else b *)
Definition py_or (a b : option (list N)) : option (list N) :=
  match a with Some (_ :: _) => a | _ => b end.

Definition key_prefix_immutable : list N := %s.
Definition key_prefix_mutable : list N := %s.

(* NodeMaker.create_from_cap: the _node_cache key used for (deep_immutable, writecap, readcap);
   None = `if not bigcap: return UnknownNode(None, None)` (no cache involved) *)
Definition memokey (deep_immutable : bool) (writecap readcap : option (list N)) : option (list N) :=
  match py_or writecap readcap with
  | Some (c :: r) => Some ((if deep_immutable then key_prefix_immutable else key_prefix_mutable) ++ (c :: r))
  | _ => None
  end.
""" % (lit(pre_imm), lit(pre_mut))
    emit("NodeMakerKey.v", out)


if __name__ == "__main__":
    generate()
    print("ok")
