#!/venv/bin/python
"""Regenerate /verif/MANIFEST.json from the property drivers (harness/props/cNN.py: META)
and harness/not_applicable.json.  Run after adding or changing a property driver."""
import importlib
import json
import os
import sys

sys.path.insert(0, os.path.dirname(os.path.abspath(__file__)))
from core import env  # noqa: E402

BASELINE = json.load(open("/root/.vp/BASELINE.json"))["cmd"].replace("--junitxml=<file>", "").strip()


def main():
    props = [json.loads(l) for l in open(os.path.join(env.VERIF, "properties.jsonl"))]
    na_path = os.path.join(env.HARNESS, "not_applicable.json")
    na_reasons = json.load(open(na_path)) if os.path.exists(na_path) else {}
    checks = []
    na = []
    # harness/claimed.json: the properties whose check has been run to completion and passes on
    # the unchanged tree (maintained by hand; a driver still under construction is not claimed)
    claimed_path = os.path.join(env.HARNESS, "claimed.json")
    claimed = set(json.load(open(claimed_path))) if os.path.exists(claimed_path) else None
    for p in props:
        pid = p["id"]
        mod_path = os.path.join(env.HARNESS, "props", pid.lower() + ".py")
        props_v = os.path.join(env.COQ, "Props", pid + ".v")
        if os.path.exists(mod_path) and os.path.exists(props_v) and pid not in na_reasons and (claimed is None or pid in claimed):
            src = open(mod_path).read()
            # META is a literal dict: evaluate the module lazily without importing allmydata
            sys.path.insert(0, env.HARNESS)
            m = importlib.import_module("props." + pid.lower())
            meta = m.META
            checks.append({
                "property_id": pid,
                "quick_cmd": "/venv/bin/python harness/check.py %s --tier quick" % pid,
                "thorough_cmd": "/venv/bin/python harness/check.py %s --tier thorough" % pid,
                "evidence_file": "/verif/evidence/%s.json" % pid,
                "replay_cmd_template": "/venv/bin/python harness/check.py %s --replay {path}" % pid,
                "engine": "coq+harness",
                "level_claimed": {"category": "proof", "text": meta["level_text"], "design_ref": "DESIGN.md section " + meta.get("design_ref", "8/" + pid)},
                "level_note": meta["level_note"],
                "technique": meta.get("technique", "Coq proof over an executable model + differential correspondence with the implementation"),
            })
        else:
            na.append({"property_id": pid, "reason": na_reasons.get(pid, "not claimed yet: model, theorems and correspondence for this property are not built in the committed tree")})
    manifest = {
        "version": 1,
        "setup_cmd": "/venv/bin/python harness/setup.py",
        "hooks": {
            "guard": env.GUARD,
            "enable": "no source hooks are needed: the harness substitutes module attributes (clocks, schedulers, file operations) at run time; the guard variable is exported to every driver for completeness",
            "baseline_off_cmd": BASELINE,
            "source_commits": [],
            "add_only": True,
        },
        "engines": [
            {"name": "coq", "path": "/verif/coq", "serves_properties": [c["property_id"] for c in checks],
             "kind_free_text": "Coq 8.16.1 development: Lib (shared), Gen (regenerated from /repo each run), Model (executable Gallina), Proofs, Props (theorem statements + Print Assumptions)"},
            {"name": "harness", "path": "/verif/harness", "serves_properties": [c["property_id"] for c in checks],
             "kind_free_text": "python drivers: translators (tie 1), correspondence + direct oracle against /repo's working tree (tie 2), failing-input search, evidence"},
        ],
        "checks": checks,
        "not_applicable": na,
        "notes": "Every check: regenerate Gen/*.v from /repo -> full .vo build of Props/<id>.v with Print Assumptions audit -> model/implementation correspondence -> direct oracle -> evidence.  See DESIGN.md.",
    }
    with open(os.path.join(env.VERIF, "MANIFEST.json"), "w") as f:
        json.dump(manifest, f, indent=1)
        f.write("\n")
    print("checks:", len(checks), "not_applicable:", len(na))


if __name__ == "__main__":
    main()
