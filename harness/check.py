#!/venv/bin/python
"""Entry point:  check.py Cnn [--tier quick|thorough] [--seed N] [--replay FILE]

One run = regenerate the Gen modules from /repo's working tree, re-prove the
property's theorems (full .vo build, Print Assumptions audited), run the
correspondence between the Coq model and the implementation, evaluate the
direct property oracle, decide, write evidence/Cnn.json.  DESIGN.md section 4.
"""
import os
import sys

sys.path.insert(0, os.path.dirname(os.path.abspath(__file__)))
from core import env  # noqa: E402

env.ensure_interpreter()

import argparse  # noqa: E402
import importlib  # noqa: E402
import json  # noqa: E402
import time  # noqa: E402
import traceback  # noqa: E402

from core import coq, findings  # noqa: E402
from core.ctx import Ctx, Failure, jsonable, write_replay  # noqa: E402


def load_prop(pid):
    return importlib.import_module("props." + pid.lower())


def run_generators(P, obligations):
    for g in getattr(P, "GEN", []):
        name = "translate:" + g
        try:
            mod = importlib.import_module("translate." + g)
            mod.generate()
            obligations.append((name, True, "regenerated from working tree"))
        except Exception as e:  # fail closed: unknown construct, missing function, ...
            obligations.append((name, False, "%s: %s" % (type(e).__name__, e)))


def run_driver(P, ctx):
    try:
        P.run(ctx)
    except Exception as e:
        ctx.fail("correspondence", "harness-error", "driver raised %s: %s" % (type(e).__name__, e),
                 observed=traceback.format_exc()[-3000:])


def main():
    ap = argparse.ArgumentParser()
    ap.add_argument("pid")
    ap.add_argument("--tier", default=os.environ.get("VERIF_TIER") or "quick", choices=["quick", "thorough"])
    ap.add_argument("--seed", type=int, default=int(os.environ.get("VERIF_SEED") or 0))
    ap.add_argument("--replay")
    ap.add_argument("--no-build", action="store_true", help="developer aid: skip the Coq build")
    args = ap.parse_args()
    pid = args.pid.upper()
    t0 = time.time()
    P = load_prop(pid)

    if args.replay:
        rec = json.load(open(args.replay))
        ctx = Ctx(pid, rec.get("tier", "quick"), rec.get("seed", 0))
        print("replaying", args.replay)
        print(json.dumps({k: rec.get(k) for k in ("source", "kind", "what", "case", "expected", "observed")}, indent=1)[:6000])
        if hasattr(P, "replay"):
            out = P.replay(ctx, rec)
            print("replay result:", json.dumps(jsonable(out), indent=1)[:6000])
            for f in ctx.failures:
                print("FAILS AGAIN:", f["source"], f["kind"], f["what"])
            return 1 if ctx.failures else 0
        print("(property driver defines no single-case replay; the record above holds input, expected and observed)")
        return 0

    obligations = []   # (name, ok, detail)

    # 1. tie 1: regenerate Gen modules from the working tree
    run_generators(P, obligations)

    # 2. proofs
    axioms_seen = {}
    checker_cmd = "make -C coq Props/%s.vo" % pid
    gen_broken = [o for o in obligations if not o[1]]
    if gen_broken and not args.no_build:
        # the model could not be regenerated: theorems about a stale Gen module prove nothing
        text = coq.strip_comments(open(os.path.join(env.COQ, "Props", pid + ".v")).read()) if os.path.exists(os.path.join(env.COQ, "Props", pid + ".v")) else ""
        for th in coq.THEOREM_RE.findall(text):
            obligations.append(("theorem:" + th, False, "not re-checked: Gen module could not be regenerated from the working tree"))
    elif not args.no_build:
        problems = coq.lint(pid)
        obligations.append(("lint:no-admitted-no-axioms", not problems, "; ".join(problems[:5])))
        # in-tree incremental build (case files are evaluated against this tree) ...
        r = coq.build_props(pid)
        extra = [m.replace(".", "/") + ".vo" for m in getattr(P, "IMPORTS", []) + getattr(P, "COQ_EXTRA", [])]
        if r["ok"] and extra:
            okx, outx = coq.make(extra)
            if not okx:
                obligations.append(("build:driver-imports", False, " ".join(outx.split())[-300:]))
        clean = None
        if args.tier == "thorough" and r["ok"]:
            # ... and, in the thorough tier, a clean out-of-tree rebuild of the whole cone
            clean = coq.build_props(pid, clean_cone=True)
            obligations.append(("clean-rebuild:Props.%s" % pid, clean["ok"], clean["failed"] or clean["cmd"]))
        checker_cmd = r["cmd"] or checker_cmd
        allowed = coq.allowed_axioms()
        if not r["theorems"]:
            obligations.append(("props:nonempty", False, r["failed"] or "no theorems in Props/%s.v" % pid))
        for th in r["theorems"]:
            ok = r["ok"]
            detail = "" if ok else (r["failed"] or "build failed")
            obligations.append(("theorem:" + th, ok, detail))
        if r["ok"]:
            for th in r["theorems"]:
                if th.endswith("_nonvacuous") or th.startswith("ex_"):
                    continue
                if th not in r["assumptions"]:
                    obligations.append(("assumptions:" + th, False, "no Print Assumptions for %s" % th))
            for th, axs in r["assumptions"].items():
                bad = [a for a in axs if a not in allowed]
                axioms_seen[th] = axs
                obligations.append(("assumptions:" + th, not bad, ("not allowed: " + ", ".join(bad)) if bad else ("closed" if not axs else "allowed: " + ", ".join(axs))))
        elif not r["theorems"]:
            pass
        if args.tier == "thorough" and r["ok"] and clean and clean["ok"] and not os.environ.get("VERIF_SKIP_COQCHK"):
            ok, out = coq.coqchk(pid, workdir=(clean or {}).get("workdir"))
            obligations.append(("coqchk:Props.%s" % pid, ok, " ".join(out.split())[-300:]))

    # 3. tie 2: correspondence + direct oracle
    ctx = Ctx(pid, args.tier, args.seed)
    run_driver(P, ctx)
    for name in ctx.correspondences or ["correspondence"]:
        bad = [f for f in ctx.failures if f["source"] == "correspondence" and f.get("correspondence", name) == name]
        obligations.append(("correspondence:" + name, not bad, bad[0]["what"][:300] if bad else "model and implementation agree on every case"))

    # 4. decide
    known = findings.load(pid)
    lines = []
    violations = 0
    known_hits = {}
    oracle_fail = [f for f in ctx.failures if f["source"] == "oracle"]
    broken = [o for o in obligations if not o[1]]

    def report_oracle(flist, c):
        nonlocal violations
        seen = set()
        for f in flist:
            k = findings.match(known, f)
            if k is not None:
                known_hits.setdefault(k["kind"], (k, f))
                continue
            if f["kind"] in seen:
                continue
            seen.add(f["kind"])
            path = write_replay(pid, f, c.seed, c.tier)
            lines.append("VIOLATION property=%s replay=%s" % (pid, path))
            print("  property fails on the implementation: [%s] %s" % (f["kind"], f["what"]))
            violations += 1

    report_oracle(oracle_fail, ctx)

    if broken and violations == 0:
        # A proof obligation or the correspondence no longer checks: search
        # model and implementation for a concrete failing input.
        print("broken obligations:", "; ".join("%s (%s)" % (o[0], o[2][:200]) for o in broken[:6]))
        print("searching for a concrete failing input ...")
        found = []
        # (i) the disagreeing cases themselves were already judged by the oracle in run();
        # (ii) fresh, larger search budget with other seeds
        crashed = any(f.get("kind") == "harness-error" for f in ctx.failures)
        t_search = time.time()
        for extra_seed in (args.seed + 1000003, args.seed + 2000003):
            if crashed or time.time() - t_search > 240:
                break      # a driver that crashed shows nothing more when re-run; keep the search bounded
            sctx = Ctx(pid, args.tier, extra_seed, search=True)
            if hasattr(P, "search"):
                try:
                    P.search(sctx, [f for f in ctx.failures if f["source"] == "correspondence"])
                except Exception as e:
                    print("  search hook raised", type(e).__name__, e)
            run_driver(P, sctx)
            cand = [f for f in sctx.failures if f["source"] == "oracle" and findings.match(known, f) is None]
            ctx.evaluations += sctx.evaluations
            if cand:
                found = cand
                report_oracle(cand, sctx)
                break
            if sctx.elapsed() > 900:
                break
        if not found:
            first_corr = next((f for f in ctx.failures if f["source"] == "correspondence"), None)
            rec = Failure(source="obligation", kind="broken-obligation",
                          what="no longer checks: " + "; ".join("%s [%s]" % (o[0], o[2][:300]) for o in broken[:8]),
                          case=first_corr.get("case") if first_corr else None,
                          expected=first_corr.get("expected") if first_corr else None,
                          observed=first_corr.get("observed") if first_corr else None,
                          broken=[o[0] for o in broken])
            path = write_replay(pid, rec, args.seed, args.tier)
            lines.append("VIOLATION property=%s replay=%s no-failing-input-found" % (pid, path))
            violations += 1

    for kind, (k, f) in sorted(known_hits.items()):
        print("KNOWN-FINDING: property=%s %s" % (pid, k["what"]))

    # 5. evidence
    wall = time.time() - t0
    n_ob = len(obligations)
    n_ok = len([o for o in obligations if o[1]])
    meta = getattr(P, "META", {})
    ev = {
        "property_id": pid,
        "tier": args.tier,
        "seed": args.seed,
        "level": "proof",
        "coverage": {
            "obligations": n_ob,
            "discharged": n_ok,
            "checker_cmd": checker_cmd,
            "trusted_base": meta.get("trusted_base", []) + [
                "Coq 8.16.1 kernel (coqc; vm_compute used in examples and case evaluation; no native_compute)",
                "harness/translate/* and harness/props/%s.py (ties model to /repo)" % pid.lower(),
                "shims for collections_extended/filelock/wormhole",
            ],
            "obligation_list": [{"name": o[0], "ok": o[1], "detail": o[2][:300]} for o in obligations],
            "axioms_per_theorem": axioms_seen,
            "evaluations": ctx.evaluations,
            "distinct_nontrivial": ctx.distinct_nontrivial,
            "rule": getattr(P, "RULE", meta.get("rule", "")),
            "samples": jsonable(ctx.samples) or [{"note": "no generated cases in this run"}],
            "traces_validated_against_impl": ctx.traces,
            "distribution": {k: v for k, v in sorted(ctx.stats.items())},
            "known_findings_seen": sorted(known_hits),
            "notes": ctx.notes,
        },
        "assumptions": meta.get("assumptions", []),
        "wall_s": round(wall, 2),
        "violations": violations,
    }
    os.makedirs(env.EVIDENCE, exist_ok=True)
    with open(os.path.join(env.EVIDENCE, pid + ".json"), "w") as f:
        json.dump(ev, f, indent=1, sort_keys=True)
        f.write("\n")

    for ln in lines:
        print(ln)
    print("%s %s: obligations %d/%d, cases %d (distinct non-trivial %d), known findings %d, violations %d, %.1fs" % (
        pid, args.tier, n_ok, n_ob, ctx.evaluations, ctx.distinct_nontrivial, len(known_hits), violations, wall))
    return 1 if violations else 0


if __name__ == "__main__":
    sys.exit(main())
