"""C31  HTTP and direct storage access agree.

Twin servers: two real StorageServers on two scratch directories sharing one fake clock.
The same seeded operation history is issued through the HTTP client stack
(StorageClientImmutables / StorageClientMutables / StorageClientGeneral and the
_HTTPStorageServer adapters of storage_client.py, over treq.testing.StubTreq against the
real HTTPServer) on server A and directly (StorageServer API, BucketWriter/BucketReader)
on server B.  Results are compared after canonicalisation, the final states through the
direct API of both servers.  Model: coq/Model/HttpRange.v."""
import os
import shutil

from core import env
from core import term as T
from props.c30 import HttpStore, api_state, rb, _short

ID = "C31"
GEN = ["routes"]
RULE = ("cases: one storage operation (allocate / write chunk / abort / ranged read incl. past the end / list / add lease / "
        "mutable read-test-write / slot reads / advise-corrupt) issued through the HTTP client stack on server A and directly "
        "on server B inside a seeded history, plus one comparison of the final states per history; distinct = distinct "
        "(operation kind, canonical arguments, canonical result); non-trivial = the operation succeeded on the direct server")
META = {
    "title": "HTTP and direct storage access agree",
    "level_text": ("Theorems in Coq over an executable model of the HTTP layer's own logic: (1) a ranged read through "
                   "http_client.read_share_chunk -> Range -> read_range/_ReadRangeProducer (any piece size) -> Content-Range "
                   "returns exactly the direct read_share_data(offset, length) for every offset and every length > 0, past "
                   "the end included; (2) uploading any chunking of the data in any order (each chunk split into pieces of any "
                   "size by the PATCH handler) leaves the same BucketWriter state as the direct writes, answers 201 exactly "
                   "when the chunks cover the allocation, and then the share equals a single direct write; (3) the "
                   "read-test-write request and answer survive encode/decode unchanged.  The same histories are replayed on "
                   "twin real servers through both paths and results and final states compared."),
    "level_note": ("core (partial): HTTP/CBOR serialisation, werkzeug header parsing and Klein routing are exercised by the twin "
                   "run, not modelled; share listing, leases, allocation and the test/write semantics themselves are only "
                   "compared (the storage model is C22-C25's).  Known divergences are excluded from the theorems by explicit "
                   "preconditions with refuting witnesses: zero-length reads/writes, a body over 64 KiB whose later piece is "
                   "refused (earlier pieces stay written), slot_readv naming a share that does not exist.  RangeMap is the shim."),
    "technique": "Coq proof over an executable model + twin-server differential run (HTTP client stack vs direct StorageServer)",
    "design_ref": "8/C31",
    "trusted_base": ["treq.testing.StubTreq / twisted.web in-memory HTTP", "shims/collections_extended.RangeMap",
                     "translator harness/translate/routes.py (AST pins of the modelled client/server functions)"],
    "assumptions": ["AST pins of read_range/_ReadRangeProducer/write_share_data/mutable_read_test_write and of the client's "
                    "read_share_chunk/_write_share_chunk/_read_test_write_chunks/TestWriteVectors equal the values Model/HttpRange.v was written for"],
}

IMPORTS = ["Lib.Hex", "Model.HttpRange"]
PIECE = 65536

KNOWN_KINDS = {
    "zero-read": "http-zero-length-read-fails",
    "zero-write": "http-zero-length-write-fails",
    "multi-piece": "http-multi-piece-write-not-atomic",
    "readv-missing": "http-slot-readv-missing-share-fails",
}


# ---------------------------------------------------------------------------
# canonical results
# ---------------------------------------------------------------------------
def http_error_class(e):
    from allmydata.storage.http_client import ClientException
    from foolscap.api import RemoteException
    from twisted.internet.defer import FirstError
    if isinstance(e, FirstError):
        return http_error_class(e.subFailure.value)
    if isinstance(e, ClientException):
        return {404: "not-found", 405: "not-allowed", 409: "conflict", 401: "unauthorized", 416: "bad-range",
                500: "server-error", 400: "bad-request"}.get(e.code, "http-%s" % e.code)
    if isinstance(e, RemoteException):
        if "Unauthorized write" in str(e):
            return "unauthorized"
        inner = e.args[0] if e.args else None
        if isinstance(inner, tuple) and inner and isinstance(inner[0], int):
            return http_error_class(ClientException(inner[0]))
        return "remote-exception"
    return "client-" + type(e).__name__


def direct_error_class(e):
    from allmydata.storage.immutable import ConflictingWriteError
    from allmydata.storage.common import DataTooLargeError
    from allmydata.interfaces import BadWriteEnablerError
    if isinstance(e, KeyError):
        return "not-found"
    if isinstance(e, ConflictingWriteError):
        return "conflict"
    if isinstance(e, DataTooLargeError):
        return "server-error"
    if isinstance(e, BadWriteEnablerError):
        return "unauthorized"
    return "direct-" + type(e).__name__


def canon(x):
    if isinstance(x, (set, frozenset)):
        return ("set", tuple(sorted(canon(v) for v in x)))
    if isinstance(x, dict):
        return ("dict", tuple(sorted((canon(k), canon(v)) for k, v in x.items())))
    if isinstance(x, (list, tuple)):
        return tuple(canon(v) for v in x)
    if isinstance(x, (bytes, bytearray)):
        return bytes(x)
    return x


def uncovered_runs(mask):
    """[(begin, end)] maximal runs of zero bytes in a bytearray mask."""
    out = []
    n = len(mask)
    i = mask.find(0)
    while i != -1:
        j = mask.find(1, i)
        if j == -1:
            j = n
        out.append((i, j))
        i = mask.find(0, j)
    return out


# ---------------------------------------------------------------------------
# Coq terms
# ---------------------------------------------------------------------------
def t_pairs(ps):
    return T.lst(["(%s, %s)" % (T.N(a), T.N(b)) for a, b in ps])


def t_cbor(x):
    if x is None:
        return "CNull"
    if isinstance(x, bool):
        return "(CBool %s)" % T.boolean(x)
    if isinstance(x, int):
        return "(CUInt %s)" % T.N(x)
    if isinstance(x, (bytes, bytearray)):
        return "(CBytes %s)" % T.bytes_(x)
    if isinstance(x, str):
        return "(CText %s)" % T.string(x)
    if isinstance(x, (list, tuple)):
        return "(CArray %s)" % T.lst([t_cbor(v) for v in x])
    if isinstance(x, dict):
        return "(CMap %s)" % T.lst(["(%s, %s)" % (t_cbor(k), t_cbor(v)) for k, v in x.items()])
    raise ValueError("not a CBOR-able value: %r" % (x,))


def t_wire(tw, rv):
    """server-side arguments {sh: ([(o,s,op,spec)], [(o,d)], newlen)}, [(o,s)] -> wire_request term"""
    ents = []
    for sh, (tests, writes, newlen) in tw.items():
        ts = T.lst(["(%s, %s, %s, %s)" % (T.N(o), T.N(s), T.bytes_(op), T.bytes_(sp)) for (o, s, op, sp) in tests])
        ws = T.lst(["(%s, %s)" % (T.N(o), T.bytes_(d)) for (o, d) in writes])
        ents.append("(%s, mk_wtwv %s %s %s)" % (T.N(sh), ts, ws, T.opt(T.N(newlen)) if newlen is not None else "None"))
    return "(mk_wire %s %s)" % (T.lst(ents), t_pairs(rv))


def t_api(tw, rv):
    """adapter-level arguments {sh: ([(o,s,spec)], [(o,d)], newlen)}, [(o,s)] -> rtw_request term"""
    ents = []
    for sh, (tests, writes, newlen) in tw.items():
        ts = T.lst(["(%s, %s, %s)" % (T.N(o), T.N(s), T.bytes_(sp)) for (o, s, sp) in tests])
        ws = T.lst(["(%s, %s)" % (T.N(o), T.bytes_(d)) for (o, d) in writes])
        ents.append("(%s, mk_twv %s %s %s)" % (T.N(sh), ts, ws, T.opt(T.N(newlen)) if newlen is not None else "None"))
    return "(mk_rtw %s %s)" % (T.lst(ents), t_pairs(rv))


def t_answer(success, reads):
    return "(%s, %s)" % (T.boolean(success), T.lst(["(%s, %s)" % (T.N(sh), T.lst([T.bytes_(b) for b in bs])) for sh, bs in reads.items()]))


# ---------------------------------------------------------------------------
# one twin history
# ---------------------------------------------------------------------------
class CapturingClient(object):
    """The real StorageClient, with the read-test-write message recorded on its way out."""

    def __init__(self, client, cap):
        self._real = client
        self._cap = cap

    def __getattr__(self, name):
        return getattr(self._real, name)

    def request(self, method, url, *a, **kw):
        if kw.get("message_to_serialize") is not None and "read-test-write" in url.to_text():
            self._cap.append(("msg", kw["message_to_serialize"]))
        return self._real.request(method, url, *a, **kw)


class Twin(object):
    def __init__(self, ctx, hidx):
        from twisted.internet.task import Clock
        from allmydata.storage.server import StorageServer
        from allmydata.storage.http_client import StorageClientImmutables, StorageClientMutables, StorageClientGeneral
        from allmydata.storage_client import _HTTPStorageServer
        self.ctx = ctx
        self.hidx = hidx
        self.r = ctx.rng("twin", hidx)
        base = os.path.join(env.subdir("c31"), "h%d-%d" % (hidx, os.getpid()))
        shutil.rmtree(base, ignore_errors=True)
        self.base = base
        self.clock = Clock()
        self.A = HttpStore(os.path.join(base, "A"), b"twin-swissnum", clock=self.clock)
        self.B = StorageServer(os.path.join(base, "B"), b"\x00" * 20, clock=self.clock)
        self.capture = []        # (kind, payload) from the wrapped client/server
        client = CapturingClient(self.A.client, self.capture)
        self.im = StorageClientImmutables(client)
        self.mu = StorageClientMutables(client)
        self.gen = StorageClientGeneral(client)
        self.ad = _HTTPStorageServer.from_http_client(client)
        self.use_adapter = self.r.random() < 0.35
        self.big = self.r.random() < 0.3
        self.sis = []
        self.imm_sis = []        # storage indexes used for immutable shares
        self.secrets = {}        # si -> upload secret (A)
        self.alloc = {}          # (si, sh) -> size
        self.base_data = {}      # (si, sh) -> bytes of the allocated size
        self.writersB = {}       # (si, sh) -> BucketWriter on B
        self.writersA = {}       # (si, sh) -> _HTTPBucketWriter remote ref (adapter path)
        self.cover = {}          # (si, sh) -> bytearray mask of the positions the direct client has written
        self.patch_log = {}      # (si, sh) -> [(offset, data)] PATCHes that reached the bucket on A
        self.complete = {}       # (si, sh) -> data
        self.slots = {}          # si -> write enabler
        self.slot_data = {}      # si -> set of share numbers ever written
        self.terms = []
        self.info = []
        self.step = 0
        self._wrap()

    # ---- capture the marshalled messages -------------------------------------
    def _wrap(self):
        cap = self.capture
        ss = self.A.ss
        orig_rtw = ss.slot_testv_and_readv_and_writev

        def rtw(storage_index, secrets, tw, rv, **kw):
            cap.append(("args", (dict(tw), list(rv))))
            res = orig_rtw(storage_index, secrets, tw, rv, **kw)
            cap.append(("result", res))
            return res
        ss.slot_testv_and_readv_and_writev = rtw
        hs = self.A.http_server
        orig_send = hs._send_encoded

        def send(request, data):
            if isinstance(data, dict) and "success" in data:
                cap.append(("answer", data))
            return orig_send(request, data)
        hs._send_encoded = send

    # ---- running both sides ---------------------------------------------------
    def http(self, thunk):
        try:
            return ("ok", self.A.run(thunk()))
        except Exception as e:      # noqa
            return ("err", http_error_class(e))

    def direct(self, thunk):
        try:
            return ("ok", thunk())
        except Exception as e:      # noqa
            return ("err", direct_error_class(e))

    def compare(self, kind, args, a, b, nontrivial=True, known=None):
        """a, b: canonical results of the HTTP and the direct path."""
        ctx = self.ctx
        ca, cb = canon(a), canon(b)
        case = {"history": self.hidx, "step": self.step, "op": kind, "args": args}
        ctx.case((kind, canon(args), cb) if (nontrivial and b[0] == "ok") else None, kind=kind)
        if self.hidx == 0 and isinstance(self.step, int) and self.step < 3:
            ctx.sample({"op": kind, "args": _short(args), "http": _short(a), "direct": _short(b)})
        if ca != cb:
            k = known or "http-direct-result-differs:" + kind
            ctx.oracle_fail(k, "%s%s: through HTTP %s, directly %s" % (kind, _short(args), _short(a), _short(b)),
                            case=case, expected=_short(b), observed=_short(a))
            return False
        return True

    # ---- data ------------------------------------------------------------------
    def new_si(self, mutable=False):
        si = rb(self.r, 16)
        self.sis.append(si)
        if not mutable:
            self.imm_sis.append(si)
        return si

    def pick_si(self, pool=None):
        """An immutable storage index (or one of `pool`), sometimes a fresh one."""
        r = self.r
        pool = pool if pool is not None else self.imm_sis
        if pool and r.random() < 0.9:
            return r.choice(sorted(pool))
        return self.new_si(mutable=pool is not self.imm_sis)

    # ---- immutable ops -----------------------------------------------------------
    def op_allocate(self, si=None, shares=None, size=None, kind="allocate"):
        r = self.r
        if si is None:
            si = self.pick_si() if r.random() < 0.35 else self.new_si()
        if shares is None:
            shares = set(r.sample(range(5), r.choice([1, 2, 3])))
        if size is not None:
            pass
        elif self.big and r.random() < 0.5:
            size = r.choice([65536, 65537, 70000, 131072, 140001])
        else:
            size = r.choice([1, 2, 10, 33, 64, 100, 150])
        rs, cs = rb(r, 32), rb(r, 32)
        if self.use_adapter:
            a = self.http(lambda: self.ad.allocate_buckets(si, rs, cs, shares, size, None))
            if a[0] == "ok":
                already, refs = a[1]
                for sh, ref in refs.items():
                    self.writersA[(si, sh)] = ref
                a = ("ok", (set(already), set(refs)))
        else:
            secret = self.secrets.setdefault(si, rb(r, 20))
            a = self.http(lambda: self.im.create(si, shares, size, secret, rs, cs))
            if a[0] == "ok":
                a = ("ok", (set(a[1].already_have), set(a[1].allocated)))
        b = self.direct(lambda: self.B.allocate_buckets(si, rs, cs, shares, size))
        if b[0] == "ok":
            already, writers = b[1]
            for sh, bw in writers.items():
                self.writersB[(si, sh)] = bw
                self.alloc[(si, sh)] = size
                self.base_data[(si, sh)] = rb(r, min(size, 300)) * (size // min(size, 300) + 1)
                self.base_data[(si, sh)] = self.base_data[(si, sh)][:size]
                self.patch_log[(si, sh)] = []
                self.cover[(si, sh)] = bytearray(size)
            b = ("ok", (set(already), set(writers)))
        self.compare(kind, {"si": si.hex(), "shares": sorted(shares), "size": size}, a, b)

    def op_write(self):
        r = self.r
        from allmydata.storage.immutable import ConflictingWriteError  # noqa
        keys = sorted(self.writersB)
        if keys and r.random() < 0.93:
            key = r.choice(keys)
        elif self.complete and r.random() < 0.5:
            key = r.choice(sorted(self.complete))
        else:
            key = (self.pick_si(), r.randrange(5))
        si, sh = key
        size = self.alloc.get(key, 20)
        data = self.base_data.get(key, b"\x01" * size)
        mode = r.random()
        if size > PIECE:
            cuts = [0, 1, PIECE - 1, PIECE, PIECE + 1, size - 1, size, size // 2]
            a_ = r.choice(cuts)
            b_ = r.choice([c for c in cuts if c >= a_] + [size])
        else:
            a_ = r.choice([0, 0, r.randrange(size + 1), max(0, size - 1)])
            b_ = min(size, a_ + r.choice([1, 1, 2, 5, 17, size]))
            if mode < 0.25:
                b_ = size
        chunk = data[a_:b_]
        kind = "write"
        if mode > 0.9 and len(chunk) > 0:          # conflicting data somewhere in the chunk
            pos = r.choice([0, len(chunk) - 1, len(chunk) // 2])
            chunk = chunk[:pos] + bytes([chunk[pos] ^ 0x55]) + chunk[pos + 1:]
            kind = "write-conflicting"
        elif mode > 0.87:                          # beyond the allocation
            chunk = chunk + b"\x07" * r.choice([1, 5])
            kind = "write-too-large"
        elif mode > 0.85:
            chunk = b""
            kind = "write-empty"
        self.do_write(key, a_, chunk, kind)

    def do_write(self, key, a_, chunk, kind):
        si, sh = key
        size = self.alloc.get(key, 20)
        data = self.base_data.get(key, b"\x01" * size)
        args = {"si": si.hex(), "sh": sh, "offset": a_, "len": len(chunk)}
        in_progress = key in self.writersB
        multi_piece = len(chunk) > PIECE

        # ---- A
        if self.use_adapter:
            if key in self.writersA:
                a = self.http(lambda: self.writersA[key].callRemote("write", a_, chunk))
                if a[0] == "ok":
                    fin = self.writersA[key].local_object.finished.called
                    a = ("ok", (fin, None))
            else:
                a = ("err", "not-found")
        else:
            secret = self.secrets.get(si, b"s" * 20)
            a = self.http(lambda: self.im.write_share_chunk(si, sh, secret, a_, chunk))
            if a[0] == "ok":
                a = ("ok", (a[1].finished, [(x.start, x.stop) for x in a[1].required.ranges()]))
        # ---- B
        if in_progress:
            bw = self.writersB[key]

            cover = self.cover[key]
            flag = []

            def w():
                # the direct client ignores write()'s return value: it closes the bucket itself once IT has
                # written everything (the harness' own coverage bookkeeping decides, not the server)
                flag.append(bw.write(a_, chunk))
                cover[a_:a_ + len(chunk)] = b"\x01" * len(chunk)
                done = all(cover)
                req = [(x.start, x.stop) for x in bw.required_ranges().ranges()]
                if done:
                    bw.close()
                return (done, req)
            b = self.direct(w)
            if b[0] == "ok":
                # oracle, independent of both servers: completion exactly when the union of the accepted
                # chunks covers [0, size); `required` is the complement of that union
                done = b[1][0]
                want_req = uncovered_runs(cover)
                case = {"history": self.hidx, "step": self.step, "op": kind, "args": args,
                        "written_before": [(o, len(d)) for o, d in self.patch_log.get(key, [])][-12:]}
                if flag and bool(flag[0]) != done:
                    self.ctx.oracle_fail("bucketwriter-completion-flag-not-coverage",
                                         "BucketWriter.write(%d, <%d bytes>) returned finished=%s but the chunks written so far %s [0,%d)"
                                         % (a_, len(chunk), bool(flag[0]), "cover" if done else "do not cover", size),
                                         case=case, expected=done, observed=bool(flag[0]))
                if a[0] == "ok" and bool(a[1][0]) != done:
                    self.ctx.oracle_fail("http-completion-not-exactly-coverage",
                                         "PATCH %d..%d of a %d-byte share answered %s but the chunks written so far %s [0,%d): uncovered %s"
                                         % (a_, a_ + len(chunk), size, "201 (finished, bucket closed)" if a[1][0] else "200 (unfinished)",
                                            "cover" if done else "do not cover", size, _short(want_req)),
                                         case=case, expected="finished" if done else "unfinished",
                                         observed="finished" if a[1][0] else "unfinished")
                if a[0] == "ok" and a[1][1] is not None and a[1][1] != want_req:
                    self.ctx.oracle_fail("http-required-ranges-not-complement-of-written",
                                         "PATCH answered required=%s, the unwritten ranges are %s" % (_short(a[1][1]), _short(want_req)),
                                         case=case, expected=_short(want_req), observed=_short(a[1][1]))
        else:
            b = ("err", "not-found")
        if in_progress and not self.use_adapter:
            code = {"ok": None, "err": None}
            if a[0] == "ok":
                code = 201 if a[1][0] else 200
                req = a[1][1]
            else:
                code = {"conflict": 409, "server-error": 500, "bad-range": 416, "not-found": 404}.get(a[1])
                req = []
            log = self.patch_log[key]
            if code is not None and size <= 200 and len(chunk) <= 220 and len(log) <= 10:
                self.terms.append("patch_answer_eqb (patch (patch_history (bw_new %s) %s %s) %s %s %s) %s %s" % (
                    T.N(size), T.N(PIECE), T.lst(["(%s, %s)" % (T.N(o), T.bytes_(d)) for o, d in log]),
                    T.N(PIECE), T.N(a_), T.bytes_(chunk), T.N(code), t_pairs(req)))
                self.info.append({"history": self.hidx, "step": self.step, "op": "patch", "args": args, "status": code,
                                  "log": [(o, d.hex()) for o, d in log]})
            if len(chunk) == 0 and size <= 200 and len(log) <= 10:
                # the client cannot send an empty range; a hand-made one is answered by the server
                import base64
                from allmydata.storage.common import si_b2a
                path = "/storage/v1/immutable/%s/%d" % (si_b2a(si).decode("ascii"), sh)
                rcode, _, _ = self.A.raw("PATCH", path, [
                    ("Authorization", b"Tahoe-LAFS " + base64.b64encode(self.A.swissnum)),
                    ("X-Tahoe-Authorization", b"upload-secret " + base64.b64encode(secret)),
                    ("Content-Range", b"bytes %d-%d/*" % (a_, a_ - 1))], b"")
                self.terms.append("patch_answer_eqb (patch (patch_history (bw_new %s) %s %s) %s %s []) %s []" % (
                    T.N(size), T.N(PIECE), T.lst(["(%s, %s)" % (T.N(o), T.bytes_(d)) for o, d in log]), T.N(PIECE), T.N(a_), T.N(rcode)))
                self.info.append({"history": self.hidx, "step": self.step, "op": "patch-empty-range", "args": args, "status": rcode})
            else:
                self.patch_log[key].append((a_, chunk))
        if self.use_adapter and b[0] == "ok":
            b = ("ok", (b[1][0], None))
        known = None
        if len(chunk) == 0 and a == ("err", "client-AssertionError") and a != b:
            known = KNOWN_KINDS["zero-write"]
        agree = self.compare(kind, args, a, b, known=known)
        if known == KNOWN_KINDS["zero-write"] and in_progress and b[0] == "ok":
            # knock-on of that finding: the empty write reached only the direct server and refreshed its
            # bucket's 30-minute upload timeout.  Re-align B's deadline with A's, otherwise a later
            # clock advance times the upload out on one server only.
            wa, wb = self.find_writer(self.A.ss, key), self.writersB.get(key)
            if wa is not None and wb is not None and wa._timeout.active() and wb._timeout.active():
                wb._timeout.reset(max(0, wa._timeout.getTime() - self.clock.seconds()))
                self.ctx.count("timeout-realigned-after-empty-write")
        if b[0] == "ok" and b[1][0]:
            # what the share really holds (an accepted "conflicting" chunk on unwritten ground is part of it)
            self.complete[key] = self.B.get_buckets(si)[sh].read(0, size)
            self.writersB.pop(key, None)
            self.writersA.pop(key, None)
        # a refused body of more than one piece: the earlier pieces stay written on the HTTP side only
        if in_progress and multi_piece and b[0] == "err":
            sa = self.writer_state(self.A.ss, key)
            sb = self.writer_state(self.B, key)
            self.ctx.case(None, kind="multi-piece-refused")
            if sa != sb:
                self.ctx.oracle_fail(KNOWN_KINDS["multi-piece"],
                                     "a %d-byte PATCH at %d refused with %s left %s written through HTTP but %s directly"
                                     % (len(chunk), a_, a, sa[0], sb[0]),
                                     case={"history": self.hidx, "step": self.step, "op": kind, "args": args},
                                     expected=_short(sb[0]), observed=_short(sa[0]))
                # re-synchronise: drop the upload on both sides
                self.abort_both(key)

    def op_upload_pattern(self):
        """A fresh share uploaded completely in a chosen chunk ORDER: tail first, middle-to-end before
        the head, reverse, interleaved, shuffled -- completion must come exactly with the last gap."""
        r = self.r
        self.op_allocate_fresh()
        keys = [k for k in sorted(self.writersB) if not self.patch_log.get(k) and not any(self.cover[k])]
        if not keys:
            return
        key = r.choice(keys)
        size = self.alloc[key]
        data = self.base_data[key]
        if size < 2:
            return
        ncuts = min(size - 1, r.choice([1, 2, 3, 4]))
        cuts = sorted(r.sample(range(1, size), ncuts))
        bounds = [0] + cuts + [size]
        chunks = [(bounds[i], bounds[i + 1]) for i in range(len(bounds) - 1)]
        order = r.choice(["tail-first", "middle-to-end-then-head", "reverse", "head-last-shuffled", "shuffled", "in-order"])
        if order == "tail-first":
            chunks = [chunks[-1]] + chunks[:-1]
        elif order == "middle-to-end-then-head":
            mid = max(1, len(chunks) // 2)
            chunks = chunks[mid:] + chunks[:mid]
        elif order == "reverse":
            chunks = chunks[::-1]
        elif order == "head-last-shuffled":
            rest = chunks[1:]
            r.shuffle(rest)
            chunks = rest + chunks[:1]
        elif order == "shuffled":
            r.shuffle(chunks)
        self.ctx.count("upload-order:" + order)
        for (x, y) in chunks:
            if key not in self.writersB:
                break
            self.do_write(key, x, data[x:y], "write-" + order)

    def op_allocate_fresh(self):
        """allocate on a new storage index (both servers), small or just over one piece"""
        saved = self.pick_si
        self.pick_si = lambda pool=None: self.new_si()
        try:
            self.op_allocate()
        finally:
            self.pick_si = saved

    def op_multi_piece(self):
        """A body of more than one 64 KiB piece whose LAST piece is refused (conflict with
        already written data, or beyond the allocation)."""
        r = self.r
        keys = [k for k in sorted(self.writersB) if self.alloc[k] > PIECE]
        if not keys:
            return
        key = r.choice(keys)
        size = self.alloc[key]
        data = self.base_data[key]
        if r.random() < 0.6:
            self.do_write(key, size - 1, data[size - 1:], "write")          # the tail first
            if key not in self.writersB:
                return
            bad = data[:size - 1] + bytes([data[size - 1] ^ 0x55])
            self.do_write(key, 0, bad, "write-conflicting")
        else:
            self.do_write(key, 1, data[1:] + b"\x07" * 3, "write-too-large")

    def find_writer(self, ss, key):
        from allmydata.storage.common import si_b2a
        tail = "/%s/%d" % (si_b2a(key[0]).decode("ascii"), key[1])
        for home, bw in ss._bucket_writers.items():
            if home.endswith(tail):
                return bw
        return None

    def writer_state(self, ss, key):
        from allmydata.storage.common import si_b2a
        tail = "/%s/%d" % (si_b2a(key[0]).decode("ascii"), key[1])
        for home, bw in ss._bucket_writers.items():
            if home.endswith(tail):
                try:
                    with open(home, "rb") as f:
                        raw = f.read()
                except OSError:
                    raw = None
                return ([(a, b) for a, b, _ in bw._already_written.ranges()], raw)
        return (None, None)

    def abort_both(self, key):
        si, sh = key
        if self.use_adapter and key in self.writersA:
            self.http(lambda: self.writersA[key].callRemote("abort"))
        else:
            self.http(lambda: self.im.abort_upload(si, sh, self.secrets.get(si, b"s" * 20)))
        bw = self.writersB.pop(key, None)
        if bw is not None:
            bw.abort()
        self.writersA.pop(key, None)

    def op_abort(self):
        r = self.r
        keys = sorted(self.writersB)
        if keys and r.random() < 0.8:
            key = r.choice(keys)
        elif self.complete and r.random() < 0.6:
            key = r.choice(sorted(self.complete))
        else:
            key = (self.pick_si(), r.randrange(5))
        si, sh = key
        if self.use_adapter:
            if key in self.writersA:
                a = self.http(lambda: self.writersA[key].callRemote("abort"))
            else:
                a = ("err", "not-allowed" if key in self.complete else "not-found")
        else:
            a = self.http(lambda: self.im.abort_upload(si, sh, self.secrets.get(si, b"s" * 20)))
        if key in self.writersB:
            bw = self.writersB.pop(key)
            b = self.direct(lambda: bw.abort())
        elif key in self.complete:
            b = ("err", "not-allowed")       # nothing to abort: the share is already there
        else:
            b = ("err", "not-found")
        self.writersA.pop(key, None)
        self.compare("abort", {"si": si.hex(), "sh": sh}, a, b)

    def read_args(self, length_of):
        r = self.r
        n = length_of
        offset = r.choice([0, 0, 1, max(0, n - 1), n, n + 1, n + 100, r.randrange(n + 2), PIECE - 1, PIECE, PIECE + 1])
        if offset > n + 200:
            offset = r.randrange(n + 2)
        length = r.choice([1, 1, 2, 10, n, n + 1, max(1, n - offset), max(1, n - offset + 1), 1000, PIECE, PIECE + 1, 2 * PIECE + 5, 0])
        return offset, length

    def op_read(self):
        r = self.r
        if self.complete and r.random() < 0.9:
            key = r.choice(sorted(self.complete))
        else:
            key = (self.pick_si(), r.randrange(5))
        si, sh = key
        data = self.complete.get(key, b"")
        offset, length = self.read_args(len(data))
        args = {"si": si.hex(), "sh": sh, "offset": offset, "length": length, "share_length": len(data)}
        if self.use_adapter and r.random() < 0.5:
            def via_adapter():
                d = self.ad.get_buckets(si)
                d.addCallback(lambda bs: bs[sh].callRemote("read", offset, length))
                return d
            a = self.http(via_adapter)
            if a == ("err", "client-KeyError"):
                a = ("err", "not-found")
        else:
            a = self.http(lambda: self.im.read_share_chunk(si, sh, offset, length))
        b = self.direct(lambda: self.B.get_buckets(si)[sh].read(offset, length))
        known = None
        if length == 0 and a == ("err", "client-ValueError") and a != b:
            known = KNOWN_KINDS["zero-read"]
        self.compare("read" if length else "read-zero-length", args, a, b, known=known)
        if key in self.complete and len(data) <= 200:
            res = "(RData %s)" % T.bytes_(a[1]) if a[0] == "ok" else ("RClientValueError" if a[1] == "client-ValueError" else "RServerError")
            self.terms.append("read_result_eqb (http_read %s %s %s %s) %s" % (T.bytes_(data), T.N(PIECE), T.N(offset), T.N(length), res))
            self.info.append({"history": self.hidx, "step": self.step, "op": "http_read", "args": args, "result": _short(a)})
            if b[0] == "ok":
                self.terms.append("list_N_eqb (direct_read %s %s %s) %s" % (T.bytes_(data), T.N(offset), T.N(length), T.bytes_(b[1])))
                self.info.append({"history": self.hidx, "step": self.step, "op": "direct_read", "args": args, "result": _short(b)})

    def op_list(self):
        si = self.pick_si()
        if self.use_adapter:
            a = self.http(lambda: self.ad.get_buckets(si))
            if a[0] == "ok":
                a = ("ok", set(a[1].keys()))
        else:
            a = self.http(lambda: self.im.list_shares(si))
        b = self.direct(lambda: set(self.B.get_buckets(si).keys()))
        self.compare("list", {"si": si.hex()}, a, b)

    def op_lease(self):
        r = self.r
        si = self.pick_si(self.sis)
        rs, cs = rb(r, 32), rb(r, 32)
        a = self.http(lambda: self.ad.add_lease(si, rs, cs))
        b = self.direct(lambda: self.B.add_lease(si, rs, cs))
        self.compare("add-lease", {"si": si.hex()}, a, b)

    def op_advance(self):
        self.clock.advance(self.r.choice([1, 60, 600, 3600, 86400]))
        # BucketWriters time out after 30 minutes without a write, on both servers alike
        for key in list(self.writersB):
            if self.writersB[key].closed:
                del self.writersB[key]
                self.writersA.pop(key, None)
                self.ctx.count("upload-timed-out")

    def op_corrupt(self):
        r = self.r
        if r.random() < 0.5 and self.complete:
            si, sh = r.choice(sorted(self.complete))
            kind = b"immutable"
        elif self.slots:
            si = r.choice(sorted(self.slots))
            sh = r.choice(sorted(self.slot_data.get(si) or {0}))
            kind = b"mutable"
        else:
            return
        if r.random() < 0.2:
            sh = 9
        reason = r.choice([b"bad hash", b"caf\xc3\xa9", b"block 3 of segment 7"])
        a = self.http(lambda: self.ad.advise_corrupt_share(kind, si, sh, reason))
        b = self.direct(lambda: self.B.advise_corrupt_share(kind, si, sh, reason))
        self.compare("advise-corrupt", {"si": si.hex(), "sh": sh, "type": kind.decode()}, a, b)

    # ---- mutable ops ---------------------------------------------------------------
    def op_rtw(self):
        r = self.r
        if self.slots and r.random() < 0.8:
            si = r.choice(sorted(self.slots))
        else:
            si = self.new_si(mutable=True)
            self.slots[si] = rb(r, 32)
            self.slot_data[si] = set()
        we = self.slots[si]
        kind = "rtw"
        if r.random() < 0.08:
            we = rb(r, 32)
            kind = "rtw-bad-enabler"
        secrets = (we, rb(r, 32), rb(r, 32))
        current = self.B.slot_readv(si, [], [(0, 1 << 20)])
        tw = {}
        for sh in r.sample(range(4), r.choice([1, 1, 2, 3])):
            cur = current.get(sh, [b""])[0]
            tests = []
            for _ in range(r.choice([0, 0, 1, 2])):
                o = r.randrange(len(cur) + 3)
                n = r.choice([0, 1, 4, len(cur) + 2])
                spec = cur[o:o + n] if r.random() < 0.8 else rb(r, n or 1)
                tests.append((o, n, spec))
            writes = []
            for _ in range(r.choice([0, 1, 1, 2])):
                big = self.big and r.random() < 0.2
                n = r.choice([PIECE, PIECE + 3]) if big else r.choice([0, 1, 5, 30, 120])
                writes.append((r.choice([0, 0, len(cur), len(cur) + 7, r.randrange(len(cur) + 1)]), rb(r, min(n, 64)) * (n // 64 + 1) if n else b""))
            newlen = r.choice([None, None, None, 0, 3, len(cur), len(cur) + 10])
            tw[sh] = (tests, writes, newlen)
        rv = [(r.randrange(40), r.choice([0, 1, 10, 1000])) for _ in range(r.choice([0, 1, 2]))]
        self.do_rtw(si, secrets, tw, rv, kind)

    def do_rtw(self, si, secrets, tw, rv, kind):
        """One read-test-write through the adapter on A and directly on B; compared, marshalling checked."""
        wire_tw = {sh: ([(o, n, b"eq", s) for (o, n, s) in t], w, nl) for sh, (t, w, nl) in tw.items()}
        del self.capture[:]
        a = self.http(lambda: self.ad.slot_testv_and_readv_and_writev(si, secrets, tw, rv))
        cap = list(self.capture)
        b = self.direct(lambda: self.B.slot_testv_and_readv_and_writev(si, secrets, wire_tw, rv))
        args = {"si": si.hex(), "tw": _short(tw), "rv": rv}
        if a[0] == "ok":
            a = ("ok", (a[1][0], {k: list(v) for k, v in a[1][1].items()}))
        if b[0] == "ok":
            b = ("ok", (b[1][0], {k: list(v) for k, v in b[1][1].items()}))
            if b[1][0]:
                for sh, (t, w, nl) in tw.items():
                    self.slot_data[si].add(sh)
        self.compare(kind, args, a, b)
        # marshalling against the model (small requests only)
        small = sum(len(d) for (_, w, _) in tw.values() for (_, d) in w) + sum(len(sp) for (t, _, _) in tw.values() for (_, _, sp) in t) <= 500
        msgs = [p for k, p in cap if k == "msg"]
        sargs = [p for k, p in cap if k == "args"]
        if small and msgs and sargs and (kind in ("rtw", "rtw-bad-enabler") or self.hidx < 3):
            info = {"history": self.hidx, "step": self.step, "op": "rtw-marshalling", "args": args}
            self.terms.append("decoded_is %s %s" % (t_cbor(msgs[0]), t_wire(*sargs[0])))
            self.info.append(dict(info, what="decode(captured message) = arguments the storage server received"))
            self.terms.append("decoded_is (encode_rtw %s) %s" % (t_api(tw, rv), t_wire(*sargs[0])))
            self.info.append(dict(info, what="decode(encode(request)) = arguments the storage server received"))
            self.terms.append("wire_eqb (wire_form %s) %s" % (t_api(tw, rv), t_wire(wire_tw, rv)))
            self.info.append(dict(info, what="wire_form(request) = what the direct path is called with"))
            answers = [p for k, p in cap if k == "answer"]
            if answers and a[0] == "ok" and sum(len(x) for v in a[1][1].values() for x in v) <= 600:
                self.terms.append("answer_decoded_is %s %s" % (t_cbor(answers[0]), t_answer(a[1][0], a[1][1])))
                self.info.append(dict(info, what="decode(captured answer) = what the client returned"))
                res = [p for k, p in cap if k == "result"]
                if res:
                    self.terms.append("answer_decoded_is (encode_answer %s) %s" % (t_answer(res[0][0], res[0][1]), t_answer(a[1][0], a[1][1])))
                    self.info.append(dict(info, what="decode(encode(server result)) = what the client returned"))

    # ---- deterministic scenarios (run in every history) ---------------------------------
    def new_slot(self):
        si = self.new_si(mutable=True)
        self.slots[si] = rb(self.r, 32)
        self.slot_data[si] = set()
        return si

    def scenario_test_vector_sizes(self):
        """Test vectors whose `size` differs from len(specimen): the server must read `size` bytes and
        compare them with the specimen (shorter and longer specimen, share longer and shorter than size)."""
        r = self.r
        si = self.new_slot()
        sec = lambda: (self.slots[si], rb(r, 32), rb(r, 32))      # noqa
        d0, d1 = rb(r, 8), rb(r, 8)
        self.do_rtw(si, sec(), {0: ([], [(0, d0)], None), 1: ([], [(0, d1)], None)}, [], "rtw-create")
        steps = [
            # (label, share, test vector, write) -- the write only happens when the test passes
            ("size1-empty-specimen", 0, (0, 1, b""), (0, b"second creator wins")),          # "share must not exist yet"
            ("size1-empty-specimen-new-share", 2, (0, 1, b""), (0, rb(r, 6))),             # ... and it does not
            ("size-shorter-than-specimen", 1, (0, 2, d1[0:4]), (0, b"W1")),
            ("size-longer-than-specimen", 1, (0, 4, d1[0:2]), (2, b"W2")),
            ("size0-nonempty-specimen", 1, (0, 0, d1[0:1]), (4, b"W3")),
            ("size-past-end-specimen-is-tail", 1, (6, 4, d1[6:8]), (6, b"W4")),            # share shorter than size: passes on both
            ("size-past-end-longer-specimen", 1, (6, 2, b"W4" + b"\x00\x00"), (0, b"W5")),
            ("size-equals-specimen", 1, (0, 2, None), (0, b"W6")),                          # ordinary checkstring (control)
        ]
        for label, sh, (o, n, spec), write in steps:
            if spec is None:
                cur = self.B.slot_readv(si, [sh], [(o, n)]).get(sh, [b""])[0]
                spec = cur
            self.do_rtw(si, sec(), {sh: ([(o, n, spec)], [write], None)}, [(0, 40)], "rtw-testv-" + label)
        self.op_slot_readv_of(si, [], [(0, 64)])

    def scenario_allocate_already_have(self):
        """Allocation requests whose share numbers do not cover the shares the server already holds
        (complete and in progress): `already-have` / alreadygot must be the same on both paths."""
        r = self.r
        si = self.new_si()
        size = r.choice([10, 33])
        self.op_allocate(si=si, shares={0, 1, 4}, size=size, kind="allocate-first")
        for sh in (0, 1):
            key = (si, sh)
            if key in self.writersB:
                self.do_write(key, 0, self.base_data[key], "write")             # shares 0 and 1 complete, 4 stays in progress
        for shares in ({2}, {1, 3}, {4}, {0, 1}, {5, 6}):
            self.op_allocate(si=si, shares=set(shares), size=size, kind="allocate-partial-overlap")
        self.op_list()

    def scenario_shrink_then_read(self):
        """A mutable share shrunk with new_length, then range reads that cross / start past the NEW end
        (and again after growing back below the old size)."""
        r = self.r
        si = self.new_slot()
        sec = lambda: (self.slots[si], rb(r, 32), rb(r, 32))      # noqa
        big = r.choice([300, 300, 1000])
        new = r.choice([100, 100, 37])
        self.do_rtw(si, sec(), {0: ([], [(0, rb(r, big))], None), 1: ([], [(0, rb(r, big))], None)}, [], "rtw-create")
        self.do_rtw(si, sec(), {0: ([], [], new)}, [(0, 10)], "rtw-shrink")
        reads = [(0, 1000), (new - 40 if new > 40 else 0, 100), (new + 50, 50), (new, 1), (new - 1, 2), (0, new), (big - 1, 5)]
        for (o, n) in reads:
            self.op_slot_readv_of(si, [0], [(o, n)], kind="slot-readv-after-shrink")
            self.op_mread_of(si, 0, o, n, kind="mutable-read-after-shrink")
        self.op_slot_readv_of(si, [], [(0, 2000), (new - 5, 10)], kind="slot-readv-after-shrink")
        self.do_rtw(si, sec(), {0: ([], [(new, rb(r, 10))], None)}, [(0, 2000)], "rtw-regrow")
        for (o, n) in [(0, 1000), (new, 50), (new + 5, 500), (big - 10, 20)]:
            self.op_slot_readv_of(si, [0], [(o, n)], kind="slot-readv-after-regrow")
            self.op_mread_of(si, 0, o, n, kind="mutable-read-after-regrow")

    def op_slot_readv_of(self, si, shares, rv, kind="slot-readv"):
        a = self.http(lambda: self.ad.slot_readv(si, shares, rv))
        b = self.direct(lambda: self.B.slot_readv(si, shares, rv))
        if a[0] == "ok":
            a = ("ok", {k: list(v) for k, v in a[1].items()})
        if b[0] == "ok":
            b = ("ok", {k: list(v) for k, v in b[1].items()})
        self.compare(kind, {"si": si.hex(), "shares": shares, "readv": rv}, a, b)

    def op_mread_of(self, si, sh, offset, length, kind="mutable-read"):
        a = self.http(lambda: self.mu.read_share_chunk(si, sh, offset, length))
        b = self.direct(lambda: self.B.slot_readv(si, [sh], [(offset, length)])[sh][0])
        self.compare(kind, {"si": si.hex(), "sh": sh, "offset": offset, "length": length}, a, b)

    def op_slot_readv(self):
        r = self.r
        si = self.pick_si(list(self.slots))
        have = sorted(self.B.enumerate_mutable_shares(si))
        mode = r.random()
        if mode < 0.45:
            shares = []
        elif mode < 0.9 and have:
            shares = r.sample(have, r.randrange(1, len(have) + 1))
        else:
            shares = sorted(set(r.sample(range(5), 2)))
        lens = self.B.slot_readv(si, [], [(0, 1 << 20)])
        n = max([len(v[0]) for v in lens.values()] + [0])
        rv = []
        for _ in range(r.choice([1, 1, 2, 3])):
            o, l = self.read_args(n)
            if l == 0 and r.random() < 0.7:
                l = 3
            rv.append((o, l))
        a = self.http(lambda: self.ad.slot_readv(si, shares, rv))
        b = self.direct(lambda: self.B.slot_readv(si, shares, rv))
        if a[0] == "ok":
            a = ("ok", {k: list(v) for k, v in a[1].items()})
        if b[0] == "ok":
            b = ("ok", {k: list(v) for k, v in b[1].items()})
        known = None
        kind = "slot-readv"
        missing = [s for s in shares if s not in have]
        zero = any(l == 0 for _, l in rv)
        if a != b:
            if zero and a == ("err", "client-ValueError"):
                known = KNOWN_KINDS["zero-read"]
                kind = "slot-readv-zero-length"
            elif missing and a == ("err", "not-found") and b[0] == "ok":
                known = KNOWN_KINDS["readv-missing"]
                kind = "slot-readv-missing-share"
        self.compare(kind, {"si": si.hex(), "shares": shares, "readv": rv}, a, b, known=known)

    def op_mread(self):
        r = self.r
        si = self.pick_si(list(self.slots))
        have = sorted(self.B.enumerate_mutable_shares(si))
        sh = r.choice(have) if have and r.random() < 0.9 else r.randrange(6)
        cur = self.B.slot_readv(si, [sh], [(0, 1 << 20)]).get(sh, [b""])[0]
        offset, length = self.read_args(len(cur))
        a = self.http(lambda: self.mu.read_share_chunk(si, sh, offset, length))

        def d():
            return self.B.slot_readv(si, [sh], [(offset, length)])[sh][0]
        b = self.direct(d)
        known = KNOWN_KINDS["zero-read"] if (length == 0 and a == ("err", "client-ValueError") and a != b) else None
        args = {"si": si.hex(), "sh": sh, "offset": offset, "length": length, "share_length": len(cur)}
        self.compare("mutable-read" if length else "mutable-read-zero-length", args, a, b, known=known)
        if sh in have and len(cur) <= 200:
            res = "(RData %s)" % T.bytes_(a[1]) if a[0] == "ok" else ("RClientValueError" if a[1] == "client-ValueError" else "RServerError")
            self.terms.append("read_result_eqb (http_read %s %s %s %s) %s" % (T.bytes_(cur), T.N(PIECE), T.N(offset), T.N(length), res))
            self.info.append({"history": self.hidx, "step": self.step, "op": "http_read(mutable)", "args": args, "result": _short(a)})

    def op_mlist(self):
        si = self.pick_si(list(self.slots))
        a = self.http(lambda: self.mu.list_shares(si))
        b = self.direct(lambda: self.B.enumerate_mutable_shares(si))
        self.compare("mutable-list", {"si": si.hex()}, a, b)

    def op_version(self):
        a = self.http(lambda: self.gen.get_version())
        b = self.direct(lambda: self.B.get_version())
        v1 = b"http://allmydata.org/tahoe/protocols/storage/v1"
        keys = [b"maximum-mutable-share-size"]      # the others follow the free disk space at the moment of the call
        if a[0] == "ok":
            a = ("ok", ({k: a[1][v1][k] for k in keys}, a[1][b"application-version"]))
        if b[0] == "ok":
            b = ("ok", ({k: b[1][v1][k] for k in keys}, b[1][b"application-version"]))
        self.compare("version", {}, a, b)

    # ---- final states ------------------------------------------------------------------
    def compare_states(self, when):
        sa = api_state(self.A.ss, self.sis)
        sb = api_state(self.B, self.sis)
        # advisory counts are compared by the operation results; raw incoming files by the writers entry
        self.ctx.case(("state", self.hidx, when), kind="state-comparison")
        if sa != sb:
            diff = None
            for k in sorted(set(sa) | set(sb), key=repr):
                if sa.get(k) != sb.get(k):
                    diff = "state[%s]: HTTP server %s, direct server %s" % (k.hex() if isinstance(k, bytes) else k, _short(sa.get(k)), _short(sb.get(k)))
                    break
            self.ctx.oracle_fail("http-direct-state-differs", "after the same history (%s) the two servers differ: %s" % (when, diff),
                                 case={"history": self.hidx, "step": self.step, "op": "compare-states"}, expected="equal states", observed=diff)
            return False
        return True

    def run(self, nsteps):
        ops = [(self.op_allocate, 10), (self.op_write, 30), (self.op_abort, 4), (self.op_read, 14), (self.op_list, 3),
               (self.op_lease, 4), (self.op_advance, 2), (self.op_rtw, 14), (self.op_slot_readv, 7), (self.op_mread, 8),
               (self.op_mlist, 2), (self.op_version, 1), (self.op_corrupt, 2),
               (self.op_multi_piece, 6 if self.big else 0), (self.op_upload_pattern, 7)]
        bag = [f for f, w in ops for _ in range(w)]
        self.op_allocate()
        self.step = "scenario-test-vector-sizes"
        self.scenario_test_vector_sizes()
        self.step = "scenario-allocate-already-have"
        self.scenario_allocate_already_have()
        self.step = "scenario-shrink-then-read"
        self.scenario_shrink_then_read()
        if not self.compare_states("after the scenarios"):
            nsteps = 0
        for step in range(nsteps):
            self.step = step
            self.r.choice(bag)()
            if step % 16 == 15:
                if not self.compare_states("step %d" % step):
                    break
        self.step = nsteps
        self.compare_states("end")
        shutil.rmtree(self.base, ignore_errors=True)


def run(ctx):
    ctx.correspondence("http-range-upload-rtw-model-vs-impl")
    nh = ctx.n(16, 200)
    steps = ctx.n(60, 120)
    terms, info = [], []
    for h in range(nh):
        t = Twin(ctx, h)
        try:
            t.run(steps)
        finally:
            shutil.rmtree(t.base, ignore_errors=True)
        terms += t.terms
        info += t.info
    bad = ctx.coq_check(IMPORTS, terms, tag="c31")
    for ix in bad:
        ctx.mismatch("http-range-model-vs-impl:" + info[ix]["op"], "Model.HttpRange and the implementation differ on %s: %s" % (info[ix]["op"], _short(info[ix])),
                     case=info[ix], correspondence="http-range-upload-rtw-model-vs-impl")
    ctx.trace(len(terms) - len(bad))


def replay(ctx, rec):
    case = rec.get("case") or {}
    if "history" not in case:
        return "no history recorded"
    t = Twin(ctx, case["history"])
    step = case.get("step", 0)
    step = step if isinstance(step, int) else 0       # "scenario-...": the fixed scenarios at the start of every history
    t.run(min(step + 1, 100000))
    known = sorted(set(f["kind"] for f in ctx.failures if f["kind"] in KNOWN_KINDS.values()))
    ctx.failures[:] = [f for f in ctx.failures if f["kind"] not in KNOWN_KINDS.values()]   # recorded findings are not re-reported
    return {"history": case["history"], "steps_run": step + 1, "known_findings_seen": known, "failures": [(f["kind"], f["what"][:200]) for f in ctx.failures]}
