"""C22  Immutable share storage semantics.

Implementation under test: the real StorageServer / FoolscapStorageServer / BucketWriter /
BucketReader / ShareFile of /repo on a scratch directory with a twisted Clock.
Model: coq/Model/ImmStore.v evaluated by vm_compute on the same histories.
Oracle: `Ref` below, a position-map reference written from the property text (it knows nothing
about range maps or files)."""
import glob
import hashlib
import json
import os

from core import env
from core import term as T

ID = "C22"
GEN = []
RULE = ("cases: one case = one seeded history (12..45 operations, then a read-back of every share and listing) of "
        "allocate/write/close/abort/advance-clock/disconnect/read/list/required-ranges (and mutable delete-vector requests on the same storage indexes) on 1..3 storage indexes x share "
        "numbers 0..4, share sizes 0..200, write ranges fresh/island/adjacent/overlapping-equal/overlapping-different/past-the-end/"
        "spanning 2-3 written pieces (all equal, or different only in the last or only in the first piece overlapped), "
        "clock steps placed on the 30 min deadlines; plus RangeMap set/delete/query sequences (shim vs interval model); "
        "distinct = distinct operation lists; non-trivial = a history in which at least one share was closed after "
        "overlapping or out-of-order writes and read back")
META = {
    "title": "Immutable share storage semantics",
    "level_text": ("Theorems in Coq over a hand-written executable model of BucketWriter/ShareFile/allocate_buckets/get_buckets "
                   "(all operation histories, by induction): visibility iff closed, reads equal the accepted writes clipped at the "
                   "allocated size (zero elsewhere), a write differing from earlier accepted data is rejected with data and ranges "
                   "unchanged (and conversely a fitting write that agrees with all earlier data is accepted), abort/timeout/"
                   "disconnect leave no share and release the reservation.  The model is run against the "
                   "real StorageServer on seeded histories, and an independent position-map oracle judges the implementation."),
    "level_note": ("The model is hand-written (no translator): its faithfulness rests on the per-operation comparison of every "
                   "answer and of allocated_size() on each history.  Lease records, container header, crash behaviour and the wire "
                   "layer below FoolscapStorageServer are outside the model; zero-length writes are excluded (the sandbox RangeMap "
                   "stand-in and the real library differ there)."),
    "technique": "Coq proof (induction over operation histories of an executable model) + differential run vs implementation + reference oracle",
    "design_ref": "8/C22",
    "trusted_base": ["hand-written model coq/Model/ImmStore.v tied to the code by correspondence only",
                     "shims/collections_extended.RangeMap (pinned against the interval model on every run)",
                     "twisted.internet.task.Clock as the time source"],
    "assumptions": ["offsets and lengths are non-negative (wire schema)", "no crash, no concurrent deletion by the lease expirer during a history"],
}

IMPORTS = ["Lib.Hex", "Model.ImmStore"]
SIZES = [0, 1, 2, 3, 5, 8, 10, 16, 16, 33, 33, 50, 50, 64, 100, 100, 199, 200]


def si_bytes(n):
    """Storage index number -> 16 bytes.  0 and 1 share the two-character prefix directory."""
    if n == 0:
        return b"\x00" * 16
    if n == 1:
        return b"\x00\x01" + b"\x07" * 14
    return hashlib.sha256(b"c22-si-%d" % n).digest()[:16]


def secret(kind, n):
    return hashlib.sha256(("c22-%s-%d" % (kind, n)).encode()).digest()


# --------------------------------------------------------------------------- implementation
class FakeCanary(object):
    """What FoolscapStorageServer needs from a connection's canary."""

    def __init__(self):
        self.cbs = {}
        self.n = 0

    def notifyOnDisconnect(self, cb, *a, **kw):
        self.n += 1
        self.cbs[self.n] = (cb, a, kw)
        return self.n

    def dontNotifyOnDisconnect(self, marker):
        # like foolscap's Broker: tolerant of markers whose callback already fired
        self.cbs.pop(marker, None)

    def disconnect(self):
        cbs, self.cbs = self.cbs, {}
        for m in sorted(cbs):
            cb, a, kw = cbs[m]
            cb(*a, **kw)


class Impl(object):
    """The real storage server on a scratch directory; `do(op)` executes one operation and
    returns its canonical answer."""

    def __init__(self, name, ro=False, reserved=0):
        from twisted.internet.task import Clock
        from allmydata.storage.server import FoolscapStorageServer, StorageServer
        self.dir = env.subdir(name)
        self.clock = Clock()
        self.ss = StorageServer(self.dir, b"\x11" * 20, reserved_space=reserved, readonly_storage=ro, clock=self.clock)
        self.fss = FoolscapStorageServer(self.ss)
        self.handles = {}
        self.nextid = 0
        self.canaries = {}

    def canary(self, c):
        if c not in self.canaries:
            self.canaries[c] = FakeCanary()
        return self.canaries[c]

    def do(self, op):
        from allmydata.interfaces import ConflictingWriteError, DataTooLargeError
        from twisted.internet.error import AlreadyCalled, AlreadyCancelled
        k = op[0]
        try:
            if k == "alloc":
                _, si, shs, size, c, sec = op[:6]
                already, writers = self.fss.remote_allocate_buckets(
                    si_bytes(si), secret("renew", sec), secret("cancel", sec), list(shs), size, self.canary(c))
                acc = []
                for sh in shs:           # the order in which the server created them
                    if sh in writers and sh not in acc:
                        acc.append(sh)
                assert set(acc) == set(writers), (acc, writers)
                for sh in acc:
                    self.handles[(si, sh, self.nextid)] = writers[sh]
                    self.nextid += 1
                return ("alloc", sorted(already), acc)
            if k == "write":
                _, si, sh, wid, off, data = op
                h = self.handles[(si, sh, wid)]
                try:
                    fin = h._bucket_writer.write(off, data)
                except ConflictingWriteError:
                    return ("conflict",)
                except DataTooLargeError:
                    return ("toolarge",)
                except (AlreadyCalled, AlreadyCancelled):
                    return ("stale",)
                return ("wrote", bool(fin))
            if k == "close":
                _, si, sh, wid = op
                h = self.handles[(si, sh, wid)]
                if h._bucket_writer.closed:
                    try:
                        h.remote_close()
                    except AssertionError:
                        return ("stale",)
                    return ("error", "close-on-closed-writer-succeeded")
                h.remote_close()
                return ("ok",)
            if k == "abort":
                _, si, sh, wid = op
                self.handles[(si, sh, wid)].remote_abort()
                return ("ok",)
            if k == "advance":
                self.clock.advance(op[1])
                return ("ok",)
            if k == "disconnect":
                self.canary(op[1]).disconnect()
                return ("ok",)
            if k == "read":
                _, si, sh, off, ln = op
                b = self.fss.remote_get_buckets(si_bytes(si))
                if sh not in b:
                    return ("read", None)
                return ("read", bytes(b[sh].remote_read(off, ln)))
            if k == "list":
                return ("list", sorted(self.ss.get_buckets(si_bytes(op[1])).keys()))
            if k == "mutdelete":
                # a mutable read-test-write request with a delete vector (new_length = 0) for this storage
                # index: legal for any client; removes the bucket directory when that is empty
                from allmydata.storage.common import UnknownMutableContainerVersionError
                _, si, sh = op
                try:
                    ans = self.fss.remote_slot_testv_and_readv_and_writev(
                        si_bytes(si), (secret("enabler", 0), secret("renew", 0), secret("cancel", 0)), {sh: ([], [], 0)}, [])
                except UnknownMutableContainerVersionError:
                    return ("refused",)
                return ("ok",) if ans == (True, {}) else ("error", "mutable-delete answered %r" % (ans,))
            if k == "required":
                _, si, sh, wid = op
                rr = self.handles[(si, sh, wid)]._bucket_writer.required_ranges()
                return ("ranges", [(a, b) for (a, b, _) in rr.ranges()])
        except Exception as e:  # anything else is an answer no model predicts
            return ("error", type(e).__name__ + ":" + str(e)[:80])
        raise ValueError(op)

    def allocated(self):
        return self.ss.allocated_size()

    def files(self):
        """(final, incoming) share files on disk as sets of (si dir name, shnum)."""
        fin, inc = set(), set()
        share = self.ss.sharedir
        for root, _dirs, fs in os.walk(share):
            rel = os.path.relpath(root, share).split(os.sep)
            for f in fs:
                if rel[0] == "incoming":
                    inc.add((rel[-1], int(f)))
                else:
                    fin.add((rel[-1], int(f)))
        return fin, inc


# --------------------------------------------------------------------------- reference oracle
class Ref(object):
    """The property statement as a reference: a share is a map position -> byte built from the
    accepted writes; it is visible once closed; abort/timeout/disconnect forget it."""
    TIMEOUT = 30 * 60

    def __init__(self, ro=False):
        self.ro = ro
        self.slots = {}      # (si, sh) -> dict(state="incoming"|"final", wid, size, pos{}, deadline, canary, data)
        self.now = 0
        self.nextid = 0
        self.dead = []       # handles (si, sh, wid) of writers that are gone

    def live(self, si, sh, wid):
        s = self.slots.get((si, sh))
        return s if s and s["state"] == "incoming" and s["wid"] == wid else None

    def allocated(self):
        return sum(s["size"] for s in self.slots.values() if s["state"] == "incoming")

    def finals(self, si):
        return sorted(sh for (i, sh), s in self.slots.items() if i == si and s["state"] == "final")

    def _drop(self, key):
        s = self.slots.pop(key)
        self.dead.append((key[0], key[1], s["wid"]))

    def expect(self, op, avail=None):
        """Returns the set of acceptable answers and applies the operation."""
        k = op[0]
        if k == "alloc":
            _, si, shs, size, c, _sec = op[:6]
            already = self.finals(si)
            remaining = None if avail is None else avail - self.allocated()
            acc = []
            for sh in shs:
                if (si, sh) in self.slots or self.ro:
                    continue
                if remaining is None or remaining >= size:
                    self.slots[(si, sh)] = dict(state="incoming", wid=self.nextid, size=size, pos={},
                                                deadline=self.now + self.TIMEOUT, canary=c)
                    self.nextid += 1
                    acc.append(sh)
                    if remaining is not None:
                        remaining -= size
            return [("alloc", already, acc)]
        if k == "write":
            _, si, sh, wid, off, data = op
            w = self.live(si, sh, wid)
            if w is None:
                return [("stale",)]
            w["deadline"] = self.now + self.TIMEOUT
            differs = any((off + i) in w["pos"] and w["pos"][off + i] != data[i] for i in range(len(data)))
            toolarge = off + len(data) > w["size"]
            if differs or toolarge:
                return ([("conflict",)] if differs else []) + ([("toolarge",)] if toolarge else [])
            for i in range(len(data)):
                w["pos"][off + i] = data[i]
            return [("wrote", len(w["pos"]) == w["size"])]
        if k == "close":
            _, si, sh, wid = op
            w = self.live(si, sh, wid)
            if w is None:
                return [("stale",)]
            w["state"] = "final"
            w["data"] = bytes(w["pos"].get(p, 0) for p in range(w["size"]))
            self.dead.append((si, sh, wid))
            return [("ok",)]
        if k == "abort":
            _, si, sh, wid = op
            if self.live(si, sh, wid) is not None:
                self._drop((si, sh))
            return [("ok",)]
        if k == "advance":
            self.now += op[1]
            for key in [key for key, s in self.slots.items() if s["state"] == "incoming" and s["deadline"] <= self.now]:
                self._drop(key)
            return [("ok",)]
        if k == "disconnect":
            for key in [key for key, s in self.slots.items() if s["state"] == "incoming" and s["canary"] == op[1]]:
                self._drop(key)
            return [("ok",)]
        if k == "read":
            _, si, sh, off, ln = op
            s = self.slots.get((si, sh))
            if not s or s["state"] != "final":
                return [("read", None)]
            return [("read", s["data"][off:off + ln])]
        if k == "list":
            return [("list", self.finals(op[1]))]
        if k == "mutdelete":
            # no immutable upload or share is affected; with completed immutable shares in the bucket
            # the request is refused (they are not mutable containers)
            return [("refused",)] if self.finals(op[1]) else [("ok",)]
        if k == "required":
            _, si, sh, wid = op
            w = self.live(si, sh, wid)
            missing = [p for p in range(w["size"]) if p not in w["pos"]]
            out = []
            for p in missing:
                if out and out[-1][1] == p:
                    out[-1][1] = p + 1
                else:
                    out.append([p, p + 1])
            return [("ranges", [tuple(x) for x in out])]
        raise ValueError(op)


ORACLE_KIND = {
    "alloc": "allocate-answer-differs",
    "write": "write-verdict-differs",
    "close": "close-verdict-differs",
    "abort": "abort-verdict-differs",
    "advance": "clock-advance-failed",
    "disconnect": "disconnect-failed",
    "read": "read-differs-from-written-or-visibility",
    "list": "listing-differs-from-closed-set",
    "required": "required-ranges-differ",
    "mutdelete": "mutable-delete-request-answer-differs",
}


def judge(ctx, op, got, acceptable, hist, where):
    """Direct oracle for one answer; returns True when the answer is acceptable."""
    if got in acceptable:
        return True
    kind = ORACLE_KIND[op[0]]
    want = acceptable[0] if acceptable else None
    if op[0] == "write":
        if got[0] == "wrote" and ("conflict",) in acceptable:
            kind = "conflicting-write-accepted"
        elif got[0] == "wrote" and ("toolarge",) in acceptable:
            kind = "write-past-allocated-size-accepted"
        elif got[0] in ("conflict", "toolarge") and want and want[0] == "wrote":
            kind = "consistent-write-rejected"
        elif got[0] == "wrote":
            kind = "write-finished-flag-wrong"
    elif op[0] == "close" and got[0] == "error":
        kind = "close-failed-upload-not-completed"
    elif op[0] == "read":
        if want and want[1] is None:
            kind = "share-visible-without-close"
        elif got[0] == "read" and got[1] is None:
            kind = "closed-share-not-visible"
        else:
            kind = "read-differs-from-written"
    elif op[0] == "list":
        kind = "listing-differs-from-closed-set"
    elif op[0] == "alloc":
        if got[0] == "alloc" and want and got[1] != want[1]:
            kind = "alreadygot-differs-from-closed-set"
        else:
            kind = "allocate-accepted-set-differs"
    ctx.oracle_fail(kind, "%s: operation %s answered %s, the property requires %s" % (where, show_op(op), show(got), show(want)),
                    case=hist, expected=show(want), observed=show(got))
    return False


def show(x):
    if isinstance(x, (bytes, bytearray)):
        return bytes(x).hex()
    if isinstance(x, (list, tuple)):
        return [show(v) for v in x]
    return x


def show_op(op):
    return json.dumps(show(list(op)))


def op_to_json(op):
    o = list(op)
    if o[0] == "write":
        o[5] = {"hex": bytes(o[5]).hex()}
    return o


def op_from_json(o):
    o = list(o)
    if o[0] == "write":
        o[5] = bytes.fromhex(o[5]["hex"])
    if o[0] == "alloc":
        o[2] = list(o[2])
    return tuple(o)


# --------------------------------------------------------------------------- Coq rendering
def c_key(si, sh):
    return "(%s, %s)" % (T.N(si), T.N(sh))


def c_op(op, avail=None):
    k = op[0]
    if k == "alloc":
        _, si, shs, size, c = op[:5]
        return "OAlloc %s %s %s %s %s" % (T.N(si), T.lst([T.N(x) for x in shs]), T.N(size), T.N(c), T.opt(None if avail is None else T.N(avail)))
    if k == "write":
        _, si, sh, wid, off, data = op
        return "OWrite %s %s %s %s" % (c_key(si, sh), T.N(wid), T.N(off), T.bytes_(data))
    if k == "close":
        return "OClose %s %s" % (c_key(op[1], op[2]), T.N(op[3]))
    if k == "abort":
        return "OAbort %s %s" % (c_key(op[1], op[2]), T.N(op[3]))
    if k == "advance":
        return "OAdvance %s" % T.N(op[1])
    if k == "disconnect":
        return "ODisconnect %s" % T.N(op[1])
    if k == "read":
        return "ORead %s %s %s" % (c_key(op[1], op[2]), T.N(op[3]), T.N(op[4]))
    if k == "list":
        return "OList %s" % T.N(op[1])
    if k == "required":
        return "ORequired %s %s" % (c_key(op[1], op[2]), T.N(op[3]))
    if k == "mutdelete":
        return None         # a request to the mutable-slot API: no operation of the immutable-store model
    raise ValueError(op)


def c_res(r):
    k = r[0]
    if k == "alloc":
        return "RAlloc %s %s" % (T.lst([T.N(x) for x in r[1]]), T.lst([T.N(x) for x in r[2]]))
    if k == "wrote":
        return "RWrote %s" % T.boolean(r[1])
    if k == "conflict":
        return "RConflict"
    if k == "toolarge":
        return "RTooLarge"
    if k == "stale":
        return "RStale"
    if k == "ok":
        return "ROk"
    if k == "read":
        return "RRead %s" % T.opt(None if r[1] is None else T.bytes_(r[1]))
    if k == "list":
        return "RList %s" % T.lst([T.N(x) for x in r[1]])
    if k == "ranges":
        return "RRanges %s" % T.lst(["(%s, %s)" % (T.N(a), T.N(b)) for (a, b) in r[1]])
    return None     # ("error", ...) has no model counterpart


# --------------------------------------------------------------------------- history generation
class Gen(object):
    """Adaptive, seeded generator: looks at the reference state to aim operations at live writers,
    written ranges and deadlines."""

    def __init__(self, r, nsi=None, sizes=SIZES):
        self.r = r
        self.nsi = nsi or r.choice([1, 2, 2, 3])
        self.sizes = sizes
        self.intended = {}     # (si, sh, wid) -> bytes the uploader means to store
        self.keys = set()

    def intended_for(self, si, sh, wid, size):
        h = (si, sh, wid)
        if h not in self.intended:
            self.intended[h] = bytearray(self.r.getrandbits(8) for _ in range(size))
        return self.intended[h]

    def alloc(self, ref):
        r = self.r
        si = r.randrange(self.nsi)
        n = r.choice([1, 1, 2, 3, 3, 5])
        shs = [r.randrange(5) for _ in range(n)]
        if r.random() < 0.7:
            shs = list(dict.fromkeys(shs))
        size = r.choice(self.sizes)
        for sh in shs:
            self.keys.add((si, sh))
        return ("alloc", si, shs, size, r.randrange(3), r.randrange(2))

    def live(self, ref):
        return [(k, s) for k, s in sorted(ref.slots.items()) if s["state"] == "incoming"]

    def write(self, ref):
        r = self.r
        live = self.live(ref)
        if ref.dead and r.random() < (0.2 if not live else 0.05):
            si, sh, wid = r.choice(ref.dead)
            return ("write", si, sh, wid, r.randrange(4), bytes([r.getrandbits(8)]))
        if not live:
            return None
        (si, sh), w = r.choice(live)
        mode = r.choice(["fresh", "fresh", "island", "island", "island", "adjacent", "adjacent", "same", "same", "differ", "differ", "past", "full", "rest",
                         "span-late", "span-late", "span-late", "span-late", "span-early", "span-early", "span-same"])

        def pieces(w):
            ps = sorted(w["pos"])
            return 1 + sum(1 for x, y in zip(ps, ps[1:]) if y != x + 1) if ps else 0
        if mode.startswith("span") and pieces(w) < 2:
            multi = [(k, x) for k, x in live if pieces(x) >= 2]
            if multi:
                (si, sh), w = r.choice(multi)
        if mode == "island" and w["size"] < 12:
            big = [(k, x) for k, x in live if x["size"] >= 12]
            if big:
                (si, sh), w = r.choice(big)
        size, wid = w["size"], w["wid"]
        want = self.intended_for(si, sh, wid, size)
        written = sorted(w["pos"])
        runs = []                                   # maximal runs of written positions
        for q in written:
            if runs and runs[-1][1] == q:
                runs[-1][1] = q + 1
            else:
                runs.append([q, q + 1])
        if size == 0:
            mode = "past"
        span = None
        if mode.startswith("span"):
            if len(runs) >= 2:
                # one write over 2..3 written pieces: starts inside (or before) piece i, ends inside piece j
                i = r.randrange(len(runs) - 1)
                j = min(len(runs) - 1, i + r.choice([1, 1, 2]))
                a = r.randint(max(0, runs[i][0] - r.choice([0, 0, 2])), runs[i][1] - 1)
                b = r.randint(runs[j][0] + 1, min(size, runs[j][1] + r.choice([0, 0, 3])))
                span = (i, j, a, b)
            else:
                mode = "island"
        if mode == "island":
            # a short piece that touches nothing written so far (so that later writes can span several pieces)
            gaps = [p for p in range(size) if all(q not in w["pos"] for q in (p - 1, p, p + 1))]
            if not gaps:
                mode = "fresh"
        if span is not None:
            off, ln = span[2], span[3] - span[2]
        elif mode == "island":
            off = r.choice(gaps)
            ln = 1
            while ln < r.choice([1, 2, 4, 9]) and (off + ln) in gaps:
                ln += 1
        elif mode == "full":
            off, ln = 0, size
        elif mode == "rest":
            missing = [p for p in range(size) if p not in w["pos"]]
            if not missing:
                off, ln = 0, size
            else:
                off = missing[0]
                ln = 1
                while off + ln < size and (off + ln) not in w["pos"]:
                    ln += 1
        elif mode == "past":
            off = r.choice([size, size - 1, size + 1, max(0, size - 3), size + 7]) if size else r.choice([0, 1])
            off = max(0, off)
            ln = r.choice([1, 2, 5])
            if off + ln <= size:
                ln = size - off + r.choice([1, 2])
        elif mode in ("adjacent", "same", "differ") and written:
            p = r.choice(written)
            if mode == "adjacent":
                # start right after a written run or end right before one
                q = p
                while q in w["pos"]:
                    q += 1
                off = min(q, max(0, size - 1))
                ln = r.randint(1, max(1, min(size - off, 12)))
            else:
                off = max(0, p - r.randrange(0, 6))
                ln = r.randint(p - off + 1, max(p - off + 1, min(size - off, p - off + 1 + r.randrange(0, 10))))
        else:
            off = r.randrange(size)
            ln = r.randint(1, max(1, min(size - off, r.choice([1, 3, 8, 20, 200]))))
        ln = max(1, ln)
        data = bytearray(want[off:off + ln])
        while len(data) < ln:               # past the end: the uploader has no intended content there
            data.append(r.getrandbits(8))
        if span is not None:
            # agree with everything stored, then (late) differ only inside the LAST piece overlapped,
            # or (early) only inside the FIRST one
            for i in range(ln):
                if (off + i) in w["pos"]:
                    data[i] = w["pos"][off + i]
            if mode != "span-same":
                lo, hi = runs[span[1]] if mode == "span-late" else runs[span[0]]
                cand = [q for q in range(max(lo, off), min(hi, off + ln))]
                q = r.choice(cand)
                data[q - off] ^= r.choice([1, 0x80, 0xff])
                self.spans = getattr(self, "spans", 0) + 1
        if mode == "differ":
            overl = [i for i in range(ln) if (off + i) in w["pos"]]
            i = r.choice(overl) if overl and r.random() < 0.85 else r.randrange(ln)
            data[i] ^= r.choice([1, 0x80, 0xff])
        # what the uploader now believes it stored (when this write is accepted)
        if not any((off + i) in w["pos"] and w["pos"][off + i] != data[i] for i in range(ln)) and off + ln <= size:
            want[off:off + ln] = data
        return ("write", si, sh, wid, off, bytes(data))

    def handle_op(self, ref, what):
        r = self.r
        live = self.live(ref)
        if ref.dead and r.random() < (0.3 if not live else 0.12):
            si, sh, wid = r.choice(ref.dead)
            return (what, si, sh, wid)
        if not live:
            return None
        (si, sh), w = r.choice(live)
        return (what, si, sh, w["wid"])

    def advance(self, ref):
        r = self.r
        live = self.live(ref)
        opts = [1, 60, 1799, 1800, 1801]
        if live:
            d = min(w["deadline"] for _, w in live) - ref.now
            opts += [d, d, d + 1] + ([d - 1, d - 1] if d > 1 else [])
        return ("advance", max(0, r.choice(opts)))

    def read(self, ref):
        r = self.r
        keys = sorted(self.keys) or [(0, 0)]
        finals = [k for k in keys if k in ref.slots and ref.slots[k]["state"] == "final"]
        (si, sh) = r.choice(finals) if finals and r.random() < 0.75 else r.choice(keys + [(self.nsi, 0)])
        s = ref.slots.get((si, sh))
        size = s["size"] if s else 10
        off, ln = r.choice([(0, size), (0, size + 10), (max(0, size - 1), 5), (size, 1), (size + 3, 2), (0, 0),
                            (r.randrange(size + 1), r.randrange(size + 3)), (r.randrange(size + 1), r.randrange(size + 3)),
                            (size // 2, size)])
        return ("read", si, sh, off, ln)

    def mutdelete(self, ref):
        """Mostly aimed at a storage index with uploads in progress and nothing completed yet."""
        r = self.r
        live = self.live(ref)
        fresh = sorted(set(si for (si, _sh), _w in live if not ref.finals(si)))
        if fresh and r.random() < 0.8:
            si = r.choice(fresh)
        else:
            si = r.randrange(self.nsi + 1)
        return ("mutdelete", si, r.randrange(7))

    def next(self, ref):
        r = self.r
        live = self.live(ref)
        for _ in range(20):
            kind = r.choice(["alloc"] * (12 if not live else 6 if len(live) < 2 else 3) + ["write"] * 28 + ["close"] * 5 + ["abort"] * 2 +
                            ["advance"] * 3 + ["disconnect"] * 1 + ["read"] * 6 + ["list"] * 2 + ["required"] * 2 + ["mutdelete"] * 2)
            if kind == "alloc":
                op = self.alloc(ref)
            elif kind == "write":
                op = self.write(ref)
            elif kind in ("close", "abort"):
                op = self.handle_op(ref, kind)
            elif kind == "advance":
                op = self.advance(ref)
            elif kind == "disconnect":
                op = ("disconnect", r.randrange(3))
            elif kind == "read":
                op = self.read(ref)
            elif kind == "list":
                op = ("list", r.randrange(self.nsi + 1))
            elif kind == "mutdelete":
                op = self.mutdelete(ref)
            else:
                op = None
                if live:
                    (si, sh), w = r.choice(live)
                    op = ("required", si, sh, w["wid"])
            if op is not None:
                return op
        return self.alloc(ref)

    def readback(self, ref):
        ops = []
        for si in range(self.nsi + 1):
            ops.append(("list", si))
        for (si, sh) in sorted(self.keys):
            s = ref.slots.get((si, sh))
            ops.append(("read", si, sh, 0, (s["size"] if s else 0) + 5))
        return ops


# --------------------------------------------------------------------------- running one history
class History(object):
    """Executes operations on implementation and reference in lock step and records everything
    needed for the model comparison."""

    def __init__(self, ctx, name, ro=False, impl=None):
        self.ctx = ctx
        self.ro = ro
        self.impl = impl or Impl(name, ro=ro)
        self.ref = Ref(ro=ro)
        self.ops = []          # executed operations (python form)
        self.avails = []       # get_available_space() seen by each allocate (else None)
        self.obs = []          # (answer, allocated_size) from the implementation
        self.ok = True
        self.name = name
        self.flags = set()

    def record(self):
        return {"ro": self.ro, "ops": [op_to_json(o) for o in self.ops]}

    def available(self):
        return self.impl.ss.get_available_space()

    def do(self, op):
        avail = self.available() if op[0] == "alloc" else None
        before = self.ref.allocated()
        got = self.impl.do(op)
        acceptable = self.ref.expect(op, avail)
        self.ops.append(op)
        self.avails.append(avail)
        alloc_now = self.impl.allocated()
        self.obs.append((got, alloc_now))
        hist = self.record()
        self.ctx.count("op:" + op[0] + ":" + str(got[0]))
        if not judge(self.ctx, op, got, acceptable, hist, self.name):
            self.ok = False
            if op[0] != "close":
                return got
        # reservation bookkeeping as the property states it
        want_alloc = self.ref.allocated()
        if alloc_now != want_alloc:
            kind = "reservation-not-released" if op[0] in ("abort", "advance", "disconnect", "close") else "allocated-size-wrong"
            self.ctx.oracle_fail(kind, "%s: after %s allocated_size() = %d, the uploads in progress reserve %d (was %d)" % (
                self.name, show_op(op), alloc_now, want_alloc, before), case=hist, expected=want_alloc, observed=alloc_now)
            self.ok = False
        if got[0] == "wrote":
            self.flags.add("write")
        if got[0] == "conflict":
            self.flags.add("conflict")
        if op[0] == "close" and got[0] == "ok":
            self.flags.add("close")
        if op[0] == "read" and got[1]:
            self.flags.add("readback")
        return got

    def check_files(self):
        """observe_at: share files on disk."""
        from allmydata.storage.common import si_b2a
        fin, inc = self.impl.files()
        wfin = set((si_b2a(si_bytes(si)).decode(), sh) for (si, sh), s in self.ref.slots.items() if s["state"] == "final")
        winc = set((si_b2a(si_bytes(si)).decode(), sh) for (si, sh), s in self.ref.slots.items() if s["state"] == "incoming")
        if fin != wfin:
            self.ctx.oracle_fail("final-share-files-differ-from-closed-set",
                                 "%s: share files in the final directories %s, closed uploads %s" % (self.name, sorted(fin), sorted(wfin)),
                                 case=self.record(), expected=sorted(wfin), observed=sorted(fin))
            self.ok = False
        if inc != winc:
            self.ctx.oracle_fail("incoming-files-differ-from-uploads-in-progress",
                                 "%s: files under incoming/ %s, uploads in progress %s (an aborted, timed-out or disconnected "
                                 "upload must leave nothing behind)" % (self.name, sorted(inc), sorted(winc)),
                                 case=self.record(), expected=sorted(winc), observed=sorted(inc))
            self.ok = False

    def term(self):
        """Coq term: the model answers exactly as the implementation did (None if some answer
        has no model form)."""
        ops = [c_op(o, a) for o, a in zip(self.ops, self.avails) if o[0] != "mutdelete"]
        exp = []
        for o, (got, al) in zip(self.ops, self.obs):
            if o[0] == "mutdelete":
                continue    # judged by the oracle only; it must not (and in the model cannot) change anything
            c = c_res(got)
            if c is None:
                return None
            exp.append("(%s, %s)" % (c, T.N(al)))
        return "check_history %s %s %s" % (T.boolean(self.ro), T.lst(ops), T.lst(exp))


def run_history(ctx, name, r, nops, ro=False):
    h = History(ctx, name, ro=ro)
    g = Gen(r)
    for _ in range(nops):
        h.do(g.next(h.ref))
        if not h.ok:
            break
    if h.ok:
        h.check_files()
        for op in g.readback(h.ref):
            h.do(op)
    h.spans = getattr(g, "spans", 0)
    if h.spans:
        ctx.count("histories-with-spanning-conflict-write")
    return h


def replay_ops(ctx, name, ops, ro=False):
    h = History(ctx, name, ro=ro)
    for op in ops:
        known = op[0] not in ("write", "close", "abort", "required") or (op[1], op[2], op[3]) in h.impl.handles
        if not known:
            continue        # a minimised history may mention a writer that was never created
        h.do(op)
    h.check_files()
    return h


# --------------------------------------------------------------------------- RangeMap pin
def rangemap_case(ops):
    """ops: ["set", a, b] | ["delete", a, b]; after each, compare the full listing; queries
    ["query", a, b] compare clipped listings.  Returns (coq terms, python observations)."""
    from collections_extended import RangeMap
    rm = RangeMap()
    expr = "[]"
    terms = []
    seen = []
    for o in ops:
        if o[0] == "set":
            rm.set(True, o[1], o[2])
            expr = "(rm_set %s %s %s)" % (T.N(o[1]), T.N(o[2]), expr)
        elif o[0] == "delete":
            rm.delete(o[1], o[2])
            expr = "(rm_delete %s %s %s)" % (T.N(o[1]), T.N(o[2]), expr)
        if o[0] == "query":
            got = [(a, b) for (a, b, _v) in rm.ranges(o[1], o[2])]
            terms.append("ranges_eqb (rm_query %s %s %s) %s" % (T.N(o[1]), T.N(o[2]), expr, T.lst(["(%s, %s)" % (T.N(a), T.N(b)) for a, b in got])))
        else:
            got = [(a, b) for (a, b, _v) in rm.ranges()]
            tot = sum(m.stop - m.start for m in rm.ranges())
            terms.append("ranges_eqb %s %s && (rm_total %s =? %s)" % (
                expr, T.lst(["(%s, %s)" % (T.N(a), T.N(b)) for a, b in got]), expr, T.N(tot)))
        seen.append(got)
    return terms, seen


def rangemap_oracle(ops, seen):
    """Position-set reading of the RangeMap operations (what BucketWriter relies on)."""
    pos = set()
    for o, got in zip(ops, seen):
        if o[0] == "set":
            pos |= set(range(o[1], o[2]))
        elif o[0] == "delete":
            pos -= set(range(o[1], o[2]))
        want = pos if o[0] != "query" else pos & set(range(o[1], o[2]))
        have = set()
        for a, b in got:
            if a >= b or (have & set(range(a, b))):
                return False
            have |= set(range(a, b))
        if have != want:
            return False
        # maximal runs, ascending
        if any(got[i][1] >= got[i + 1][0] for i in range(len(got) - 1)):
            return False
    return True


def rangemaps(ctx):
    ctx.correspondence("rangemap-shim-vs-interval-model")
    cases = []
    for path in sorted(glob.glob(os.path.join(env.CORPUS, ID, "*.json"))):
        rec = json.load(open(path))
        if rec.get("kind") == "rangemap":
            cases.append((os.path.basename(path), rec["ops"]))
    for i in range(ctx.n(40, 600)):
        r = ctx.rng("rangemap", i)
        top = r.choice([6, 12, 30])
        ops = []
        for _ in range(r.randint(1, 10)):
            a = r.randrange(top)
            b = r.randint(a + 1, top)
            ops.append([r.choice(["set", "set", "set", "delete", "query"]), a, b])
        cases.append(("rangemap-%d" % i, ops))
    terms, owner = [], []
    for name, ops in cases:
        ts, seen = rangemap_case(ops)
        ctx.case(("rangemap", json.dumps(ops)), kind="rangemap")
        if not rangemap_oracle(ops, seen):
            ctx.oracle_fail("rangemap-standin-not-a-position-set", "RangeMap %s: listings %s are not the maximal runs of the position set" % (name, seen),
                            case={"rangemap": ops}, observed=seen)
        for t in ts:
            terms.append(t)
            owner.append((name, ops))
    bad = ctx.coq_check(IMPORTS, terms, tag="c22rm", shard=300)
    for ix in bad:
        ctx.mismatch("rangemap-vs-interval-model", "RangeMap stand-in and interval model differ on %s" % owner[ix][0],
                     case={"rangemap": owner[ix][1]}, correspondence="rangemap-shim-vs-interval-model")
    ctx.trace(len(terms) - len(bad))


# --------------------------------------------------------------------------- driver
def corpus_histories():
    out = []
    for path in sorted(glob.glob(os.path.join(env.CORPUS, ID, "*.json"))):
        rec = json.load(open(path))
        if rec.get("kind") == "history":
            out.append((os.path.basename(path), rec))
    return out


def compare_with_model(ctx, hs, tag, correspondence):
    terms, owner = [], []
    for h in hs:
        t = h.term()
        if t is None:
            continue        # an ("error", ...) answer: already an oracle failure
        terms.append(t)
        owner.append(h)
    bad = ctx.coq_check(IMPORTS, terms, tag=tag, shard=36)
    for ix in bad:
        h = owner[ix]
        ctx.mismatch("model-vs-implementation-history", "model and StorageServer answer differently on history %s" % h.name,
                     case=h.record(), observed=show([o for o in h.obs]), correspondence=correspondence)
    ctx.trace(len(terms) - len(bad))


def run(ctx):
    ctx.correspondence("storage-histories-vs-model")
    rangemaps(ctx)
    hs = []
    for name, rec in corpus_histories():
        h = replay_ops(ctx, "corpus-" + name, [op_from_json(o) for o in rec["ops"]], ro=rec.get("ro", False))
        ctx.case(("corpus", name), kind="corpus-history")
        hs.append(h)
    n = ctx.n(75, 1500)
    for i in range(n):
        r = ctx.rng("history", i)
        ro = r.random() < 0.04
        h = run_history(ctx, "h%d" % i, r, r.randint(12, 45), ro=ro)
        ctx.count("gen:spanning-writes-differing-in-one-piece", getattr(h, "spans", 0))
        deep = {"write", "close", "readback"} <= h.flags
        ctx.case(tuple(show_op(o) for o in h.ops) if deep else None, kind="history-ro" if ro else "history")
        if i < 2:
            ctx.sample({"history": h.name, "ops": [show(list(o)) for o in h.ops[:12]], "answers": show([o for o in h.obs[:12]])})
        hs.append(h)
    compare_with_model(ctx, hs, "c22h", "storage-histories-vs-model")


def replay(ctx, rec):
    case = rec.get("case") or {}
    if "rangemap" in case:
        ts, seen = rangemap_case(case["rangemap"])
        bad = ctx.coq_check(IMPORTS, ts, tag="c22rm-replay")
        return {"listings": seen, "position-set-reading-ok": rangemap_oracle(case["rangemap"], seen), "model-disagrees-at": bad}
    ops = [op_from_json(o) for o in case.get("ops", [])]
    h = replay_ops(ctx, "replay", ops, ro=case.get("ro", False))
    out = {"answers": show([o for o in h.obs])}
    t = h.term()
    if t:
        bad = ctx.coq_check(IMPORTS, [t], tag="c22-replay")
        out["model-agrees"] = not bad
        if bad:
            ctx.mismatch("model-vs-implementation-history", "model and implementation differ on the replayed history", case=case)
            m = "observe_from %s init %s" % (T.boolean(h.ro), T.lst([c_op(o, a) for o, a in zip(h.ops, h.avails) if o[0] != "mutdelete"]))
            out["model"] = ctx.coq_eval(IMPORTS, m)[-3000:]
    return out
