"""C28  Storage space reservations are honoured.

Implementation under test: the real StorageServer (allocate_buckets / allocated_size /
get_available_space / bucket_writer_closed) and fileutil.get_disk_stats / get_available_space,
on a scratch directory, with os.statvfs substituted by a simulated disk (module attribute
substitution from here; nothing in /repo is touched).
Model: coq/Model/Space.v (closed loop over coq/Model/ImmStore.v) evaluated by vm_compute.
Oracle: the property's inequality evaluated on the simulated disk and the answers."""
import glob
import json
import os
import types

from core import env
from core import term as T
from props import c22

ID = "C28"
GEN = []
RULE = ("cases: one case = one seeded history (10..40 operations) of allocate/write/close/abort/advance-clock/disconnect "
        "(plus mutable delete-vector requests on storage indexes with uploads in progress) "
        "against one server configuration (read-only or not, reserved_space 0..beyond capacity) on one simulated disk "
        "(capacity 0..1500 bytes, f_frsize 1/4/512, statvfs working / failing / missing); allocation sizes are aimed at the "
        "space remaining (exact fit, one byte more, half, third); distinct = distinct (configuration, disk, operation list); "
        "non-trivial = a history with a partially or totally refused allocation and a later allocation accepted after a "
        "close/abort/timeout released space, on a limited disk")
META = {
    "title": "Storage space reservations are honoured",
    "level_text": ("Theorems in Coq over an executable model of allocate_buckets' space accounting, get_available_space and "
                   "get_disk_stats on a disk model (all histories, all configurations, by induction): what uploads in progress may "
                   "still write never exceeds max(0, free - reserved); every accepting allocate call fits into the reported "
                   "available space together with the uploads in progress; a read-only server accepts nothing; close and abort "
                   "release exactly the upload's allocated size, timeout and disconnect at least that.  The model is run against "
                   "the real StorageServer on a simulated disk, and the property's inequality is evaluated directly on every call."),
    "level_note": ("Disk model: closed shares consume their data length, uploads in progress the distinct bytes written; the 12-byte "
                   "header and 72-byte lease records are not counted (the code's accounting and the property speak of allocated "
                   "sizes).  Platforms without a disk statistics API accept everything (the code logs that the reservation cannot "
                   "be honoured); the theorems assume statvfs works.  Lease additions to existing shares (add_or_renew_lease "
                   "space check) are outside this model (C25)."),
    "technique": "Coq proof (invariant over operation histories of an executable model) + differential run vs implementation on a simulated disk + direct oracle",
    "design_ref": "8/C28",
    "trusted_base": ["hand-written models coq/Model/Space.v, coq/Model/ImmStore.v tied to the code by correspondence only",
                     "the simulated os.statvfs in harness/props/c28.py"],
    "assumptions": ["only this server consumes space on the disk", "os.statvfs is available and succeeds (for never_over_commit)"],
}

IMPORTS = ["Lib.Hex", "Model.ImmStore", "Model.Space"]
MODES = {"ok": "StatOk", "fails": "StatFails", "missing": "StatMissing"}


class SimDisk(object):
    """The disk as the property sees it: `capacity` bytes free while the store is empty; closed
    shares consume their size, uploads in progress the distinct bytes accepted so far."""

    def __init__(self, capacity, frsize, mode):
        self.capacity = capacity
        self.frsize = frsize
        self.mode = mode
        self.written = {}     # handle -> set of positions the server accepted
        self.size = {}        # handle -> allocated size
        self.closed_ok = set()
        self.impl = None

    def open_handles(self):
        if self.impl is None:
            return []
        return [h for h, fbw in self.impl.handles.items() if not fbw._bucket_writer.closed]

    def used(self):
        u = sum(self.size[h] for h in self.closed_ok)
        u += sum(len(self.written.get(h, ())) for h in self.open_handles())
        return u

    def outstanding(self):
        return sum(self.size[h] - len(self.written.get(h, ())) for h in self.open_handles())

    def in_progress(self):
        return sum(self.size[h] for h in self.open_handles())

    def free(self):
        return max(0, self.capacity - self.used())

    def statvfs(self, path):
        if self.mode == "fails":
            raise OSError(5, "simulated statvfs failure")
        if self.mode == "missing":
            raise AttributeError("module 'os' has no attribute 'statvfs'")
        bavail = self.free() // self.frsize
        return types.SimpleNamespace(f_frsize=self.frsize, f_bsize=4096, f_blocks=bavail + 1000,
                                     f_bfree=bavail + 37, f_bavail=bavail)

    # the property's reading of "available space"
    def available(self, ro, reserved):
        if ro:
            return 0
        if self.mode == "missing":
            return None
        if self.mode == "fails":
            return 0
        return max(0, self.frsize * (self.free() // self.frsize) - reserved)


class patched_statvfs(object):
    def __init__(self, disk):
        self.disk = disk

    def __enter__(self):
        self.saved = os.statvfs
        os.statvfs = self.disk.statvfs
        return self

    def __exit__(self, *a):
        os.statvfs = self.saved


class SpaceHistory(c22.History):
    def __init__(self, ctx, name, ro, reserved, disk):
        self.disk = disk
        self.reserved = reserved
        c22.History.__init__(self, ctx, name, ro=ro, impl=c22.Impl(name, ro=ro, reserved=reserved))
        disk.impl = self.impl
        self.reported = []
        self.refused = False
        self.accepted_after_release = False
        self.released = False

    def record(self):
        rec = c22.History.record(self)
        rec.update({"reserved": self.reserved, "capacity": self.disk.capacity, "frsize": self.disk.frsize, "statvfs": self.disk.mode})
        return rec

    def available(self):
        return self.disk.available(self.ro, self.reserved)

    def do(self, op):
        d = self.disk
        before_avail = d.available(self.ro, self.reserved)
        before_inprog = d.in_progress()
        known = set(self.impl.handles)
        absent = [sh for sh in dict.fromkeys(op[2]) if (op[1], sh) not in self.ref.slots] if op[0] == "alloc" else []
        got = c22.History.do(self, op)
        # maintain the simulated disk from what the server actually did
        if op[0] == "alloc" and got[0] == "alloc":
            for h in set(self.impl.handles) - known:
                d.size[h] = op[3]
                d.written[h] = set()
            n = len(got[2])
            if n < len(absent):
                self.refused = True
            if n and self.released and before_avail is not None:
                self.accepted_after_release = True
            # --- the property, evaluated directly on this call
            hist = self.record()
            if self.ro and n:
                self.ctx.oracle_fail("readonly-server-accepted-allocation", "%s: read-only server accepted shares %s of size %d" % (self.name, got[2], op[3]),
                                     case=hist, expected=[], observed=got[2])
                self.ok = False
            if n and before_avail is not None and n * op[3] + before_inprog > before_avail:
                self.ctx.oracle_fail("allocation-over-commits-space",
                                     "%s: accepted %d shares of %d bytes with %d bytes of uploads in progress, but only %d bytes are "
                                     "available (free %d, reserved %d)" % (self.name, n, op[3], before_inprog, before_avail, d.free(), self.reserved),
                                     case=hist, expected="<= %d" % before_avail, observed=n * op[3] + before_inprog)
                self.ok = False
        if op[0] == "write" and got[0] == "wrote":
            d.written[(op[1], op[2], op[3])].update(range(op[4], op[4] + len(op[5])))
        if op[0] == "close" and got[0] == "ok":
            d.closed_ok.add((op[1], op[2], op[3]))
        if op[0] in ("close", "abort", "advance", "disconnect") and d.in_progress() < before_inprog:
            self.released = True
        # reported space and the standing invariant
        rep = self.impl.ss.get_available_space()
        self.reported.append(rep)
        want = d.available(self.ro, self.reserved)
        hist = self.record()
        if rep != want:
            self.ctx.oracle_fail("available-space-misreported", "%s: get_available_space() = %r after %s, disk and configuration give %r" % (
                self.name, rep, c22.show_op(op), want), case=hist, expected=want, observed=rep)
            self.ok = False
        ver = self.impl.ss.get_version()[b"http://allmydata.org/tahoe/protocols/storage/v1"][b"available-space"]
        if ver != (2 ** 64 if want is None else want):
            self.ctx.oracle_fail("version-available-space-misreported", "%s: get_version() announces %r, expected %r" % (self.name, ver, want),
                                 case=hist, expected=want, observed=ver)
            self.ok = False
        if d.mode == "ok" and d.outstanding() > max(0, d.capacity - d.used() - self.reserved):
            self.ctx.oracle_fail("reserved-space-invaded",
                                 "%s: after %s uploads in progress may still write %d bytes but only %d are free beyond the reserve" % (
                                     self.name, c22.show_op(op), d.outstanding(), max(0, d.capacity - d.used() - self.reserved)),
                                 case=hist, expected="<= %d" % max(0, d.capacity - d.used() - self.reserved), observed=d.outstanding())
            self.ok = False
        return got

    def term(self):
        ops = [c22.c_op(o, None) for o in self.ops if o[0] != "mutdelete"]
        exp = []
        for o, (got, al), rep in zip(self.ops, self.obs, self.reported):
            if o[0] == "mutdelete":
                continue
            c = c22.c_res(got)
            if c is None:
                return None
            exp.append("(%s, %s, %s)" % (c, T.N(al), T.opt(None if rep is None else T.N(rep))))
        return "check_space_history (mkConfig %s %s) (mkDisk %s %s %s) %s %s" % (
            T.boolean(self.ro), T.N(self.reserved), T.N(self.disk.capacity), T.N(self.disk.frsize), MODES[self.disk.mode],
            T.lst(ops), T.lst(exp))


class SpaceGen(c22.Gen):
    """Allocation sizes aimed at the space that remains."""

    def __init__(self, r, hist):
        c22.Gen.__init__(self, r, nsi=r.choice([1, 2, 3]))
        self.hist = hist

    def alloc(self, ref):
        r = self.r
        op = list(c22.Gen.alloc(self, ref))
        h = self.hist
        avail = h.disk.available(False, h.reserved)
        rem = (avail if avail is not None else 300) - h.disk.in_progress()
        n = max(1, len(set(op[2])))
        cands = [rem, rem + 1, rem - 1, rem // 2, rem // 2 + 1, rem // 3, rem // n, rem // n + 1, 0, 1, 10, 50]
        size = r.choice([c for c in cands if 0 <= c <= 200] or [0, 1, 7])
        op[3] = size
        op[5] = 0           # one lease secret: lease additions are C25's subject
        return tuple(op)

    def next(self, ref):
        r = self.r
        live = self.live(ref)
        for _ in range(20):
            kind = r.choice(["alloc"] * 10 + ["write"] * 8 + ["close"] * 4 + ["abort"] * 3 + ["advance"] * 2 + ["disconnect"] * 1 + ["read"] * 1 + ["mutdelete"] * 2)
            if kind == "alloc":
                op = self.alloc(ref)
            elif kind == "write":
                op = self.write(ref)
            elif kind in ("close", "abort"):
                op = self.handle_op(ref, kind)
            elif kind == "advance":
                op = self.advance(ref)
            elif kind == "disconnect":
                op = ("disconnect", r.randrange(3))
            elif kind == "mutdelete":
                op = self.mutdelete(ref)
            else:
                op = self.read(ref)
            if op is not None:
                return op
        return self.alloc(ref)


def make_config(r):
    capacity = r.choice([0, 1, 40, 100, 200, 256, 400, 700, 1000, 1500])
    reserved = r.choice([0, 0, 0, 1, 10, 64, 100, capacity // 2, capacity, capacity + 5, 2 ** 40])
    frsize = r.choice([1, 1, 1, 1, 4, 512])
    mode = r.choice(["ok"] * 10 + ["fails", "missing"])
    ro = r.random() < 0.12
    return ro, reserved, SimDisk(capacity, frsize, mode)


def run_space_history(ctx, name, r, nops, config=None):
    ro, reserved, disk = config or make_config(r)
    with patched_statvfs(disk):
        h = SpaceHistory(ctx, name, ro, reserved, disk)
        g = SpaceGen(r, h)
        for _ in range(nops):
            h.do(g.next(h.ref))
            if not h.ok:
                break
        if h.ok:
            h.check_files()
            for op in g.readback(h.ref):
                h.do(op)
    return h


def replay_space(ctx, name, case):
    disk = SimDisk(case.get("capacity", 1000), case.get("frsize", 1), case.get("statvfs", "ok"))
    with patched_statvfs(disk):
        h = SpaceHistory(ctx, name, case.get("ro", False), case.get("reserved", 0), disk)
        for op in [c22.op_from_json(o) for o in case.get("ops", [])]:
            known = op[0] not in ("write", "close", "abort", "required") or (op[1], op[2], op[3]) in h.impl.handles
            if known:
                h.do(op)
    return h


def arithmetic(ctx):
    """fileutil.get_disk_stats / get_available_space on their own, including the values the
    histories never reach (huge disks, f_bfree <> f_bavail, reserve beyond free)."""
    from allmydata.util import fileutil
    ctx.correspondence("fileutil-available-space-vs-model")
    terms, info = [], []
    for i in range(ctx.n(60, 1200)):
        r = ctx.rng("arith", i)
        fr = r.choice([1, 1, 512, 1024, 4096, 65536])
        bavail = r.choice([0, 1, 2, 1000, 2 ** 20, 2 ** 31, 2 ** 40, r.getrandbits(34)])
        bfree = bavail + r.choice([0, 1, 5000, 2 ** 20])
        reserved = r.choice([0, 1, fr * bavail, fr * bavail + 1, max(0, fr * bavail - 1), fr * bfree, 10 ** 9, 2 ** 62, r.getrandbits(45)])
        mode = r.choice(["ok"] * 8 + ["fails", "missing"])

        def fake(path, fr=fr, bavail=bavail, bfree=bfree, mode=mode):
            if mode == "fails":
                raise OSError(5, "simulated")
            if mode == "missing":
                raise AttributeError("statvfs")
            return types.SimpleNamespace(f_frsize=fr, f_bsize=4096, f_blocks=bfree + 99, f_bfree=bfree, f_bavail=bavail)
        saved = os.statvfs
        os.statvfs = fake
        try:
            got = fileutil.get_available_space("/nonexistent-c28", reserved)
            stats = fileutil.get_disk_stats("/nonexistent-c28", reserved) if mode == "ok" else None
        finally:
            os.statvfs = saved
        want = None if mode == "missing" else 0 if mode == "fails" else max(0, fr * bavail - reserved)
        ctx.case(("arith", fr, bavail, bfree, reserved, mode), kind="disk-stats:" + mode)
        case = {"frsize": fr, "bavail": bavail, "bfree": bfree, "reserved": reserved, "statvfs": mode}
        if got != want:
            ctx.oracle_fail("fileutil-available-space-wrong", "get_available_space = %r, bytes available to a non-privileged user beyond the reserve = %r" % (got, want),
                            case=case, expected=want, observed=got)
        if stats is not None and (stats["avail"] != want or stats["free_for_nonroot"] != fr * bavail or stats["free_for_root"] != fr * bfree):
            ctx.oracle_fail("fileutil-disk-stats-wrong", "get_disk_stats = %r" % (stats,), case=case, expected=want, observed=stats["avail"])
        terms.append("optN_eqb (fileutil_available_space %s %s %s %s) %s" % (MODES[mode], T.N(fr), T.N(bavail), T.N(reserved), T.opt(None if got is None else T.N(got))))
        info.append(case)
    bad = ctx.coq_check(IMPORTS, terms, tag="c28ar")
    for ix in bad:
        ctx.mismatch("fileutil-available-space-vs-model", "model and fileutil.get_available_space differ", case=info[ix],
                     correspondence="fileutil-available-space-vs-model")
    ctx.trace(len(terms) - len(bad))


def run(ctx):
    ctx.correspondence("space-histories-vs-model")
    arithmetic(ctx)
    hs = []
    for path in sorted(glob.glob(os.path.join(env.CORPUS, ID, "*.json"))):
        rec = json.load(open(path))
        if rec.get("kind") == "space-history":
            h = replay_space(ctx, "corpus-" + os.path.basename(path), rec)
            ctx.case(("corpus", os.path.basename(path)), kind="corpus-space-history")
            hs.append(h)
    n = ctx.n(70, 1500)
    for i in range(n):
        r = ctx.rng("space", i)
        h = run_space_history(ctx, "s%d" % i, r, r.randint(10, 40))
        deep = h.refused and h.accepted_after_release and h.disk.mode == "ok" and not h.ro
        ctx.case((h.ro, h.reserved, h.disk.capacity, h.disk.frsize, h.disk.mode, tuple(c22.show_op(o) for o in h.ops)) if deep else None,
                 kind="space-history:%s%s" % (h.disk.mode, ":readonly" if h.ro else ""))
        if i < 2:
            ctx.sample({"history": h.name, "config": {k: v for k, v in h.record().items() if k != "ops"},
                        "ops": [c22.show(list(o)) for o in h.ops[:10]], "answers": c22.show([o for o in h.obs[:10]]), "available": h.reported[:10]})
        hs.append(h)
    terms, owner = [], []
    for h in hs:
        t = h.term()
        if t is not None:
            terms.append(t)
            owner.append(h)
    bad = ctx.coq_check(IMPORTS, terms, tag="c28h", shard=40)
    for ix in bad:
        h = owner[ix]
        ctx.mismatch("space-model-vs-implementation-history", "model and StorageServer differ on history %s" % h.name,
                     case=h.record(), observed={"answers": c22.show([o for o in h.obs]), "available": h.reported},
                     correspondence="space-histories-vs-model")
    ctx.trace(len(terms) - len(bad))


def replay(ctx, rec):
    case = rec.get("case") or {}
    if "ops" not in case:
        return {"note": "arithmetic case: inputs, expected and observed are in the record"}
    h = replay_space(ctx, "replay", case)
    out = {"answers": c22.show([o for o in h.obs]), "available": h.reported}
    t = h.term()
    if t:
        bad = ctx.coq_check(IMPORTS, [t], tag="c28-replay")
        out["model-agrees"] = not bad
        if bad:
            ctx.mismatch("space-model-vs-implementation-history", "model and implementation differ on the replayed history", case=case)
            m = "sobserve_from (mkConfig %s %s) (mkDisk %s %s %s) init %s" % (
                T.boolean(h.ro), T.N(h.reserved), T.N(h.disk.capacity), T.N(h.disk.frsize), MODES[h.disk.mode],
                T.lst([c22.c_op(o, None) for o in h.ops if o[0] != "mutdelete"]))
            out["model"] = ctx.coq_eval(IMPORTS, m)[-3000:]
    return out
