"""C07  Share placement is complete, respects read-only servers, maximizes spread."""
import collections
import multiprocessing
import os
import sys
import time

from core import term as T

ID = "C07"
GEN = []
RULE = ("case = (writable servers, read-only servers, share numbers, existing-share relation); distinct = distinct "
        "canonical layouts; non-trivial = at least one share to place (share_placement builds and solves at least "
        "one flow network); thorough enumerates every layout with <= 4 servers (any read-only subset, >= 1 writable), "
        "<= 5 shares and any existing-share relation (17 043 516 layouts, oracle on the real function), and compares "
        "model and function on every layout <= 3 servers x <= 3 shares plus seeded samples")
META = {
    "title": "Share placement is complete, respects read-only servers, maximizes spread",
    "level_text": ("Coq, FULL for the model: executable model of share_placement and all its helpers (three matching phases on the "
                   "Edmonds-Karp core shared with C08, homeless-share distribution with the priority queue, round-robin), every "
                   "iteration over a Python set taken from an explicit order argument, so the theorems hold for every CPython set "
                   "order.  Proved for ALL inputs satisfying the precondition and every result the model returns: placement_total "
                   "(every share placed), readonly_only_existing (a read-only server only gets shares it holds; every share goes to "
                   "a listed server), placement_maximal (#distinct servers = size of a maximum matching of writable--any share / "
                   "read-only--held share: the read-only phase is a maximum matching by the flow invariant + Koenig cover of C08, the "
                   "last phase matches min(#servers,#shares), matched entries of all phases survive merging/homeless "
                   "distribution/round-robin, and any admissible matching is <= min(#shares, ro-matching + #writable))."),
    "level_note": ("Theorems exclude the model's None (Python exception / fuel / order argument not a permutation): that "
                   "share_placement's model returns a result on every wf input is not proved; the correspondence run compares "
                   "model and real function (result dict) on every layout <= 3 servers x <= 3 shares, seeded samples up to 4x5 and "
                   "20x30, with the iteration orders read off the running function, and finds a result every time.  Independently "
                   "the three clauses are checked directly on the real function for all 17 043 516 layouts <= 4 servers x <= 5 "
                   "shares (thorough) with a Kuhn matching oracle, and Coq evaluates the certificate validator "
                   "(placement_certified) on every correspondence case.  Model follows /repo after fix commits d3035d7 and 47d1588."),
    "technique": "Coq proof of the algorithm (all inputs, all set iteration orders) over an executable model + differential run of model vs implementation + exhaustive small-scope oracle on the implementation",
    "design_ref": "8/C07, 9/C07, A.3",
    "trusted_base": ["harness/props/c07.py reads the iteration order of the function's internal sets with sys.setprofile and hands it to the model",
                     "server ids enter the model as N; the driver uses 20-byte big-endian ids so bytes order = numeric order (sorted(), PriorityQueue ties)"],
    "assumptions": ["precondition: writable and read-only sets disjoint, >= 1 writable server, existing shares only on listed servers and only share numbers being placed (upload.py: shares = range(total_shares))"],
}

IMPORTS = ["Model.Matching", "Model.Placement"]
PREAMBLE = """
Definition pairN_eqb (a b : N * N) := N.eqb (fst a) (fst b) && N.eqb (snd a) (snd b).
Definition same_map (a b : list (N * N)) : bool :=
  Nat.eqb (List.length a) (List.length b) && forallb (fun e => existsb (pairN_eqb e) b) a.
Definition cst (l : list N) : list N -> list N := fun _ => l.
Definition held_tbl (t : list (N * list N)) : N -> list N -> list N :=
  fun p _ => match lookupN p t with Some l => l | None => [] end.
Definition chk_place (os : orders) (peers ro shares : list N) (p2s : smap) (res : list (N * N)) : bool :=
  match share_placement os peers ro shares p2s with Some r => same_map r res | None => false end.
"""


def pid(i):
    return i.to_bytes(20, "big")


def num(b):
    return int.from_bytes(b, "big")


# ---- independent oracle ---------------------------------------------------------
def kuhn(adj):
    match_r = {}

    def try_(u, seen):
        for v in adj[u]:
            if v in seen:
                continue
            seen.add(v)
            if v not in match_r or try_(match_r[v], seen):
                match_r[v] = u
                return True
        return False

    n = 0
    for u in adj:
        if try_(u, set()):
            n += 1
    return n


def judge(peers, ro, shares, p2s, res):
    """The three clauses of the property on the returned dict.  peers/ro: lists of ids;
    p2s: id -> set.  Returns list of (kind, what, expected, observed)."""
    bad = []
    shares = set(shares)
    missing = sorted(shares - set(res))
    if missing:
        bad.append(("share-not-placed", "share numbers %r are not assigned to any server" % (missing,), sorted(shares), sorted(res)))
    known = set(peers) | set(ro)
    for sh, p in sorted(res.items()):
        if p not in known:
            bad.append(("share-placed-on-unknown-server", "share %r is assigned to %r which is neither a writable nor a read-only server" % (sh, p),
                        None, repr(p)))
            break
    for sh, p in sorted(res.items()):
        if p in ro and sh not in p2s.get(p, ()):
            bad.append(("readonly-server-assigned-share-it-does-not-hold",
                        "read-only server %r is assigned share %r but holds only %r" % (p, sh, sorted(p2s.get(p, ()))),
                        sorted(p2s.get(p, ())), sh))
            break
    adj = {("w", p): sorted(shares) for p in peers}
    for r in ro:
        adj[("r", r)] = sorted(set(p2s.get(r, ())) & shares)
    want = kuhn(adj)
    got = len(set(res.values()))
    if got != want:
        bad.append(("placement-not-maximal", "placement uses %d distinct servers, %d are reachable under the read-only constraint" % (got, want),
                    want, got))
    return bad


# ---- observing the iteration order of the function's internal sets ---------------
class OrderTrace(object):
    def __init__(self):
        self.phases = []
        self.homeless = None
        self.todist = None
        self.rr = None

    def __call__(self, frame, event, arg):
        name = frame.f_code.co_name
        if event == "call":
            if name == "_calculate_mappings":
                loc = frame.f_locals
                sm = loc.get("servermap")
                self.phases.append((list(loc["peers"]), list(loc["shares"]),
                                    {k: list(v) for k, v in sm.items()} if sm else {}))
            elif name == "round_robin" and self.rr is None:
                self.rr = list(frame.f_locals["peers"])
        elif event == "return" and name == "_distribute_homeless_shares":
            loc = frame.f_locals
            self.homeless = list(loc["homeless_shares"])
            self.todist = list(loc.get("to_distribute", ()))


def traced_placement(H, peers, ro, shares, p2s):
    tr = OrderTrace()
    sys.setprofile(tr)
    try:
        res = H.share_placement(peers, ro, shares, p2s)
    finally:
        sys.setprofile(None)
    return res, tr


def t_l(xs, conv=lambda x: x):
    return T.lst([T.N(conv(x)) for x in xs])


def t_orders(tr, conv):
    ph = []
    for i in range(3):
        if i < len(tr.phases):
            pl, sl, held = tr.phases[i]
        else:
            pl, sl, held = [], [], {}
        tbl = T.lst([T.pair(T.N(conv(k)), t_l(v)) for k, v in held.items()])
        ph.append("{| po_peers := cst %s; po_shares := cst %s; po_held := held_tbl %s |}" % (t_l(pl, conv), t_l(sl), tbl))
    return ("{| o_ro := %s; o_ex := %s; o_new := %s; o_homeless := cst %s; o_todist := cst %s; o_rr := cst %s |}"
            % (ph[0], ph[1], ph[2], t_l(tr.homeless or []), t_l(tr.todist or []), t_l(tr.rr or [], conv)))


def case_dict(peers, ro, shares, p2s):
    return {"writable": sorted(peers), "readonly": sorted(ro), "shares": sorted(shares),
            "existing": {str(k): sorted(v) for k, v in sorted(p2s.items())}}


class Batch(object):
    def __init__(self, ctx):
        self.ctx = ctx
        self.terms = []
        self.info = []
        self.shown = 0

    def add(self, a, b, case):
        self.terms.append("(%s) && (%s)" % (a, b))
        self.info.append((a, b, case))

    def flush(self, tag):
        ctx = self.ctx
        bad = ctx.coq_check(IMPORTS, self.terms, preamble=PREAMBLE, tag=tag)
        if bad:
            parts = []
            for ix in bad:
                parts += [self.info[ix][0], self.info[ix][1]]
            bad2 = set(ctx.coq_check(IMPORTS, parts, preamble=PREAMBLE, tag=tag + "-split"))
            for j, ix in enumerate(bad):
                case = self.info[ix][2]
                if 2 * j in bad2:
                    model = "(model result shown for the first disagreements only)"
                    if self.shown < 2:
                        self.shown += 1
                        model = ctx.coq_eval(IMPORTS, self.info[ix][0].replace("chk_place", "share_placement").rsplit("[", 1)[0], preamble=PREAMBLE)
                    ctx.mismatch("placement-model-vs-impl", "Coq model of share_placement and the implementation return different placements",
                                 case=case, expected=model[-600:], observed=case.get("result"), correspondence="share_placement-vs-model")
                if 2 * j + 1 in bad2:
                    ctx.mismatch("certificate-rejected", "the validator rejects the placement/cover certificate computed by the model "
                                 "(hypothesis of the _partial theorems fails on this input)", case=case,
                                 correspondence="certificate-accepted-on-every-case")
        ctx.trace(len(self.terms) - len(bad))
        self.terms, self.info = [], []


def one_case(ctx, batch, peers, ro, shares, p2s, kind, model=True, selector=False):
    """peers, ro: lists of ints; shares: list of ints; p2s: int -> set(int)."""
    from allmydata.immutable import happiness_upload as H
    P = set(pid(p) for p in peers)
    R = set(pid(p) for p in ro)
    S = set(shares)
    D = {pid(k): set(v) for k, v in p2s.items()}
    case = case_dict(peers, ro, shares, p2s)
    ctx.case((tuple(sorted(peers)), tuple(sorted(ro)), tuple(sorted(shares)), tuple(sorted((k, tuple(sorted(v))) for k, v in p2s.items())))
             if shares else None, kind=kind)
    try:
        if model:
            res, tr = traced_placement(H, P, R, S, D)
        else:
            res, tr = H.share_placement(P, R, S, D), None
    except Exception as e:
        ctx.oracle_fail("placement-raises", "share_placement raised %s: %s" % (type(e).__name__, e), case=case, observed=type(e).__name__)
        return None
    nres = {sh: (num(p) if isinstance(p, bytes) else repr(p)) for sh, p in res.items()}
    case["result"] = {str(k): v for k, v in sorted(nres.items())}
    for kind_, what, exp, obs in judge(set(peers), set(ro), shares, {k: set(v) for k, v in p2s.items()}, nres):
        ctx.oracle_fail(kind_, what, case=case, expected=exp, observed=obs)
    if D != {pid(k): set(v) for k, v in p2s.items()} or P != set(pid(p) for p in peers) or S != set(shares):
        ctx.oracle_fail("placement-mutates-arguments", "share_placement modified its arguments", case=case)
    if model and all(isinstance(v, int) for v in nres.values()):
        os_ = t_orders(tr, num)
        args = "%s %s %s %s %s" % (os_, t_l(sorted(peers)), t_l(sorted(ro)), t_l(sorted(shares)),
                                   T.lst([T.pair(T.N(k), t_l(sorted(v))) for k, v in p2s.items()]))
        a = "chk_place %s %s" % (args, T.lst([T.pair(T.N(sh), T.N(p)) for sh, p in sorted(nres.items())]))
        b = "placement_certified %s" % args
        batch.add(a, b, case)
    if selector:
        via_selector(ctx, peers, ro, shares, p2s, nres, case)
    return nres


def via_selector(ctx, peers, ro, shares, p2s, direct, case):
    """The caller: upload.PeerSelector.get_share_placements (shares = range(total))."""
    from allmydata.immutable.upload import PeerSelector
    total = len(shares)
    if sorted(shares) != list(range(total)):
        return
    ps = PeerSelector(1, total, 1, 1)
    for p in sorted(set(peers) | set(ro)):
        ps.add_peer(pid(p))
    for p in sorted(ro):
        ps.mark_readonly_peer(pid(p))
    for p, shs in sorted(p2s.items()):
        for s in sorted(shs):
            ps.add_peer_with_share(pid(p), s)
    got = ps.get_share_placements()
    nres = {sh: num(p) for sh, p in got.items()}
    ctx.count("via-PeerSelector")
    bad = judge(set(peers), set(ro), shares, {k: set(v) for k, v in p2s.items()}, nres)
    for kind_, what, exp, obs in bad:
        ctx.oracle_fail(kind_, "PeerSelector.get_share_placements: " + what, case=case, expected=exp, observed=obs)
    if ps.happiness != len(set(nres.values())):
        ctx.oracle_fail("selector-happiness-miscounted", "PeerSelector.happiness = %r but the placement uses %d distinct servers"
                        % (ps.happiness, len(set(nres.values()))), case=case)


# ---- exhaustive enumeration (oracle on the real function), sharded ------------------
def layouts(ns, nh, romask, lo, hi):
    peers = [p for p in range(ns) if not romask >> p & 1]
    ro = [p for p in range(ns) if romask >> p & 1]
    for rel in range(lo, hi):
        p2s = {}
        for p in range(ns):
            s = {sh for sh in range(nh) if rel >> (p * nh + sh) & 1}
            if s:
                p2s[p] = s
        yield peers, ro, p2s


def _shard(job):
    from allmydata.immutable import happiness_upload as H
    ns, nh, romask, lo, hi = job
    shares = list(range(nh))
    ids = [pid(p) for p in range(ns)]
    cnt = collections.Counter()
    first = {}
    n = 0
    for peers, ro, p2s in layouts(ns, nh, romask, lo, hi):
        n += 1
        try:
            res = H.share_placement(set(ids[p] for p in peers), set(ids[p] for p in ro), set(shares),
                                    {ids[k]: set(v) for k, v in p2s.items()})
            nres = {sh: (num(p) if isinstance(p, bytes) else repr(p)) for sh, p in res.items()}
            bad = judge(set(peers), set(ro), shares, p2s, nres)
        except Exception as e:
            nres = None
            bad = [("placement-raises", "share_placement raised %s: %s" % (type(e).__name__, e), None, type(e).__name__)]
        for b in bad:
            cnt[b[0]] += 1
            if b[0] not in first:
                c = case_dict(peers, ro, shares, p2s)
                c["result"] = nres
                first[b[0]] = (b, c)
    return n, cnt, first


def exhaustive(ctx, max_s, max_h, procs=16):
    jobs = []
    for ns in range(1, max_s + 1):
        for nh in range(0, max_h + 1):
            for romask in range(2 ** ns - 1):     # at least one writable server
                tot = 2 ** (ns * nh)
                step = 1 << 13
                for lo in range(0, tot, step):
                    jobs.append((ns, nh, romask, lo, min(tot, lo + step)))
    jobs.sort(key=lambda j: -(j[4] - j[3]))
    total = 0
    cnt = collections.Counter()
    first = {}
    mp = multiprocessing.get_context("fork")
    with mp.Pool(procs) as pool:
        for n, c, f in pool.imap_unordered(_shard, jobs, chunksize=2):
            total += n
            cnt.update(c)
            for k, v in f.items():
                first.setdefault(k, v)
    for k, (b, case) in sorted(first.items()):
        ctx.oracle_fail(b[0], b[1] + "  (%d layouts of the exhaustive scope fail this way)" % cnt[k], case=case, expected=b[2], observed=b[3])
    return total, cnt


class _Bulk(set):
    """ctx._nontrivial with an extra count for enumerations too large to hash one by
    one (every enumerated layout is distinct by construction)."""
    extra = 0

    def __len__(self):
        return set.__len__(self) + self.extra


def random_layout(r, big):
    if big:
        ns = r.choice([5, 6, 8, 10, 13, 20, 20])
        nh = r.choice([6, 7, 10, 10, 16, 30, 30])
    else:
        ns = r.randrange(1, 5)
        nh = r.randrange(0, 6)
    nro = r.choice([0, 0, 1, ns // 2, ns - 1, r.randrange(0, ns)])
    nro = max(0, min(ns - 1, nro))
    servers = list(range(ns)) if r.random() < 0.5 else r.sample(range(0, 200), ns)
    r.shuffle(servers)
    ro = servers[:nro]
    peers = servers[nro:]
    shares = list(range(nh))
    style = r.choice(["none", "sparse", "ro-heavy", "dense", "tight", "full-copy"])
    p2s = {}
    if style == "sparse":
        for _ in range(r.randrange(0, ns + 2)):
            if nh:
                p2s.setdefault(r.choice(servers), set()).add(r.randrange(nh))
    elif style == "ro-heavy":      # read-only servers compete for few shares; writable hold the same ones
        few = list(range(max(1, nh // 3)))
        for p in ro:
            if nh:
                p2s[p] = set(r.sample(few, r.randrange(1, len(few) + 1)))
        for p in peers:
            if nh and r.random() < 0.6:
                p2s[p] = set(r.sample(few, r.randrange(1, len(few) + 1)))
    elif style == "dense":
        for p in servers:
            s = {sh for sh in shares if r.random() < 0.5}
            if s:
                p2s[p] = s
    elif style == "tight":         # every server holds exactly one share, many collisions
        for p in servers:
            if nh:
                p2s[p] = {r.randrange(max(1, nh // 2))}
    elif style == "full-copy":     # one server holds everything (repair after a single-server upload)
        if nh:
            p2s[r.choice(servers)] = set(shares)
            for p in ro:
                if r.random() < 0.5:
                    p2s.setdefault(p, set()).add(r.randrange(nh))
    # dict insertion order of the existing-share map is part of the input
    items = list(p2s.items())
    r.shuffle(items)
    return peers, ro, shares, dict(items), style


def run(ctx):
    ctx.correspondence("share_placement-vs-model")
    ctx.correspondence("certificate-accepted-on-every-case")
    batch = Batch(ctx)
    t0 = time.time()

    # corpus: the two defects fixed for C07 and the docs example
    fixed = [
        ([2], [0, 1], [0], {1: {0}}),                              # read-only 0 must not get share 0
        ([1, 2], [0], [0, 1, 2], {0: {0}, 1: {1, 2}, 2: {0}}),     # 3 servers reachable
        ([0, 1, 2, 3], [], list(range(4)), {0: {0, 1, 2, 3}}),
        ([1], [], [0, 1, 2, 3], {}),
        ([3], [0, 1, 2], [0, 1, 2], {0: {0}, 1: {0}, 2: {0, 1}}),
    ]
    for i, (p, r, s, d) in enumerate(fixed):
        res = one_case(ctx, batch, p, r, s, d, "corpus", selector=True)
        if i < 3:
            ctx.sample(dict(case_dict(p, r, s, d), result=res))

    # every layout <= 3 servers x <= 3 shares: model vs function (+ oracle)
    n_small = 0
    for ns in range(1, 4):
        for nh in range(0, 4):
            for romask in range(2 ** ns - 1):
                for peers, ro, p2s in layouts(ns, nh, romask, 0, 2 ** (ns * nh)):
                    one_case(ctx, batch, peers, ro, list(range(nh)), p2s, "all-%dx%d" % (ns, nh), selector=(n_small % 7 == 0))
                    n_small += 1
    batch.flush("c07small")
    ctx.note("model vs function on all %d layouts with <= 3 servers and <= 3 shares" % n_small)

    # seeded samples of the 4 x 5 scope and beyond, model vs function
    for i in range(ctx.n(700, 12000)):
        r = ctx.rng("mid", i)
        ns, nh = r.choice([(4, 4), (4, 5), (3, 5), (3, 4), (4, 3)])
        romask = r.randrange(2 ** ns - 1)
        dens = r.choice([0.15, 0.3, 0.5, 0.8])
        rel = 0
        for b in range(ns * nh):
            if r.random() < dens:
                rel |= 1 << b
        for peers, ro, p2s in layouts(ns, nh, romask, rel, rel + 1):
            one_case(ctx, batch, peers, ro, list(range(nh)), p2s, "sample-%dx%d" % (ns, nh), selector=(i % 5 == 0))
        if len(batch.terms) >= 4000:
            batch.flush("c07mid")
    batch.flush("c07mid")
    for i in range(ctx.n(260, 2500)):
        r = ctx.rng("big", i)
        peers, ro, shares, p2s, style = random_layout(r, big=True)
        res = one_case(ctx, batch, peers, ro, shares, p2s, "random-" + style, model=(i % 2 == 0) or ctx.tier != "quick", selector=(i % 3 == 0))
        if i < 1:
            ctx.sample(dict(case_dict(peers, ro, shares, p2s), result=res))
        if len(batch.terms) >= 1500:
            batch.flush("c07big")
    batch.flush("c07big")

    # exhaustive scope of the property on the real function
    if ctx.tier == "thorough":
        ms, mh = 4, 5
    elif ctx.search:
        ms, mh = 4, 4          # search after a broken obligation in the quick tier: 1.3 M layouts
    else:
        ms, mh = 3, 4
    procs = min(16, os.cpu_count() or 4)
    total, cnt = exhaustive(ctx, ms, mh, procs)
    ctx.evaluations += total
    ctx.count("kind:exhaustive-oracle-le-%dx%d" % (ms, mh), total)
    if not isinstance(ctx._nontrivial, _Bulk):
        ctx._nontrivial = _Bulk(ctx._nontrivial)
    # layouts with >= 1 share; those <= 3x3 were already counted one by one above
    nontriv = 0
    for ns in range(1, ms + 1):
        for nh in range(1, mh + 1):
            if ns <= 3 and nh <= 3:
                continue
            nontriv += (2 ** ns - 1) * 2 ** (ns * nh)
    ctx._nontrivial.extra += nontriv
    ctx.note("exhaustive oracle on the real function: %d layouts with <= %d servers and <= %d shares, %d processes, failures %r; "
             "total driver time %.0fs" % (total, ms, mh, procs, dict(cnt), time.time() - t0))


def replay(ctx, rec):
    from allmydata.immutable import happiness_upload as H
    case = rec.get("case") or {}
    if "writable" not in case:
        return {"note": "record has no layout"}
    peers, ro, shares = case["writable"], case["readonly"], case["shares"]
    p2s = {int(k): set(v) for k, v in case["existing"].items()}
    batch = Batch(ctx)
    res = one_case(ctx, batch, peers, ro, shares, p2s, "replay")
    out = {"implementation": res}
    if batch.terms:
        a = batch.info[0][0]
        out["model"] = ctx.coq_eval(IMPORTS, a.replace("chk_place", "share_placement").rsplit("[", 1)[0], preamble=PREAMBLE)
    return out
