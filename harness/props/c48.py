"""C48  Configuration values parse to their documented meaning."""
import datetime
from fractions import Fraction

from core import term as T

ID = "C48"
GEN = ["config"]
RULE = ("cases: (parser, string) and (printer, size, SI); streams: every documented unit/suffix spelling x numbers (0, 1, "
        "documentation examples, powers of ten, leading zeros, 4300/4301 digits) x whitespace x letter case; calendar days "
        "around month ends, leap and century years, years 1 and 9999; a separate malformed stream (single-character edits of "
        "valid strings with ASCII and non-ASCII look-alikes, signs, fractions, underscores, trailing text, impossible days); "
        "every date case again under non-UTC local timezones (TZ + time.tzset: US Eastern, Japan, New Zealand; thorough adds India, US Pacific), directly and through tahoe.cfg; print-then-parse for the sizes 0..129 and 990..1039 (thorough: all of 0..4199), the 1000^k / 1024^k boundaries, rounding ties and random sizes up to 2^90. "
        "distinct = distinct (parser, string) or (size, SI); non-trivial = the parser accepts the string / the size is printed")
META = {
    "title": "Configuration values parse to their documented meaning",
    "level_text": ("Theorems in Coq over a model of parse_duration, parse_date, parse_abbreviated_size and abbreviate_space whose unit "
                   "and multiplier tables are regenerated from the source on every run: every documented spelling (any number, any "
                   "whitespace, any letter case) yields the documented seconds / bytes / UTC-midnight timestamp; the accepted language "
                   "is exactly the documented grammar and everything else is ValueError (never KeyError); print-then-parse returns the "
                   "same value exactly for sizes below 1024 and is rejected for every larger size (stated and proved both ways).  The "
                   "model is run against the real functions, and the real functions against an independent reference of the documented grammar."),
    "level_note": ("Trusted: the translator (tables, regex strings, AST pins of the six function bodies), the hand-written reading of the "
                   "three pinned regexes and of int() on ASCII digit strings (4300-digit limit of CPython included), the binary64 model of "
                   "'%.2f' % (s/U) (validated against the interpreter on every run, not proved against IEEE-754).  The client.py call "
                   "site is exercised by the correspondence only (tahoe.cfg text -> _Client.get_anonymous_storage_server -> the values a real, never started StorageServer and its LeaseCheckingCrawler hold)."),
    "technique": "Coq proof (accepted language = documented grammar, all strings) over tables regenerated from source + differential run vs implementation and an independent grammar reference",
    "design_ref": "8/C48",
    "trusted_base": ["translator harness/translate/config.py (tables, regexes, AST pins)",
                     "binary64 / '%.2f' model in Model/Config.v validated against the interpreter"],
    "assumptions": ["spec_duration_units / spec_multiplier / spec_utc_midnight in Model/Config.v transcribe docs/garbage-collection.rst, "
                    "docs/configuration.rst, the parse_duration docstring and the month = 31 days, year = 365 days convention of test_time_format.py",
                    "tahoe.cfg values reach the parsers as Python str (configparser strips surrounding whitespace)"],
}

IMPORTS = ["Lib.Hex", "Model.Config"]
PREAMBLE = """
Definition presN_eqb (a b : presult N) : bool :=
  match a, b with POk x, POk y => (x =? y)%N | PValueError, PValueError => true | PKeyError, PKeyError => true | _, _ => false end.
Definition presZ_eqb (a b : presult Z) : bool :=
  match a, b with POk x, POk y => (x =? y)%Z | PValueError, PValueError => true | PKeyError, PKeyError => true | _, _ => false end.
Definition size_eqb (a b : size_result) : bool :=
  match a, b with SzNone, SzNone => true | SzOk x, SzOk y => (x =? y)%N | SzValueError, SzValueError => true
  | SzKeyError, SzKeyError => true | _, _ => false end.
"""

WS = " \t\n\r\x0b\x0c"
DIGITS = "0123456789"
MAXD = 4300

# ---- the documented meaning, written from the documentation (independent of the source) ----
DAY = 24 * 60 * 60
DOC_UNITS = {"s": 1, "second": 1, "seconds": 1, "day": DAY, "days": DAY,
             "mo": 31 * DAY, "month": 31 * DAY, "months": 31 * DAY, "year": 365 * DAY, "years": 365 * DAY}
DOC_SCALES = {"": 0, "K": 1, "M": 2, "G": 3, "T": 4, "P": 5, "E": 6}
DOC_SUFFIXES = {}
for _sc, _k in DOC_SCALES.items():
    for _i in ("", "I"):
        for _b in ("", "B"):
            DOC_SUFFIXES[_sc + _i + _b] = (1024 if _i else 1000) ** _k if _sc else 1


def ascii_lower(s):
    return "".join(chr(ord(c) + 32) if "A" <= c <= "Z" else c for c in s)


def ascii_upper(s):
    return "".join(chr(ord(c) - 32) if "a" <= c <= "z" else c for c in s)


def _number(t):
    i = 0
    while i < len(t) and t[i] in DIGITS:
        i += 1
    if i == 0 or i > MAXD:
        return None, t
    return t[:i], t[i:]


def ref_duration(s):
    """documented grammar: ws* number ws* unit ws*  ->  seconds, else None"""
    num, rest = _number(s.lstrip(WS))
    if num is None:
        return None
    unit = ascii_lower(rest.strip(WS))
    if unit not in DOC_UNITS:
        return None
    return int(num) * DOC_UNITS[unit]


def ref_size(s):
    """documented grammar: number ws* [KMGTPE]?i?B?  ->  bytes; "" -> "unset"; else None"""
    if s == "":
        return "unset"
    num, rest = _number(s)
    if num is None:
        return None
    sfx = ascii_upper(rest.lstrip(WS))
    if sfx not in DOC_SUFFIXES:
        return None
    return int(num) * DOC_SUFFIXES[sfx]


def days_from_civil(y, m, d):
    """days since 1970-01-01 in the proleptic Gregorian calendar (era arithmetic, no datetime)"""
    y -= m <= 2
    era = (y if y >= 0 else y - 399) // 400
    yoe = y - era * 400
    doy = (153 * (m + (-3 if m > 2 else 9)) + 2) // 5 + d - 1
    doe = yoe * 365 + yoe // 4 - yoe // 100 + doy
    return era * 146097 + doe - 719468


def month_len(y, m):
    if m == 2:
        return 29 if (y % 4 == 0 and (y % 100 != 0 or y % 400 == 0)) else 28
    return 30 if m in (4, 6, 9, 11) else 31


def ref_date(s):
    """YYYY-MM-DD naming a calendar day, years 0001..9999 -> UTC midnight timestamp, else None"""
    if len(s) != 10 or s[4] != "-" or s[7] != "-":
        return None
    f = s[:4] + s[5:7] + s[8:]
    if any(c not in DIGITS for c in f):
        return None
    y, m, d = int(s[:4]), int(s[5:7]), int(s[8:])
    if not (1 <= y and 1 <= m <= 12 and 1 <= d <= month_len(y, m)):
        return None
    return days_from_civil(y, m, d) * 86400


# ---- rendering ----
def cps(s):
    if all(ord(c) < 128 for c in s):
        return T.bytes_(s.encode("ascii"))
    return "[" + "; ".join("%d" % ord(c) for c in s) + "]"


def show(s):
    return s if len(s) <= 80 else s[:40] + "...(%d chars)..." % len(s) + s[-20:]


def call(f, *a):
    try:
        return ("ok", f(*a))
    except ValueError:
        return ("ValueError",)
    except KeyError:
        return ("KeyError",)
    except Exception as e:   # any other exception class is itself an observation
        return ("exc:" + type(e).__name__,)


def big(n):
    """Coq numeral of a natural number; str(int) refuses more than 4300 digits, hex() does not."""
    return T.N(n) if n < 10 ** 4000 else "0x%x%%N" % n


def num(n):
    """for messages"""
    if isinstance(n, int) and abs(n) >= 10 ** 60:
        return "0x%x" % n
    return repr(n)


def coq_pres(r, z=False):
    if r[0] == "ok":
        return "(POk %s)" % (T.Z(r[1]) if z else big(r[1]))
    return {"ValueError": "PValueError", "KeyError": "PKeyError"}.get(r[0], "PKeyError")


def coq_size(r):
    if r[0] == "ok":
        return "SzNone" if r[1] is None else "(SzOk %s)" % big(r[1])
    return {"ValueError": "SzValueError", "KeyError": "SzKeyError"}.get(r[0], "SzKeyError")


# ---- generators ----
NUMBERS = ["0", "1", "2", "3", "7", "12", "31", "60", "100", "365", "1024", "100000", "1048576", "100000000", "007", "0000", "00012",
           "9" * 19, "18446744073709551616", "1" + "0" * 30]
WSPACE = ["", "", "", " ", " ", "  ", "\t", "\n", " \t\r\n\x0b\x0c"]
LOOKALIKE = ["\u017f", "\u212a", "\u0131", "\u0130", "\u0663", "\uff13", "\xa0", "\u2003", "\u3000", "\x1c", "\x85", "\xb2", "\u0661\u0660"]
EDIT_CHARS = list(" \t\n-+_.,:/xXsSkKiIbB0159eEdDmMyY") + LOOKALIKE


def casing(r, w):
    k = r.randrange(4)
    if k == 0:
        return w
    if k == 1:
        return w.upper()
    if k == 2:
        return w.capitalize()
    return "".join(c.upper() if r.random() < 0.5 else c.lower() for c in w)


def number(r):
    k = r.randrange(10)
    if k < 5:
        return r.choice(NUMBERS)
    if k < 8:
        return str(r.randrange(10 ** r.randrange(1, 12)))
    return "0" * r.randrange(3) + str(r.getrandbits(r.choice([8, 31, 32, 63, 64, 65, 128])))


def edit(r, s):
    """one or two character-level edits"""
    for _ in range(r.choice([1, 1, 1, 2])):
        k = r.randrange(4)
        i = r.randrange(len(s) + 1)
        if k == 0 or not s:
            s = s[:i] + r.choice(EDIT_CHARS) + s[i:]
        elif k == 1:
            i = min(i, len(s) - 1)
            s = s[:i] + s[i + 1:]
        elif k == 2:
            i = min(i, len(s) - 1)
            s = s[:i] + r.choice(EDIT_CHARS) + s[i + 1:]
        else:
            i = min(i, len(s) - 1)
            s = s[:i] + s[i] + s[i:]
    return s


def gen_duration(r, malformed):
    unit = r.choice(sorted(DOC_UNITS))
    s = r.choice(WSPACE) + number(r) + r.choice(WSPACE) + casing(r, unit) + r.choice(WSPACE)
    if malformed:
        k = r.randrange(10)
        if k < 6:
            s = edit(r, s)
        elif k == 6:
            s = r.choice(["", "123", "s", "days", "2kumquats", "3 D A Y S", "3 day s", "0x10s", "1_0s", "+3s", "-3s", "3.5s", "3mos", "5 \u017f",
                          "5 \u017feconds", "5 \u212a", "\u0663days", "3\u00a0days", "3\x1cs", "1e3s", "3 weeks", "3w", "3h", "3 minutes", "3 mon", "3 yr"])
        elif k == 7:
            s = number(r) + r.choice(WSPACE) + r.choice(["d", "m", "y", "sec", "secs", "dayz", "monthes", "yearss", "K", "MB", "week", "hour"])
        elif k == 8:
            s = "".join(r.choice(EDIT_CHARS) for _ in range(r.randrange(1, 8)))
        else:
            s = casing(r, unit) + r.choice(WSPACE) + number(r)
    return s


def gen_size(r, malformed):
    sfx = r.choice(sorted(DOC_SUFFIXES))
    s = number(r) + r.choice(WSPACE) + casing(r, sfx)
    if malformed:
        k = r.randrange(10)
        if k < 6:
            s = edit(r, s)
        elif k == 6:
            s = r.choice(["12 cubits", "1 BB", "fhtagn", " 1K", "1K ", "1K\n", "100mb\n", "1k\u0131b", "\u0661\u0660\u0660", "100\u00a0M", "1KIBB", "1_0",
                          "+1", "-1", "1.5G", "1.02 kB", "976.56 kiB", "1e3", "0x10", "1 K B", "1KK", "1BI", "1IK", "1\u212a", "K", "B", "1Ki B"])
        elif k == 7:
            s = number(r) + r.choice(WSPACE) + r.choice(["KB ", "kbs", "MBB", "iK", "Bi", "Z", "Y", "KiBi", "bytes", "b/s", "k\u0131b", "\u212a"])
        elif k == 8:
            s = "".join(r.choice(EDIT_CHARS) for _ in range(r.randrange(1, 8)))
        else:
            s = casing(r, sfx) + number(r)
    return s


YEARS = [1, 2, 4, 100, 400, 1582, 1600, 1700, 1800, 1899, 1900, 1901, 1904, 1968, 1969, 1970, 1971, 1972, 1999, 2000, 2001, 2004, 2007, 2008, 2009,
         2010, 2024, 2037, 2038, 2039, 2100, 2400, 9996, 9998, 9999]


def gen_date(r, malformed):
    y = r.choice(YEARS) if r.random() < 0.7 else r.randrange(1, 10000)
    m = r.randrange(1, 13)
    ml = month_len(y, m)
    d = r.choice([1, 2, 15, 27, 28, ml - 1, ml, ml]) if r.random() < 0.8 else r.randrange(1, ml + 1)
    d = max(1, min(d, ml))
    if r.random() < 0.25:
        m, d = 2, r.choice([28, month_len(y, 2)])
    s = "%04d-%02d-%02d" % (y, m, d)
    if malformed:
        k = r.randrange(10)
        if k < 3:
            s = edit(r, s)
        elif k < 6:      # impossible days and months
            mm, dd = r.choice([(m, ml + 1), (m, 0), (m, 31), (m, 32), (m, 99), (0, d), (13, d), (2, 29), (2, 30), (2, 31), (4, 31), (6, 31), (9, 31), (11, 31), (0, 0)])
            s = "%04d-%02d-%02d" % (r.choice([y, 1900, 2100, 2009, 2001, 0]), mm, dd)
        elif k == 6:
            s = r.choice(["", "0000-01-01", "0000-00-00", "2009-1-16", "09-01-16", "20090116", "2009/01/16", "2009-01-16 ", " 2009-01-16", "2009-01-16\n",
                          "2009-01-16 10:20:30", "2009-01-16T10:20:30", "2009-01-16T00:00:00", "2009-01-16xyz", "2009-01-16T10:20:30.9", "2009-01-1\u0666",
                          "\u0662\u0660\u0660\u0669-01-16", "\uff12\uff10\uff10\uff19-01-16", "2009-01-16Z", "+009-01-16", "2009-+1-16", "2009-01--6", "2_09-01-16", "10000-01-01"])
        elif k == 7:
            s = s + r.choice([" ", "\n", "T", "T00:00:00", " 00:00:00", " 10:20:30", "x", "0", "-01"])
        elif k == 8:
            s = r.choice([" ", "\t", "x", "0", "-"]) + s
        else:
            s = "%d-%d-%d" % (y, m, d)
    return s


def big_number_cases(full):
    """numbers around CPython's 4300-digit limit of int(); evaluating a 4300-digit number in Coq costs seconds, so the quick tier takes four"""
    out = []
    for n in ((MAXD - 1, MAXD, MAXD + 1, MAXD + 200) if full else (MAXD, MAXD + 1)):
        ds = "1" + "0" * (n - 1)
        out.append(("duration", " " + "0" * n + " days "))
        out.append(("size", "0" * (n - 1) + "7 MiB"))
        if full:
            out.append(("duration", ds + "s"))
            out.append(("size", ds + "K"))
    return out


# ---- evaluation of one parser case ----
def judge(ctx, fn, s, impl, terms, info):
    if fn == "duration":
        got = call(impl["duration"], s)
        want = ref_duration(s)
        terms.append("presN_eqb (parse_duration %s) %s" % (cps(s), coq_pres(got)))
    elif fn == "size":
        got = call(impl["size"], s)
        want = ref_size(s)
        terms.append("size_eqb (parse_abbreviated_size %s) %s" % (cps(s), coq_size(got)))
    else:
        got = call(impl["date"], s)
        want = ref_date(s)
        terms.append("presZ_eqb (parse_date %s) %s" % (cps(s), coq_pres(got, z=True)))
    info.append((fn, s, got if got[0] != "ok" else ("ok", num(got[1]))))
    case = {"fn": fn, "input": s, "codepoints": [ord(c) for c in s] if len(s) <= 64 else "(%d chars)" % len(s)}
    accepted = got[0] == "ok" and not (fn == "size" and got[1] is None)
    ctx.case((fn, s) if accepted else None, kind=fn + ("-accepted" if accepted else "-rejected"))
    if want == "unset":
        if got != ("ok", None):
            ctx.oracle_fail("size-empty-not-unset", "parse_abbreviated_size('') must be None (setting absent), got %r" % (got,), case=case, expected=None, observed=got)
        return
    if want is not None:
        if got[0] != "ok":
            ctx.oracle_fail("%s-documented-spelling-rejected" % fn, "parse_%s(%r) raised %s; the documentation gives it the value %s" % (fn, show(s), got[0], num(want)),
                            case=case, expected=num(want), observed=got)
        elif got[1] != want:
            ctx.oracle_fail("%s-documented-spelling-wrong-value" % fn, "parse_%s(%r) = %s; the documented meaning is %s" % (fn, show(s), num(got[1]), num(want)),
                            case=case, expected=num(want), observed=num(got[1]))
        elif fn == "date":
            dt = datetime.datetime(1970, 1, 1) + datetime.timedelta(seconds=got[1])
            if (dt.hour, dt.minute, dt.second) != (0, 0, 0) or "%04d-%02d-%02d" % (dt.year, dt.month, dt.day) != s:
                ctx.oracle_fail("date-not-utc-midnight-of-the-day", "parse_date(%r) = %d which is %s UTC" % (s, got[1], dt.isoformat()), case=case, expected=s, observed=dt.isoformat())
    else:
        if got[0] == "ok":
            ctx.oracle_fail("%s-accepts-undocumented-string" % fn, "parse_%s(%r) = %s although the string is outside the documented grammar" % (fn, show(s), num(got[1])),
                            case=case, expected="ValueError", observed=num(got[1]))
        elif got[0] != "ValueError":
            ctx.oracle_fail("%s-malformed-raises-%s" % (fn, got[0].replace("exc:", "")), "parse_%s(%r) raised %s instead of ValueError" % (fn, show(s), got[0]),
                            case=case, expected="ValueError", observed=got[0])


def impls():
    from allmydata.util import abbreviate, time_format
    return {"duration": time_format.parse_duration, "date": time_format.parse_date,
            "size": abbreviate.parse_abbreviated_size, "space": abbreviate.abbreviate_space}


def run(ctx):
    impl = impls()
    ctx.correspondence("parsers-vs-model")
    ctx.correspondence("abbreviate_space-vs-model")
    ctx.correspondence("client-call-site")
    ctx.correspondence("date-under-local-timezones")
    terms, info = [], []

    # corpus of fixed strings: the documentation's own examples and the published test answers
    fixed = [("duration", s) for s in ["7days", "31day", "60 days", "2mo", "3 month", "12 months", "2years", "1s", "12 s", "333second", " 333 second ",
                                       "60 SECONDS", "4 mo", "8 year", "11YEARS", "123", "2kumquats", "5 \u017f", "\u0663days", "3days\n"]]
    fixed += [("size", s) for s in ["100MB", "100 M", "100000000B", "100000000", "100000kb", "1MiB", "1024KiB", "1024 Ki", "1048576 B", "", "1G", "123", "123B",
                                    "2K", "2kb", "2KiB", "9EiB", "1I", "1iB", "12 cubits", "1 BB", "fhtagn", "1K\n", "1k\u0131b", "\u0661\u0660\u0660"]]
    fixed += [("date", s) for s in ["2009-01-16", "2008-02-02", "2007-12-25", "2010-02-21", "2009-03-18", "2009-02-30", "2009-02-29", "2008-02-29", "1900-02-29",
                                    "2000-02-29", "0001-01-01", "9999-12-31", "1969-12-31", "1970-01-01", "2009-01-16 10:20:30", "2009-01-00", "2009-13-01"]]
    fixed += big_number_cases(ctx.tier == "thorough" or ctx.search)
    for fn, s in fixed:
        judge(ctx, fn, s, impl, terms, info)
    ctx.sample({"fn": "duration", "input": "60 days", "value": call(impl["duration"], "60 days")})
    ctx.sample({"fn": "size", "input": "1024 Ki", "value": call(impl["size"], "1024 Ki")})
    ctx.sample({"fn": "date", "input": "2009-01-16", "value": call(impl["date"], "2009-01-16")})

    gens = {"duration": gen_duration, "size": gen_size, "date": gen_date}
    n = ctx.n(300, 6000)
    for fn in ("duration", "size", "date"):
        for malformed in (False, True):
            for i in range(n):
                r = ctx.rng(fn, malformed, i)
                judge(ctx, fn, gens[fn](r, malformed), impl, terms, info)
    if ctx.tier == "thorough" or ctx.search:
        # every day of a few whole years, and every (month, day) 00..32 of a leap, a common and a century year
        for y in (1900, 2000, 2023, 2024):
            for m in range(0, 14):
                for d in range(0, 33):
                    judge(ctx, "date", "%04d-%02d-%02d" % (y, m, d), impl, terms, info)

    bad = [] if ctx.search else ctx.coq_check(IMPORTS, terms, preamble=PREAMBLE, tag="c48parse")   # searching: only the oracle matters
    for ix in bad:
        fn, s, got = info[ix]
        ctx.mismatch("model-vs-impl:parse_" + fn, "Coq model of parse_%s and the implementation differ on %r (implementation: %r)" % (fn, show(s), got),
                     case={"fn": fn, "input": s, "codepoints": [ord(c) for c in s][:64]}, observed=got, correspondence="parsers-vs-model")
    ctx.trace(len(terms) - len(bad))

    print_then_parse(ctx, impl)
    call_site(ctx)
    timezones(ctx, impl)


# ---- abbreviate_space and print-then-parse ----
def size_stream(ctx):
    out = list(range(0, 4200)) if (ctx.tier == "thorough" or ctx.search) else list(range(0, 130)) + list(range(990, 1040))
    for U in (1000, 1024):
        for k in range(1, 8):
            for delta in (-2, -1, 0, 1, 2):
                out.append(U ** k + delta)
            for mult in (5, 15, 25, 35, 125, 995, 1005, 9995, 99995, 999995):     # rounding ties and carries into the next unit
                out.append(U ** k * mult // 1000)
                out.append(U ** k * mult // 1000 + 1)
    out += [2 ** 53 - 1, 2 ** 53, 2 ** 53 + 1, 2 ** 64, 10 ** 21, 10 ** 30, 2 ** 90 + 12345]
    m = ctx.n(350, 8000)
    for i in range(m):
        r = ctx.rng("size", i)
        out.append(r.getrandbits(r.choice([11, 12, 16, 20, 24, 30, 31, 32, 40, 50, 53, 54, 60, 63, 64, 70, 90])))
    return [s for s in out if s >= 0]


PREFIXES = ["k", "M", "G", "T", "P", "E"]


def printer_oracle(s, si, text):
    """The printed text is the size rounded to two decimals of the largest documented unit not exceeding it."""
    U = 1000 if si else 1024
    if s < 1024:
        return text == "%d B" % s
    j = 1
    while j < 6 and s >= U ** (j + 1):
        j += 1
    want_unit = PREFIXES[j - 1] + ("B" if si else "iB")
    try:
        num, unit = text.split(" ")
        whole, frac = num.split(".")
    except ValueError:
        return False
    if unit != want_unit or len(frac) != 2 or not (whole + frac).isdigit() or not (whole + frac).isascii():
        return False
    shown = Fraction(int(whole + frac), 100) * U ** j
    # half a unit in the last place, plus the relative error of two binary64 roundings
    return abs(shown - s) <= Fraction(U ** j, 200) + Fraction(s, 2 ** 51)


def print_then_parse(ctx, impl):
    terms, info = [], []
    reported = 0
    for s in size_stream(ctx):
        for si in (True, False):
            text = impl["space"](s, si)
            ctx.case(("space", s, si), kind="abbreviate_space-" + ("bytes" if s < 1024 else "scaled"))
            if not printer_oracle(s, si, text):
                ctx.oracle_fail("abbreviate_space-wrong-text", "abbreviate_space(%d, SI=%s) = %r is not the size rounded to two decimals of its unit" % (s, si, text),
                                case={"fn": "space", "size": s, "si": si}, expected="rounded value with the documented unit", observed=text)
            terms.append("list_N_eqb (abbreviate_space %s %s) %s" % (T.boolean(si), T.N(s), cps(text)))
            info.append((s, si, text))
            back = call(impl["size"], text)
            if back != ("ok", s):
                if s >= 1024 and back == ("ValueError",):
                    ctx.count("print-parse:fraction-rejected")
                    if reported < 2:
                        reported += 1
                        ctx.oracle_fail("print-parse-size-fraction-rejected",
                                        "abbreviate_space(%d, SI=%s) prints %r, which parse_abbreviated_size rejects (ValueError)" % (s, si, text),
                                        case={"fn": "print-parse", "size": s, "si": si}, expected=s, observed=back)
                else:
                    ctx.oracle_fail("print-parse-size-differs", "abbreviate_space(%d, SI=%s) prints %r, which parses back as %r" % (s, si, text, back),
                                    case={"fn": "print-parse", "size": s, "si": si}, expected=s, observed=back)
            else:
                ctx.count("print-parse:same-value")
    bad = [] if ctx.search else ctx.coq_check(IMPORTS, terms, preamble=PREAMBLE, tag="c48space")   # searching: only the oracle matters
    for ix in bad:
        s, si, text = info[ix]
        ctx.mismatch("model-vs-impl:abbreviate_space", "Coq model of abbreviate_space and the implementation differ on (%d, SI=%s): implementation prints %r" % (s, si, text),
                     case={"fn": "space", "size": s, "si": si}, observed=text, correspondence="abbreviate_space-vs-model")
    ctx.trace(len(terms) - len(bad))
    ctx.sample({"fn": "abbreviate_space", "size": 1234567, "SI": impl["space"](1234567), "binary": impl["space"](1234567, False)})


# ---- the call site in client.py ----
class _Recorder(Exception):
    pass


class _ConfigPath(object):
    """tahoe.cfg text -> _Client.get_anonymous_storage_server -> the values the REAL StorageServer and its
    LeaseCheckingCrawler hold afterwards (nothing is started: the parent service is never run)."""
    serial = 0

    def __enter__(self):
        from twisted.application import service
        from allmydata import client as client_mod
        self.client_mod = client_mod

        class FakeClient(service.MultiService):
            STOREDIR = "storage"
            nodeid = b"n" * 20
            stats_provider = None

            def get_config(self, *a, **kw):
                return self.config.get_config(*a, **kw)

        self.FakeClient = FakeClient
        return self

    def __exit__(self, *a):
        pass

    def kwargs(self, space, dur, date, mutable=None, immutable=None, opts=None):
        """opts: other [storage] settings {"readonly": "true", "enabled": "false", "expire.enabled": ..., "debug_discard": ...};
        a value of None leaves the entry out.  Defaults: enabled = true, expire.enabled = true."""
        import os
        from allmydata import node
        o = {"enabled": "true", "expire.enabled": "true"}
        o.update(opts or {})
        if mutable is not None:
            o["expire.mutable"] = mutable
        if immutable is not None:
            o["expire.immutable"] = immutable
        lines = ["[node]", "nickname = x", "[storage]"]
        if o.get("enabled") is not None:
            lines.append("enabled = " + o["enabled"])
        if o.get("readonly") is not None:
            lines.append("readonly = " + o["readonly"])
        if space is not None:
            lines.append("reserved_space = " + space)
        if o.get("debug_discard") is not None:
            lines.append("debug_discard = " + o["debug_discard"])
        if o.get("expire.enabled") is not None:
            lines.append("expire.enabled = " + o["expire.enabled"])
        lines.append("expire.mode = " + ("cutoff-date" if date is not None else "age"))
        if dur is not None:
            lines.append("expire.override_lease_duration = " + dur)
        if date is not None:
            lines.append("expire.cutoff_date = " + date)
        for k in ("expire.mutable", "expire.immutable"):
            if o.get(k) is not None:
                lines.append("%s = %s" % (k, o[k]))
        _ConfigPath.serial += 1
        basedir = os.path.join(ctx_scratch(), "n%d" % _ConfigPath.serial)
        os.makedirs(basedir)
        cfg = node.config_from_string(basedir, "portnum", "\n".join(lines) + "\n", self.client_mod._valid_config())
        fake = self.FakeClient()
        fake.config = cfg

        def go():
            ss = self.client_mod._Client.get_anonymous_storage_server(fake)
            lc = ss.lease_checker
            return {"reserved_space": ss.reserved_space,
                    "expiration_override_lease_duration": lc.override_lease_duration,
                    "expiration_cutoff_date": lc.cutoff_date,
                    "expiration_sharetypes": tuple(lc.sharetypes_to_expire),
                    "expiration_mode": lc.mode, "expiration_enabled": lc.expiration_enabled,
                    "readonly_storage": ss.readonly_storage}
        return call(go)


def call_site(ctx):
    """_Client.get_anonymous_storage_server reads the three settings from tahoe.cfg and hands the parsed values to StorageServer."""
    cases = [("100 M", "60 days", None), ("1024 Ki", "2mo", None), ("1048576 B", "3 month", None), ("5G", "12 months", None), ("", "2years", None),
             ("10000000000", "7days", None), (None, None, "2009-01-16"), ("1MiB", None, "2008-02-29"), ("1 BB", "7days", None), ("1G", "7 dayz", None),
             ("1G", None, "2009-02-30"), ("1G", None, "2009-01-16 10:20:30"), ("1.5G", None, None), ("1G", "5 \u017f", None), ("1k\u0131b", None, None),
             (None, None, None), ("0", None, None), ("0B", None, None), ("0 KiB", None, None), ("1", None, None), ("1B", None, None),
             ("9EiB", None, None), ("18446744073709551616", None, None), ("1" + "0" * 30 + " E", None, None),
             (None, None, "0001-01-01"), (None, None, "1970-01-01"), (None, None, "1969-12-31"), (None, None, "9999-12-31")]
    # boundary durations with every documented unit spelling: zero is a value (leases expire at once), not "not configured"
    for unit in sorted(DOC_UNITS):
        r = ctx.rng("site-unit", unit)
        cases.append((None, "0" + r.choice(["", " ", "  "]) + casing(r, unit), None))
        cases.append((None, r.choice(["1", "00", "000", "1" + "0" * 25, "18446744073709551616"]) + r.choice(["", " "]) + casing(r, unit), None))
    cases += [(None, "0s", None), (None, "1s", None), (None, "0 days", None), (None, "0mo", None), (None, "0 years", None), ("0", "0 s", None)]
    for i in range(ctx.n(20, 200)):
        r = ctx.rng("site", i)
        cases.append((r.choice([None, number(r) + r.choice(WSPACE[:6]).strip("\n") + casing(r, r.choice(sorted(DOC_SUFFIXES)))]),
                      r.choice([None, number(r) + r.choice(["", " "]) + casing(r, r.choice(sorted(DOC_UNITS)))]), None))
    # what a setting parses to - and whether a malformed value is rejected - must not depend on the other settings of the section
    def truth(v, default):
        return default if v is None else v.lower() in ("true", "yes", "on", "1")
    OPTS = {"readonly": [None, "true", "false"], "enabled": ["true", "false"], "expire.enabled": ["true", "false", None],
            "expire.mutable": [None, "true", "false"], "expire.immutable": [None, "true", "false"], "debug_discard": [None, "true"]}
    full = ctx.tier == "thorough" or ctx.search
    njudged = 0
    with _ConfigPath() as path:
        def judge_site(space, dur, date, opts):
            got = path.kwargs(space, dur, date, opts=opts)
            want_space = ref_size(space) if space is not None else "unset"
            want_dur = ref_duration(dur) if dur is not None else "unset"
            want_date = ref_date(date) if date is not None else "unset"
            ok_expected = None not in (want_space, want_dur, want_date)
            ctx.case(("site", space, dur, date, tuple(sorted((k, v) for k, v in opts.items() if v is not None))) if got[0] == "ok" else None, kind="client-call-site")
            case = {"fn": "client", "reserved_space": space, "override_lease_duration": dur, "cutoff_date": date, "other_settings": {k: v for k, v in opts.items() if v is not None}}
            if ok_expected:
                want = {"reserved_space": 0 if want_space == "unset" else want_space,
                        "expiration_override_lease_duration": None if want_dur == "unset" else want_dur,
                        "expiration_cutoff_date": None if want_date == "unset" else want_date,
                        "readonly_storage": truth(opts.get("readonly"), False),
                        "expiration_enabled": truth(opts.get("expire.enabled", "true"), False),
                        "expiration_sharetypes": tuple(t for t, on in (("immutable", truth(opts.get("expire.immutable"), True)), ("mutable", truth(opts.get("expire.mutable"), True))) if on)}
                obs = {k: got[1].get(k) for k in want} if got[0] == "ok" else got
                if obs != want:
                    diff = sorted(k for k in want if got[0] != "ok" or got[1].get(k) != want[k])
                    ctx.oracle_fail("client-storage-config-wrong-value", "tahoe.cfg %r reaches the storage server / lease expirer with %s = %r, documented meaning %r (None = not configured)" % (
                        case, diff, obs if got[0] != "ok" else {k: obs[k] for k in diff}, {k: want[k] for k in diff}), case=case, expected=repr(want), observed=repr(obs))
            elif got[0] != "ValueError":
                ctx.oracle_fail("client-storage-config-malformed-accepted", "tahoe.cfg with a malformed value %r was not rejected with ValueError: %r" % (case, got),
                                case=case, expected="ValueError", observed=got)

        for i, (space, dur, date) in enumerate(cases):
            judge_site(space, dur, date, {})
            r = ctx.rng("site-opts", i)
            for _ in range(ctx.n(2, 6)):
                judge_site(space, dur, date, {k: r.choice(v) for k, v in OPTS.items()})
                njudged += 1
        # a few value cases (documented, boundary, malformed) against every combination of the boolean settings
        crossed = [("100 M", "60 days", None), ("1024 Ki", None, "2009-01-16"), ("0", "0s", None), (None, "0 days", None), ("1 BB", None, None), ("1G", "7 dayz", None),
                   ("1G", None, "2009-02-30"), ("1.5G", "2mo", None)]
        import itertools
        keys = ["readonly", "enabled", "expire.enabled"] + (["expire.mutable", "expire.immutable"] if full else [])
        for combo in itertools.product(*[OPTS[k] for k in keys]):
            for space, dur, date in crossed:
                judge_site(space, dur, date, dict(zip(keys, combo)))
                njudged += 1
        for mut, imm in [(None, None), ("true", "false"), ("false", "true"), ("false", "false"), ("True", None), (None, "no")]:
            got = path.kwargs(None, "31 days", None, mutable=mut, immutable=imm)
            want = tuple(t for t, on in (("immutable", truth(imm, True)), ("mutable", truth(mut, True))) if on)
            ctx.case(("sharetypes", mut, imm), kind="client-call-site")
            obs = got[1].get("expiration_sharetypes") if got[0] == "ok" else got
            if obs != want or (got[0] == "ok" and got[1].get("expiration_override_lease_duration") != 31 * DAY):
                ctx.oracle_fail("client-storage-config-wrong-sharetypes", "tahoe.cfg expire.mutable=%s expire.immutable=%s reaches the lease expirer as %r, documented %r" % (mut, imm, got, want),
                                case={"fn": "client-sharetypes", "mutable": mut, "immutable": imm}, expected=repr(want), observed=repr(got))
    ctx.trace(len(cases) + njudged)


# ---- the node's local timezone must not matter: "midnight UTC at the beginning of the given day" ----
# POSIX TZ strings (no tzdata needed): west and east of Greenwich, with and without daylight saving, a half-hour zone
TIMEZONES = ["EST5EDT,M3.2.0,M11.1.0", "JST-9", "NZST-12NZDT,M9.5.0,M4.1.0/3", "IST-5:30", "PST8PDT,M3.2.0,M11.1.0"]
TZ_DATES = ["2009-01-16", "2008-02-02", "2007-12-25", "2009-03-08", "2009-03-09", "2009-11-01", "2009-07-04", "2008-02-29", "1970-01-01", "1969-12-31",
            "2038-01-19", "2000-02-29", "0001-01-01", "9999-12-31"]


class local_timezone(object):
    """Run a block with the process's local timezone set to `tz` (os.environ['TZ'] + time.tzset()), restored afterwards."""

    def __init__(self, tz):
        self.tz = tz

    def __enter__(self):
        import os
        import time
        self.old = os.environ.get("TZ")
        os.environ["TZ"] = self.tz
        time.tzset()

    def __exit__(self, *a):
        import os
        import time
        if self.old is None:
            os.environ.pop("TZ", None)
        else:
            os.environ["TZ"] = self.old
        time.tzset()


def tz_case(ctx, impl, path, tz, s, via_config):
    """one date string under one local timezone, directly or through tahoe.cfg; the documented value does not depend on tz"""
    import time
    want = ref_date(s)
    with local_timezone(tz):
        offset = -time.localtime(0 if want is None else max(min(want, 2 ** 31), 0)).tm_gmtoff
        if via_config:
            r = path.kwargs(None, None, s)
            got = ("ok", r[1].get("expiration_cutoff_date")) if r[0] == "ok" else r
        else:
            got = call(impl["date"], s)
    fn = "date-tz-config" if via_config else "date-tz"
    ctx.case((fn, tz, s) if got[0] == "ok" else None, kind=fn)
    case = {"fn": fn, "tz": tz, "input": s}
    what = ("expire.cutoff_date = %s in tahoe.cfg reaches the storage server" % s) if via_config else ("parse_date(%r)" % s)
    if want is None:
        if got[0] != "ValueError":
            ctx.oracle_fail("date-malformed-accepted-under-timezone", "%s with the node's local timezone TZ=%s: %r instead of ValueError" % (what, tz, got),
                            case=case, expected="ValueError", observed=got)
    elif got != ("ok", want):
        delta = (got[1] - want) if got[0] == "ok" and isinstance(got[1], int) else None
        ctx.oracle_fail("date-depends-on-local-timezone",
                        "%s as %r with the node's local timezone TZ=%s; the documented meaning is midnight UTC = %d%s" % (
                            what, got[1] if got[0] == "ok" else got, tz, want,
                            "" if delta is None else " (off by %+d s; the zone's offset from UTC that day is %+d s)" % (delta, offset)),
                        case=case, expected={"tz": tz, "date": s, "utc_midnight": want}, observed={"tz": tz, "date": s, "got": got[1] if got[0] == "ok" else got})


def timezones(ctx, impl):
    n = 0
    with _ConfigPath() as path:
        for k, tz in enumerate(TIMEZONES if (ctx.tier == "thorough" or ctx.search) else TIMEZONES[:3]):
            dates = list(TZ_DATES) + ["2009-02-30", "2009-01-16 10:20:30"]
            for i in range(ctx.n(12, 150)):
                dates.append(gen_date(ctx.rng("tz", k, i), malformed=(i % 6 == 5)))
            for s in dates:
                tz_case(ctx, impl, path, tz, s, via_config=False)
                n += 1
            for s in TZ_DATES[:6] + ["2009-02-30"]:
                tz_case(ctx, impl, path, tz, s, via_config=True)
                n += 1
    ctx.trace(n)


def ctx_scratch():
    from core import env
    return env.subdir("c48node")


# ---- single-case replay ----
def replay(ctx, rec):
    impl = impls()
    case = rec.get("case") or {}
    fn = case.get("fn")
    out = {}
    if fn in ("duration", "size", "date"):
        s = case["input"]
        terms, info = [], []
        judge(ctx, fn, s, impl, terms, info)
        out["implementation"] = info[0][2]
        out["documented"] = {"duration": ref_duration, "size": ref_size, "date": ref_date}[fn](s)
        model = {"duration": "parse_duration", "size": "parse_abbreviated_size", "date": "parse_date"}[fn]
        out["model"] = ctx.coq_eval(IMPORTS, "%s %s" % (model, cps(s)))[-200:]
    elif fn == "client":
        with _ConfigPath() as path:
            got = path.kwargs(case.get("reserved_space"), case.get("override_lease_duration"), case.get("cutoff_date"), opts=case.get("other_settings") or {})
        out["storage_server_holds"] = repr(got)
        sp, du, da = case.get("reserved_space"), case.get("override_lease_duration"), case.get("cutoff_date")
        want = {"reserved_space": 0 if sp is None else ref_size(sp), "expiration_override_lease_duration": None if du is None else ref_duration(du),
                "expiration_cutoff_date": None if da is None else ref_date(da)}
        if want["reserved_space"] == "unset":
            want["reserved_space"] = 0
        out["documented"] = repr(want)
        if got[0] != "ok" or any(got[1].get(k) != v for k, v in want.items()):
            ctx.oracle_fail("client-storage-config-wrong-value", "tahoe.cfg %r reaches the storage server / lease expirer as %r, documented %r" % (case, got, want), case=case)
    elif fn in ("date-tz", "date-tz-config"):
        with _ConfigPath() as path:
            tz_case(ctx, impl, path, case["tz"], case["input"], via_config=(fn == "date-tz-config"))
            with local_timezone(case["tz"]):
                out["parse_date"] = call(impl["date"], case["input"])
                out["through_tahoe_cfg"] = path.kwargs(None, None, case["input"])
                out["through_tahoe_cfg"] = out["through_tahoe_cfg"][1].get("expiration_cutoff_date") if out["through_tahoe_cfg"][0] == "ok" else out["through_tahoe_cfg"]
        out["tz"] = case["tz"]
        out["documented_utc_midnight"] = ref_date(case["input"])
        out["model"] = ctx.coq_eval(IMPORTS, "parse_date %s" % cps(case["input"]))[-200:]
    elif fn in ("space", "print-parse"):
        s, si = case["size"], case["si"]
        text = impl["space"](s, si)
        out["printed"] = text
        out["parsed_back"] = call(impl["size"], text)
        out["model_print"] = ctx.coq_eval(IMPORTS, "abbreviate_space %s %s" % (T.boolean(si), T.N(s)))[-300:]
        if not printer_oracle(s, si, text):
            ctx.oracle_fail("abbreviate_space-wrong-text", "abbreviate_space(%d, SI=%s) = %r is not the size rounded to two decimals of its unit" % (s, si, text), case=case)
        if fn == "print-parse" and out["parsed_back"] != ("ok", s):
            ctx.oracle_fail("print-parse-size-fraction-rejected" if s >= 1024 else "print-parse-size-differs", "printed %r parses back as %r" % (text, out["parsed_back"]), case=case)
    return out
