"""Shared by C46 and C04: the real DownloadNode + Segmentation (+ ImmutableFileNode /
DecryptingConsumer) driven event by event, with harness fetchers that hand the node
REAL blocks taken from shares of a real upload, and a harness queue in place of
`eventually`.  Also: uploads with a deliberately wrong crypttext hash leaf."""
import struct

from core import term as T

IMPORTS = ["Lib.Hex", "Model.SegQueue"]

ERR = {"EBadSegNum": 0, "ENotEnough": 1, "ENoShares": 2, "EBadCiphertext": 3, "EDecode": 4, "EOther": 5}


# ---------------------------------------------------------------------------
# material: one real upload, its shares taken apart
# ---------------------------------------------------------------------------
class Material(object):
    """cap, plaintext, ciphertext geometry, UEB bytes, blocks[shnum][segnum],
    crypttext hash tree {index: hash}."""


_materials = {}


def parse_share(raw):
    """(blocks-region offsets...) of an immutable share file (container header 12 bytes, then v1/v2 share)."""
    data = raw[12:]
    (ver,) = struct.unpack(">L", data[:4])
    if ver == 1:
        fields = struct.unpack(">LLLLLLLL", data[4:0x24])
        fs = 4
    else:
        fields = struct.unpack(">QQQQQQQQ", data[4:0x44])
        fs = 8
    block_size, data_size, o_data, o_pt, o_ct, o_bh, o_sh, o_ueb = fields
    (ueb_len,) = struct.unpack(">L" if fs == 4 else ">Q", data[o_ueb:o_ueb + fs])
    return {"data": data, "block_size": block_size, "data_size": data_size, "o_data": o_data, "o_ct": o_ct, "o_bh": o_bh,
            "ueb": data[o_ueb + fs:o_ueb + fs + ueb_len]}


def material(size, k, n, segsize, bad_leaf=None):
    """Upload `size` bytes k-of-n with max_segment_size=segsize on a fresh grid
    and take the shares apart.  Cached per parameter tuple."""
    key = (size, k, n, segsize, bad_leaf)
    if key in _materials:
        return _materials[key]
    from core import grid as G
    from allmydata import uri
    plaintext = bytes((7 * i + (i >> 5) + size) & 0xFF for i in range(size))
    with G.Grid(num_servers=n, k=k, n=n, happy=1, max_segment_size=segsize, seed=size * 31 + k) as g:
        if bad_leaf is None:
            cap = g.run(g.upload(plaintext, convergence=b"verif"))
        else:
            cap = bad_upload(g, plaintext, bad_leaf)
        shares = {}
        for sh in g.find_shares(cap):
            shares[sh.shnum] = parse_share(g.read_share(sh))
    m = Material()
    m.cap = cap
    m.plaintext = plaintext
    u = uri.from_string(cap)
    m.k, m.n, m.size = u.needed_shares, u.total_shares, u.size
    any_share = shares[sorted(shares)[0]]
    m.ueb = any_share["ueb"]
    ueb = uri.unpack_extension(m.ueb)
    m.segsize = ueb["segment_size"]
    m.numsegs = ueb["num_segments"]
    bs = any_share["block_size"]
    tail = m.size % m.segsize or m.segsize
    tail_padded = -(-tail // m.k) * m.k
    tail_bs = tail_padded // m.k
    m.blocks = {}
    for shnum, p in shares.items():
        m.blocks[shnum] = [p["data"][p["o_data"] + i * bs: p["o_data"] + i * bs + (tail_bs if i == m.numsegs - 1 else bs)] for i in range(m.numsegs)]
    nhashes = (any_share["o_bh"] - any_share["o_ct"]) // 32
    m.cthashes = {i: any_share["data"][any_share["o_ct"] + 32 * i: any_share["o_ct"] + 32 * i + 32] for i in range(nhashes)}
    _materials[key] = m
    return m


def bad_upload(g, data, badsegs, convergence=b"verif"):
    """Upload with a crypttext hash tree whose leaves for `badsegs` are wrong: the
    tree (and the UEB root) is consistent, the segment's real hash differs, so
    only DownloadNode._check_ciphertext_hash can notice (BadCiphertextHashError)."""
    from allmydata.immutable import encode
    orig = encode.Encoder.send_crypttext_hash_tree_to_all_shareholders

    def patched(self):
        for s in badsegs:
            if s < len(self._crypttext_hashes):
                self._crypttext_hashes[s] = bytes([s & 0xFF]) * 32
        return orig(self)
    encode.Encoder.send_crypttext_hash_tree_to_all_shareholders = patched
    try:
        return g.run(g.upload(data, convergence=convergence))
    finally:
        encode.Encoder.send_crypttext_hash_tree_to_all_shareholders = orig


# ---------------------------------------------------------------------------
# event-by-event drive of the real node
# ---------------------------------------------------------------------------
def error_code(f):
    from allmydata.interfaces import NotEnoughSharesError, NoSharesError, DownloadStopped
    from allmydata.immutable.downloader.common import BadSegmentNumberError, WrongSegmentError, BadCiphertextHashError
    if f.check(DownloadStopped):
        return 2
    if f.check(WrongSegmentError):
        return 3
    if f.check(BadSegmentNumberError):
        return 10 + ERR["EBadSegNum"]
    if f.check(NotEnoughSharesError):
        return 10 + ERR["ENotEnough"]
    if f.check(NoSharesError):
        return 10 + ERR["ENoShares"]
    if f.check(BadCiphertextHashError):
        return 10 + ERR["EBadCiphertext"]
    return 10 + ERR["EDecode"]


def seg_code(result):
    from twisted.python.failure import Failure
    if isinstance(result, Failure):
        return [1, error_code(result) - 10]
    return None   # filled by caller (segnum)


class Drive(object):
    """One real DownloadNode under harness control.  Events (the model's):
       ("read", offset, size|None, {write index: "pause"|"stop"})
       ("pause", i) ("resume", i) ("stop", i)
       ("run",)                 run the oldest queued eventual-send
       ("learn",)               the UEB arrives
       ("failed", errname)      active fetcher -> fetch_failed
       ("blocks", ok, errname)  active fetcher -> process_blocks (good blocks / one corrupted / k+1 blocks)
    `apply` returns the model event terms this event stands for ([] if it could not happen)."""

    def __init__(self, m, guess_max):
        import allmydata.immutable.downloader.node as NODE
        import allmydata.immutable.downloader.segmentation as SEG
        from allmydata.immutable.filenode import ImmutableFileNode
        from allmydata import uri
        self.m = m
        self.NODE, self.SEG = NODE, SEG
        self.queue = []
        self.log = []          # outputs in model coding
        self.fetchers = []
        self.readers = []      # dicts
        self.rids = {}         # cancel handle -> rid
        from allmydata.util import cputhreadpool
        self._saved = (NODE.eventually, SEG.eventually, NODE.SegmentFetcher, NODE.DownloadNode.default_max_segment_size, cputhreadpool._DISABLED)
        cputhreadpool._DISABLED = True      # decode in the calling thread, as on the harness grid
        drive = self

        class FakeFetcher(object):
            def __init__(self, node, segnum, k, lp):
                self.segnum = segnum
                self.fid = len(drive.fetchers)
                self.running = True
                drive.fetchers.append(self)
                drive.log.append([0, self.fid, segnum])

            def add_shares(self, shares):
                pass

            def no_more_shares(self):
                pass

            def stop(self):
                if self.running:
                    self.running = False
                    drive.log.append([1, self.fid])

        NODE.eventually = SEG.eventually = lambda f, *a, **kw: self.queue.append((f, a, kw))
        NODE.SegmentFetcher = FakeFetcher
        NODE.DownloadNode.default_max_segment_size = guess_max
        self.fnode = ImmutableFileNode(uri.from_string(m.cap), None, None, None, None)
        self.fnode._cnode._maybe_create_download_node()
        self.node = self.fnode._cnode._node
        self.guess = self.node.guessed_segment_size
        orig_get = self.node.get_segment

        def get_segment(segnum, logparent=None):
            d, c = orig_get(segnum, logparent)
            rid = len(self.rids)
            self.rids[c] = rid

            def fired(res):
                from twisted.python.failure import Failure
                if isinstance(res, Failure):
                    self.log.append([2, rid, 1, error_code(res) - 10])
                else:
                    self.log.append([2, rid, 0, res[0] // m.segsize])
                return res
            d.addBoth(fired)
            return d, c
        self.node.get_segment = get_segment

    def close(self):
        NODE = self.NODE
        from allmydata.util import cputhreadpool
        NODE.eventually, self.SEG.eventually, NODE.SegmentFetcher, NODE.DownloadNode.default_max_segment_size, cputhreadpool._DISABLED = self._saved

    # -- events -----------------------------------------------------------------
    def apply(self, ev):
        from zope.interface import implementer
        from twisted.internet.interfaces import IConsumer
        from twisted.python.failure import Failure
        kind = ev[0]
        node = self.node
        m = self.m
        if kind == "read":
            _, offset, size, script = ev
            drive = self
            i = len(self.readers)
            rd = {"i": i, "chunks": [], "result": None, "producer": None, "seg": None, "script": dict(script), "reacted": None, "mfn": 0}
            self.readers.append(rd)

            @implementer(IConsumer)
            class Consumer(object):
                def registerProducer(self, p, streaming):
                    rd["producer"] = p
                    rd["seg"] = p

                def unregisterProducer(self):
                    rd["producer"] = None

                def write(self, data):
                    ix = len(rd["chunks"])
                    rd["chunks"].append(data)
                    drive.log.append([3, i] + list(drive.position_bytes(rd, data)))
                    what = rd["script"].get(ix)
                    if what == "pause":
                        rd["reacted"] = "PauseInWrite"
                        rd["producer"].pauseProducing()
                    elif what == "stop":
                        rd["reacted"] = "StopInWrite"
                        rd["producer"].stopProducing()
            rd["offset0"] = offset
            rd["pos"] = offset
            d = self.fnode.read(Consumer(), offset, size)

            def done(res):
                code = error_code(res) if isinstance(res, Failure) else 1
                rd["result"] = code
                self.log.append([4, i, code])
            d.addBoth(done)
            return ["(SRead %s %s)" % (T.N(offset), T.opt(T.N(size) if size is not None else None))]
        if kind in ("pause", "resume", "stop"):
            i = ev[1]
            if i >= len(self.readers):
                return []
            rd = self.readers[i]
            if rd["result"] is not None or rd["producer"] is None:
                return []
            if kind == "pause":
                rd["producer"].pauseProducing()
                return ["(SPause %d%%nat)" % i]
            if kind == "resume":
                rd["producer"].resumeProducing()
                rd["mfn"] += 1
                return ["(SResume %d%%nat)" % i]
            rd["producer"].stopProducing()
            return ["(SStop %d%%nat)" % i]
        if kind == "run":
            if not self.queue:
                return []
            f, a, kw = self.queue.pop(0)
            name = getattr(f, "__name__", "")
            if name == "_maybe_fetch_next":
                owner = f.__self__
                i = [r["i"] for r in self.readers if r["seg"] is owner][0]
                self.readers[i]["mfn"] -= 1
                f(*a, **kw)
                return ["(SMaybeFetch %d%%nat)" % i]
            assert name == "_deliver", name
            for r in self.readers:
                r["reacted"] = None
            f(*a, **kw)
            react = [r["reacted"] for r in self.readers if r["reacted"]]
            return ["(SDeliver %s)" % (react[0] if react else "Quiet")]
        if kind == "learn":
            if node.segment_size is not None:
                return []
            node.validate_and_store_UEB(m.ueb)
            node.process_ciphertext_hashes(dict(m.cthashes))
            return ["SLearn"]
        active = node._active_segment
        if active is None or not active.running:
            return []
        segnum = active.segnum
        if kind == "failed":
            from allmydata.interfaces import NotEnoughSharesError, NoSharesError
            from allmydata.immutable.downloader.common import BadSegmentNumberError
            name = ev[1]
            if name == "EBadSegNum" and (node.segment_size is None or segnum < m.numsegs):
                return []
            exc = {"EBadSegNum": BadSegmentNumberError, "ENotEnough": NotEnoughSharesError, "ENoShares": NoSharesError}[name]
            active.running = False     # the real fetcher stops itself first
            node.fetch_failed(active, Failure(exc("harness")))
            return ["(SFetchFailed %s)" % name]
        if kind == "blocks":
            ok, name = ev[1], ev[2]
            if node.segment_size is None or segnum >= m.numsegs:
                return []
            shnums = sorted(m.blocks)[:m.k] if ev[3] is None else ev[3]
            blocks = {sh: m.blocks[sh][segnum] for sh in shnums}
            if not ok:
                if name == "EBadCiphertext":
                    sh0 = shnums[0]
                    b = bytearray(blocks[sh0])
                    b[len(b) // 2] ^= 0x5A
                    blocks[sh0] = bytes(b)
                else:
                    extra = [sh for sh in sorted(m.blocks) if sh not in shnums]
                    if not extra:
                        return []
                    blocks[extra[0]] = m.blocks[extra[0]][segnum]     # k+1 blocks: the decoder refuses
            active.running = False
            node.process_blocks(segnum, blocks)
            return ["(SBlocks %s %s)" % (T.boolean(ok), name)]
        raise ValueError(ev)

    def position_bytes(self, rd, data):
        """consumer writes are plaintext; the model works position-wise on the file, so
        the bytes written are compared as the file's bytes at the reader's position"""
        pos = rd["pos"]
        rd["pos"] = pos + len(data)
        return data

    # -- observation -------------------------------------------------------------
    def observe(self):
        from twisted.python.failure import Failure
        node = self.node
        rows = []
        rows.append([v for t in node._segment_requests for v in (t[0], self.rids[t[2]])])
        a = node._active_segment
        rows.append([a.fid, a.segnum] if a is not None else [])
        dels = []
        for f, args, kw in self.queue:
            if getattr(f, "__name__", "") == "_deliver":
                d, c, result = args
                if isinstance(result, Failure):
                    dels += [self.rids[c], 1, error_code(result) - 10]
                else:
                    dels += [self.rids[c], 0, result[0] // self.m.segsize]
        rows.append(dels)
        rows.append([1 if node.segment_size is not None else 0])
        for rd in self.readers:
            s = rd["seg"]
            if s is None:
                rows.append([rd["offset0"], 0, 0, 0, 0, rd["result"] or 0, 0, 0])
                continue
            act = 0
            if rd["result"] is None and s._active_segnum is not None:
                act = s._active_segnum + 1
            rows.append([s._offset, s._size, int(s._hungry), int(s._alive), act, rd["result"] or 0, len(rd["chunks"]), rd["mfn"]])
            for ch in rd["chunks"]:
                rows.append(list(ch))
        return rows + self.log


def lln(rows):
    # the model's observations are naturals; a negative value read back from the implementation (e.g. a
    # negative remaining size) is rendered as 10**12 + |v| so that it shows up as a disagreement
    return T.lst([T.lst([T.N(v if v >= 0 else 10 ** 12 - v) for v in row]) for row in rows])


def model_term(m, guess, events, obs, clear=True):
    return "lln_eqb (sobs (srun %s %s %s %s (sinit) %s)) %s" % (
        T.boolean(clear), T.bytes_(m.plaintext), T.N(m.segsize), T.N(guess), T.lst(events), lln(obs))


def make_dyhb_fail_synchronously(g, servers):
    """Lost connection: foolscap's callRemote on a dead reference returns an ALREADY FAILED Deferred
    (DeadReferenceError) instead of going over the wire.  The client-side references of the given grid servers
    answer get_buckets that way (not through the scheduler); other methods are untouched.  Returns an undo function."""
    from twisted.internet import defer
    from foolscap.api import DeadReferenceError
    undo = []
    for sv in servers:
        for per in g._client_servers[sv].values():
            w = per.rref
            orig = w.callRemote

            def callRemote(methname, *a, _orig=orig, **kw):
                if methname == "get_buckets":
                    return defer.fail(DeadReferenceError("harness: connection lost"))
                return _orig(methname, *a, **kw)
            w.callRemote = callRemote
            undo.append(w)

    def restore():
        for w in undo:
            w.__dict__.pop("callRemote", None)
    return restore


def upload_with_big_ueb(g, data, extra, badsegs=(), convergence=b"verif"):
    """Upload with one extra (legal, ignored by readers) UEB field of `extra` bytes, so that the UEB is longer than the
    downloader's speculative 2 KiB read.  Only the upload side is touched (uri.pack_extension as seen by the encoder)."""
    from allmydata import uri
    from allmydata.immutable import encode
    orig = uri.pack_extension
    orig_size = encode.Encoder.get_uri_extension_size

    def pack_with_extra(d):
        d = dict(d)
        d["x-uploader-note"] = b"n" * extra
        return orig(d)

    def size_with_extra(enc):
        uri.pack_extension = orig          # the encoder checks the exact key set here: standard keys, real (larger) size
        try:
            n = orig_size(enc)
        finally:
            uri.pack_extension = pack_with_extra
        return n + len(orig({"x-uploader-note": b"n" * extra}))
    uri.pack_extension = pack_with_extra
    encode.Encoder.get_uri_extension_size = size_with_extra
    try:
        if badsegs:
            return bad_upload(g, data, list(badsegs), convergence)
        return g.run(g.upload(data, convergence=convergence))
    finally:
        uri.pack_extension = orig
        encode.Encoder.get_uri_extension_size = orig_size
